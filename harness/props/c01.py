"""C01 — documented entity tree equals the declared program structure."""
import shutil
import tempfile

from harness import core
from harness.core import coq_str, coq_list
from harness.gen import ftree as T
from harness.impl import tree as I
from harness.props import c01types as TY
from harness.props import c01cascade as TC

IMPORTS = "From Ford Require Import Base.Str Sem.Tree Corr.C01."
CASE_T = "str * list stmt * (ent + nat) * option ent"
THEOREMS = ["C01_tree_roundtrip", "C01_decl_consumed"]


def impl_term(res):
    if res[0] == "ok":
        return f"inl ({T.tree_term(res[1])})"
    return "inr 1"


def case_term(fname, events, res, spec):
    stmts = coq_list(t for t, _ in events if t is not None)
    sp = f"Some ({T.tree_term(spec)})" if spec is not None else "None"
    return f"({coq_str(fname)}, {stmts}, {impl_term(res)}, {sp})"


def norm(x):
    return None if x is None else str(x).replace(" ", "").lower()


def check_vars(declared, got, path, problems, findings):
    """L1 search: what FORD reports for each declared variable against its declaration."""
    gv = {c["name"].lower(): c for c in got["children"] if c.get("l") == "LVariable"}
    for c in declared["children"]:
        if c.get("l") == "LVariable" and "ts" in c["decl"]:
            g = gv.get(c["name"].lower())
            if g is None:
                continue   # structure mismatch is reported by the tree comparison
            d, a = c["decl"], g["decl"]
            vt, kind, strlen, _ = d["ts"]
            exp = {"vartype": vt, "kind": kind, "strlen": strlen, "intent": d["intent"] or "",
                   "optional": bool(d["optional"]), "initial": d["init"], "dimension": d["dim"] or ""}
            act = {"vartype": a["vartype"], "kind": a["kind"], "strlen": a["strlen"], "intent": a["intent"] or "",
                   "optional": bool(a["optional"]), "initial": a["initial"], "dimension": a["dimension"] or ""}
            if vt == "character" and strlen is None:
                exp["strlen"] = act["strlen"] if act["strlen"] in (None, "1") else None
            for key in exp:
                if norm(exp[key]) != norm(act[key]):
                    if key == "dimension" and any(norm(x) == norm("dimension" + (d["dim"] or "")) for x in a["attribs"]):
                        continue   # DIMENSION attribute spelling is kept among the attributes (documented form)
                    problems.append({"path": path + [c["name"]], "field": key, "declared": exp[key], "ford": act[key]})
            for at in d["attrs"]:
                if at.lower() not in [x.lower().replace(" ", "") for x in a["attribs"]]:
                    problems.append({"path": path + [c["name"]], "field": "attribs", "declared": at, "ford": a["attribs"]})
    if declared.get("k") in ("KSubroutine", "KFunction") and "args" in declared and "args" in got:
        if [a.lower() for a in declared["args"]] != [a.lower() for a in got["args"]]:
            problems.append({"path": path, "field": "argument list", "declared": declared["args"], "ford": got["args"]})
        if declared["k"] == "KFunction" and (declared.get("result") or declared["name"]).lower() != str(got.get("result")).lower():
            problems.append({"path": path, "field": "result name", "declared": declared.get("result") or declared["name"],
                             "ford": got.get("result")})
        for at in declared.get("attrs", []):
            if at.lower() not in [x.lower() for x in got.get("attribs", [])]:
                problems.append({"path": path, "field": "procedure attributes", "declared": at, "ford": got.get("attribs")})
    gc = {(c.get("k"), c["name"].lower()): c for c in got["children"] if "k" in c}
    for c in declared["children"]:
        if "k" in c:
            g = gc.get((c["k"], c["name"].lower()))
            if g is not None:
                check_vars(c, g, path + [c["name"]], problems, findings)


def include_layer(chk, rng, quick):
    """INCLUDE lines: a run of variable declarations of each file is moved into an include file that lies beside
    the including file; two directories use the same include name for different contents.  The reader splices
    the included statements in, so the statement sequence - and the declared tree - is that of the original file."""
    from harness.impl import fordrun as F
    cases, terms = [], []
    for k in range(12 if quick else 150):
        files, expect = {}, {}
        for j, d in enumerate(("a", "b")):
            cx = T.Ctx(rng, docs=True, spell=rng.random() < 0.5, styles=False, idcase=False)
            cx.n = 100 * (2 * k + j)
            fname = f"u{k}{d}.f90"
            f = T.gen_file(cx, fname, [], allow_program=(j == 0))
            ev = T.render_file(cx, f)
            runs = []
            i = 0
            while i < len(ev):
                if ev[i][0] and ev[i][0].startswith("SLeaf LVariable") and ev[i][1] is not None:
                    e = i + 1
                    while e < len(ev) and ev[e][0] and ev[e][1] is not None and \
                            (ev[e][0].startswith("SLeaf LVariable") or ev[e][0].startswith("SDoc")):
                        e += 1
                    runs.append((i, e))
                    i = e
                else:
                    i += 1
            if not runs:
                continue
            a, b = rng.choice(runs)
            inc = "\n".join(t for _, t in ev[a:b]) + "\n"
            spelling = rng.choice(["include 'params.inc'", 'INCLUDE "params.inc"', "  include   'params.inc'"])
            text = "\n".join([t for _, t in ev[:a] if t is not None] + [spelling] +
                             [t for _, t in ev[b:] if t is not None]) + "\n"
            if not core.is_ascii(text + inc):
                continue
            files[f"src/{d}/{fname}"] = text
            files[f"src/{d}/params.inc"] = inc
            expect[fname] = (ev, T.spec_tree(f), text, inc)
        if len(expect) < 2:
            continue
        with F.Work(files) as w:
            try:
                p = F.parse_project(w.root, correlate=False)
                got = {f.name: ("ok", I.file_node(f), "") for f in p.files}
                log = p._verif_log
            except BaseException as e:  # noqa
                if isinstance(e, (KeyboardInterrupt, SystemExit)):
                    raise
                got, log = {}, f"{type(e).__name__}: {e}"
        for fname, (ev, spec, text, inc) in expect.items():
            res = got.get(fname, ("err", "rejected", log))
            cases.append((fname, text, inc, res, log))
            terms.append(case_term(fname, ev, res, spec))
            chk.count(("include", text, inc), nontrivial=True,
                      sample={"file": text[:300], "include": inc[:200]} if len(cases) < 2 else None)
    out = chk.coq_judge(IMPORTS, CASE_T, "judge", terms, shard=40)
    if out is not None:
        chk.traces += len(cases)
        for idx, code in sorted(out.items()):
            fname, text, inc, res, log = cases[idx]
            chk.violation("failing-input" if code & 2 else "broken-correspondence",
                          {"what": "a file that INCLUDEs declarations from a file beside it (another directory has an "
                                   "include file of the same name) is not documented with its own declarations",
                           "code": code, "file": fname, "text": text, "include": inc,
                           "impl": res[0] if res[0] != "ok" else "tree", "log": log[-500:]}, bool(code & 2))


def run(chk):
    chk.translate(TC.TRANSLATORS)
    chk.build(["theories/Corr/C01.vo", "theories/Props/C01.vo"] + list(TY.BUILD_TARGETS) + list(TC.BUILD_TARGETS))
    chk.props("theories/Props/C01.v", THEOREMS)
    chk.props(TY.PROPS_FILE, TY.THEOREMS)
    chk.props(TC.PROPS_FILE, TC.THEOREMS)
    if chk.tier == "thorough":
        chk.coqchk(["Ford.Props.C01", "Ford.Props.C01types", "Ford.Props.C01cascade"])
    TY.run_part(chk)
    TC.run_part(chk)
    rng = chk.rng
    quick = chk.tier == "quick"
    work = tempfile.mkdtemp(prefix="verif_c01_")
    try:
        cases, terms = [], []
        nprob = 0
        for i in range(250 if quick else 6000):
            cx = T.Ctx(rng, docs=rng.random() < 0.8, spell=rng.random() < 0.85, styles=rng.random() < 0.5,
                       idcase=rng.random() < 0.5)
            f = T.gen_file(cx, f"t{i % 7}.f90", [])
            events = T.render_file(cx, f)
            text = "\n".join(t for _, t in events if t is not None) + "\n"
            if not core.is_ascii(text):
                continue
            res = I.parse_text(text, f["name"], workdir=work)
            spec = T.spec_tree(f)
            cases.append((f["name"], events, res, spec, text))
            terms.append(case_term(f["name"], events, res, spec))
            nunits = sum(1 for _ in events)
            chk.count(("tree", text), nontrivial=nunits > 6,
                      sample={"text": text[:600], "impl": res[0]} if i < 2 else None)
            if res[0] == "ok":
                problems = []
                check_vars(spec, res[1], [f["name"]], problems, None)
                for pb in problems[:1]:
                    nprob += 1
                    chk.violation("failing-input", {"what": "declared variable reported with a different "
                                  + pb["field"], "problem": pb, "text": text}, True)
        out = chk.coq_judge(IMPORTS, CASE_T, "judge", terms, shard=40)
        if out is not None:
            chk.traces += len(cases)
            for idx, code in sorted(out.items()):
                fname, events, res, spec, text = cases[idx]
                chk.violation("failing-input" if code & 2 else "broken-correspondence",
                              {"what": "entity tree of a generated file", "code": code,
                               "meaning": "bit0 model!=impl, bit1 impl tree != declared tree",
                               "impl": res[0] if res[0] != "ok" else "tree", "impl_error": res[1] if res[0] != "ok" else None,
                               "log": res[2][-800:], "text": text}, bool(code & 2))
        chk.extra["variable_attribute_problems"] = nprob
        include_layer(chk, rng, quick)
    finally:
        shutil.rmtree(work, ignore_errors=True)


def replay(chk, rep):
    r = TY.replay_part(chk, rep)
    if r is not None:
        return r
    r = TC.replay_part(chk, rep)
    if r is not None:
        return r
    res = I.parse_text(rep["text"])
    print(res[0], res[1] if res[0] != "ok" else T.tree_term(res[1])[:2000])
    print(res[2][-1000:])
    return 0


def finish(chk):
    return chk.finish(
        level_note="Coq theorems about the structural parser model (statement kinds -> entity tree) and about the "
                   "declaration layer (type-spec spellings, attribute statements, argument order); tied to "
                   "ford.sourceform by differential runs on generated programs and declarations",
        trusted_base=["Coq 8.16.1 kernel (+ vm_compute)", "hand-written models Sem/Tree.v, Sem/TypeSpec.v (hand-written "
                      "recognisers for the type/kind/len regular expressions), Spec Sem/DeclSpec.v", "harness/gen/ftree.py "
                      "(renderer: statement kind -> Fortran text in random spellings), harness/gen/c01decl.py",
                      "harness/impl/tree.py, harness/impl/c01types.py"],
        rule="generated abstract programs (modules, submodules, programs, external procedures, block data, types, "
             "interfaces, enums, common, namelists, internal procedures, block/associate constructs) rendered with "
             "random keyword case / END spellings / type-spec spellings; non-trivial = more than 6 statements",
        checker_cmd="make theories/Props/C01.vo && coqc theories/Props/C01.v (Print Assumptions)",
        assumptions=["the regular-expression cascade (statement classification) is validated end-to-end, not modelled",
                     "FUNCTION_RE / SUBROUTINE_RE groups are taken from FORD's own regex (tied to the abstract unit by "
                     "the judge); extra_vartypes, the lower setting and procedure(...) declarations are outside the model"])
