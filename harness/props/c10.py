"""C10 — distinct entities never share a page, anchor or copied file."""
import collections
import pathlib
import re
from urllib.parse import quote

from harness import core
from harness.core import coq_str, coq_list
from harness.gen import program as G
from harness.impl import fordrun as F

IMPORTS = "From Ford Require Import Base.Str Out.Names Corr.C10."
THEOREMS = ["C10_idents_distinct", "C10_idents_idempotent", "C10_reachable_inv", "C10_outfiles_distinct",
            "C10_anchors_distinct", "C10_src_copy_partial", "C10_src_copy_refuted", "C10_model_meets_spec"]
DIRS = ["proc", "module", "type", "interface", "program", "sourcefile", "blockdata", "namelist", "None"]
NAMES = ["init", "Init", "INIT", "a", "A", "b", "", "operator(<)", "operator(lt)", "operator(>)", "operator(/)",
         "operator(*)", "operator(//)", "operator(<=)", "operator(SLASH)", "x.f90", "X.F90", "assignment(=)",
         "solve", "gt", "operator(gt)", "Solve_2", "__unnamed__"]


def obj_of(i, d):
    """obj differs from the directory exactly where FORD's classes make it differ"""
    return {"module": ["module", "submodule"][i % 2], "interface": ["interface", "proc"][i % 2],
            "None": ["variable", "proc", "boundprocedure", "enum", "common"][i % 5]}.get(d, d)


def case_term(reqs, outs, objs=None):
    rs = coq_list(f"mko {i} {coq_str(d)} {coq_str(n)} {coq_str((objs or {}).get(i) or obj_of(i, d))}"
                  for i, d, n in reqs)
    return f"({rs}, {coq_list(coq_str(o) for o in outs)})"


def impl_sequence(reqs):
    import ford.sourceform as sf

    class Stub(sf.FortranBase):
        def __init__(self, name, d, obj):
            self.name, self._d, self.obj = name, d, obj

        def get_dir(self):
            return None if self._d == "None" else self._d

    sel = sf.NameSelector()
    objs = {}
    outs = []
    for i, d, n in reqs:
        if i not in objs:
            objs[i] = Stub(n, d, obj_of(i, d))
        try:
            outs.append(sel.get_name(objs[i]))
        except Exception as e:  # noqa
            outs.append("EXC:" + type(e).__name__)
    return outs


def gen_sequence(rng):
    n = rng.choice([1, 2, 3, 5, 8, 13, 25])
    ents = {}
    reqs = []
    for _ in range(n):
        if ents and rng.random() < 0.3:
            i = rng.choice(list(ents))
        else:
            i = len(ents) + 1
            name = rng.choice(NAMES)
            if rng.random() < 0.2:
                name = "".join(rng.choice("aAbB<>/*_1") for _ in range(rng.choice([1, 2, 3])))
            ents[i] = (rng.choice(DIRS[:4] if rng.random() < 0.7 else DIRS), name)
        reqs.append((i,) + ents[i])
    return reqs


def collision_knobs(rng):
    pool = rng.choice([["init", "Init", "INIT", "solve"], ["a", "A", "b"], ["alpha", "Alpha", "beta", "gamma"],
                       ["n", "N", "n_2", "n_3", "n2"], ["x", "x_2", "X_2", "x2", "x__2"]])
    return {"names": G.default_names(pool), "nfiles": rng.choice([2, 3, 4, 5]),
            "dirs": rng.choice([["src"], ["src", "src/sub1", "src/sub2"]]),
            "filename": (lambda r, i: r.choice(["x.f90", "X.f90", f"f{i}.f90", "y.F90", "y.f90"])),
            "modname": (lambda r, i, j: r.choice(["mod", "Mod", f"m{i}", "solver"])),
            "p_operator": 0.6, "p_generic": 0.6, "p_blank_in_generic": 0.5, "unnamed_programs": True, "p_internal": 0.4,
            "p_submodule": rng.choice([0.0, 0.25])}


def walk_ford(project):
    """all entity objects reachable from the project (ids de-duplicated)"""
    seen, out = set(), []

    def visit(e):
        if id(e) in seen or isinstance(e, str) or e is None:
            return
        seen.add(id(e))
        out.append(e)
        for attr in ("modules", "submodules", "programs", "functions", "subroutines", "modprocedures", "types",
                     "interfaces", "absinterfaces", "variables", "boundprocs", "enums", "common", "namelists",
                     "blockdata", "args", "finalprocs"):
            for c in getattr(e, attr, None) or []:
                visit(c)
        rv = getattr(e, "retvar", None)
        if rv is not None:
            visit(rv)
    for f in project.files:
        visit(f)
    return out


FORCED_PROJECTS = [
    # generic interfaces (named, operator, assignment) with several explicit interface bodies, a non-generic
    # interface block with two bodies, an abstract interface: every body is an item of its interface's page
    {"src/ifc.f90": """module shapes
  implicit none
  interface area
    !! generic with explicit bodies
    function area_circle(r)
      !! body one
      real, intent(in) :: r
      real :: area_circle
    end function area_circle
    function area_rectangle(a, b)
      !! body two
      real, intent(in) :: a, b
      real :: area_rectangle
    end function area_rectangle
    subroutine area_report(n)
      !! body three
      integer, intent(in) :: n
    end subroutine area_report
  end interface area
  interface operator(.cross.)
    !! operator with explicit bodies
    function cross_r(a, b)
      real, intent(in) :: a, b
      real :: cross_r
    end function cross_r
    function cross_i(a, b)
      integer, intent(in) :: a, b
      integer :: cross_i
    end function cross_i
  end interface
  interface assignment(=)
    subroutine assign_ri(a, b)
      real, intent(out) :: a
      integer, intent(in) :: b
    end subroutine assign_ri
    subroutine assign_ir(a, b)
      integer, intent(out) :: a
      real, intent(in) :: b
    end subroutine assign_ir
  end interface
  interface
    !! non-generic block
    function ext_one(x)
      real, intent(in) :: x
      real :: ext_one
    end function ext_one
    subroutine ext_two(x)
      real, intent(in) :: x
    end subroutine ext_two
  end interface
  abstract interface
    function cb(x)
      real, intent(in) :: x
      real :: cb
    end function cb
  end interface
end module shapes
""",
     "src/ext.f90": """function area_circle(r)
  real, intent(in) :: r
  real :: area_circle
  area_circle = 3.0 * r * r
end function area_circle
function ext_one(x)
  real, intent(in) :: x
  real :: ext_one
  ext_one = x
end function ext_one
"""},
]

ID_RE = re.compile(r'''\sid\s*=\s*["']([^"']+)["']''')
ANCHOR_KINDS = ("proc-", "variable-", "type-", "interface-", "boundprocedure-", "boundproc-", "final-", "finalproc-",
                "common-", "namelist-", "enum-", "module-", "program-", "submodule-", "blockdata-", "genericsource-",
                "sourcefile-", "subroutine-", "function-", "modproc-")


def duplicate_ids(doc):
    """per written page: entity anchors (id="<kind>-...") carried by more than one element"""
    out = {}
    for q in sorted(doc.rglob("*.html")):
        ids = collections.Counter(ID_RE.findall(q.read_text(errors="replace")))
        d = {i: c for i, c in ids.items() if c > 1 and i.lower().startswith(ANCHOR_KINDS)}
        if d:
            out[str(q.relative_to(doc))] = d
    return out


def end_to_end(chk, rng, nproj):
    import ford.sourceform as sf
    for k in range(nproj + len(FORCED_PROJECTS)):
        if k < len(FORCED_PROJECTS):
            files = dict(FORCED_PROJECTS[k])
        else:
            proj = G.gen_project(rng, collision_knobs(rng))
            files = G.render_project(proj)
        log, log5, items = [], [], {}
        orig = sf.NameSelector.get_name

        def spy(self, item, _orig=orig, _log=log):
            r = _orig(self, item)
            items[id(item)] = item
            _log.append((id(item), str(item.get_dir()), item.name, r))
            log5.append((id(item), str(item.get_dir()), item.name, r, getattr(item, "obj", "")))
            return r
        import ford.fortran_project as fp
        captured = []
        orig_init = fp.Project.__init__

        def init_spy(self, *a, _o=orig_init, **kw):
            captured.append(self)
            return _o(self, *a, **kw)
        with F.Work(files) as w:
            sf.NameSelector.get_name = spy
            fp.Project.__init__ = init_spy
            try:
                data, out, err = F.full_run_inprocess(w.root, {"src_dir": ["./src"], "incl_src": "true"})
            finally:
                sf.NameSelector.get_name = orig
                fp.Project.__init__ = orig_init
            chk.count(("e2e", tuple(sorted(files))), sample={"files": sorted(files), "error": err})
            if err:
                chk.violation("failing-input", {"what": "FORD failed on a valid generated project", "error": err,
                                                "log": out[-1500:], "files": files}, True)
                continue
            # (1) the registration trace of the real run, replayed through the Coq model
            ids = {}
            reqs = [(ids.setdefault(i, len(ids) + 1), d, n) for i, d, n, _ in log]
            kinds = {ids[i]: (o or "") for i, _, _, _, o in log5}
            outs = [r for *_, r in log]
            if all(core.is_ascii(n) for _, _, n in reqs):
                res = chk.coq_judge(IMPORTS, "list (req * str) * list str", "judge", [case_term(reqs, outs, kinds)])
                chk.traces += 1
                if res is None:
                    continue
                if res:
                    code = res[0]
                    chk.violation("failing-input" if code & 2 else "broken-correspondence",
                                  {"what": "NameSelector trace of a full run", "requests": reqs, "impl": outs,
                                   "code": code, "files": files}, bool(code & 2))
            # (2) pages: one output file per page-owning entity
            doc = w.root / "doc"
            pages = collections.Counter()
            for (i, d, n, r) in {(i, d, n, r) for i, d, n, r in log}:
                if d != "None":
                    pages[f"{d}/{r}.html"] += 1
            dup = [p for p, c in pages.items() if c > 1]
            if dup:
                chk.violation("failing-input", {"what": "two entities share an output page", "pages": dup,
                                                "files": files}, True)
            # (2b) the same for the URLs FORD really hands out and the files it really wrote: distinct
            #      page-owning entities have distinct URLs, and every displayed one has its file
            urls = collections.defaultdict(set)
            for (i, d, n, r) in {(i, d, n, r) for i, d, n, r in log}:
                ent = items.get(i)
                if d != "None" and ent is not None and not hasattr(ent, "external_url"):
                    try:
                        u = ent.get_url()
                    except Exception as e:  # noqa
                        u = f"EXC:{type(e).__name__}"
                    urls[str(u)].add(i)
            shared = {u: len(es) for u, es in urls.items() if len(es) > 1}
            if shared:
                chk.violation("failing-input", {"what": "two page-owning entities are given the same URL (one page "
                                                "overwrites the other)", "urls": shared, "files": files}, True)
            written = {str(q.relative_to(doc)) for q in doc.rglob("*.html")}
            expected = {f"{d}/{r}.html" for (i, d, n, r) in log if d != "None"}
            stray = sorted(q for q in written if q.split("/")[0] in {d for _, d, _, _ in log if d != "None"}
                           and q not in expected)
            if stray:
                chk.violation("failing-input", {"what": "a page was written under a name that is not the identifier "
                                                "the NameSelector handed out (identifier uniqueness does not cover it)",
                                                "pages": stray[:10], "files": files}, True)
            # (3) anchors: distinct non-page entities never share "<obj>-<quote(ident)>", and every such
            #     anchor that a page emits as an id belongs to exactly one entity
            anchors = collections.defaultdict(set)
            for (i, d, n, r, obj) in log5:
                if d == "None":
                    anchors[f"{obj}-{quote(r)}"].add(i)
            dups = [a for a, es in anchors.items() if len(es) > 1]
            if dups:
                chk.violation("failing-input", {"what": "two entities share an anchor", "anchors": dups,
                                                "files": files}, True)
            # (3b) the same for the anchors FORD really emits (FortranBase.anchor), which the model's
            #      "<obj>-<quote(ident)>" only predicts: distinct page-less entities never share one
            real = collections.defaultdict(set)
            for (i, d, n, r, obj) in log5:
                ent = items.get(i)
                if d == "None" and ent is not None:
                    try:
                        real[str(ent.anchor)].add(i)
                    except Exception as e:  # noqa
                        real[f"EXC:{type(e).__name__}"].add(i)
            rdups = {a: len(es) for a, es in real.items() if len(es) > 1}
            if rdups:
                chk.violation("failing-input", {"what": "two distinct entities without a page of their own are given "
                                                "the same anchor id", "anchors": rdups, "files": files}, True)
            odd = sorted(a for a in real if a not in anchors)
            if odd:
                chk.violation("broken-correspondence", {"what": "FortranBase.anchor is not <obj>-<quote(ident)>",
                                                        "anchors": odd[:10], "files": files}, False)
            # (3c) the URLs FORD hands out for ALL entities of the project (not only those whose identifier was
            #      requested directly): distinct entities never share a URL (page + fragment), except an entity
            #      and the interface that stands for it
            if captured:
                byurl = collections.defaultdict(list)
                for e in walk_ford(captured[-1]):
                    if getattr(e, "obj", None) in (None, "sourcefile", "genericsource"):
                        continue
                    try:
                        u = e.get_url()
                    except Exception:  # noqa
                        continue
                    if u:
                        byurl[str(u)].append(e)
                clash = {}
                for u, es in byurl.items():
                    es = [e for e in es if not any(getattr(e, "parent", None) is o for o in es)]
                    if len(es) > 1:
                        clash[u] = [f"{getattr(e, 'obj', '?')} {e.name}" for e in es]
                if clash:
                    chk.violation("failing-input", {"what": "distinct entities are given the same URL (page and "
                                                    "anchor)", "urls": dict(list(clash.items())[:6]),
                                                    "files": files}, True)
            # (4) copied sources: out/src/<name> must hold the file that defines the entity
            byname = collections.defaultdict(list)
            for rel in files:
                byname[pathlib.PurePath(rel).name].append(rel)
            for name, rels in byname.items():
                copied = doc / "src" / name
                if len(rels) > 1:
                    texts = {files[r] for r in rels}
                    if len(texts) > 1:
                        chk.disagreements += 1
                        if not chk.known("src-copy-same-basename", True):
                            chk.violation("failing-input", {"what": "source copies overwrite each other",
                                                            "files": rels}, True)
                elif not copied.exists() or copied.read_text() != files[rels[0]]:
                    chk.violation("failing-input", {"what": "copied source differs from the source file",
                                                    "file": rels[0], "files": files}, True)


def run(chk):
    chk.build(["theories/Corr/C10.vo", "theories/Props/C10.vo"])
    chk.props("theories/Props/C10.v", THEOREMS)
    if chk.tier == "thorough":
        chk.coqchk(["Ford.Props.C10"])
    rng = chk.rng
    n = 400 if chk.tier == "quick" else 6000
    cases = []
    corpus = [[(1, "proc", "Init"), (2, "proc", "init")], [(1, "proc", "a<b"), (2, "proc", "altb")],
              [(1, "program", ""), (2, "program", ""), (3, "program", "__unnamed__")],
              [(1, "None", "x"), (2, "None", "X"), (1, "None", "x")]]
    for reqs in corpus + [gen_sequence(rng) for _ in range(n)]:
        outs = impl_sequence(reqs)
        cases.append((reqs, outs))
        chk.count(("seq", tuple(reqs)), nontrivial=len({i for i, _, _ in reqs}) > 1,
                  sample={"requests": reqs, "impl": outs})
    res = chk.coq_judge(IMPORTS, "list (req * str) * list str", "judge", [case_term(r, o) for r, o in cases])
    if res is not None:
        chk.traces += len(cases)
        for idx, code in sorted(res.items())[:3]:
            reqs, outs = cases[idx]
            chk.violation("failing-input" if code & 2 else "broken-correspondence",
                          {"what": "NameSelector.get_name sequence", "requests": reqs, "impl": outs, "code": code,
                           "meaning": "bit0 model!=impl, bit1 impl violates distinctness/idempotence"},
                          bool(code & 2))
    end_to_end(chk, rng, 8 if chk.tier == "quick" else 60)
    # the recorded finding: is it still there?
    with F.Work({"src/a/x.f90": "module ma\nend module\n", "src/b/x.f90": "module mb\nend module\n"}) as w:
        data, out, err = F.full_run_inprocess(w.root, {"incl_src": "true"})
        srcs = list((w.root / "doc" / "src").glob("*")) if not err else []
        chk.known("src-copy-same-basename", len(srcs) == 1)


def replay(chk, rep):
    if "requests" in rep:
        reqs = [tuple(r) for r in rep["requests"]]
        outs = impl_sequence(reqs)
        print("impl:", outs)
        chk.build(["theories/Corr/C10.vo"])
        res = chk.coq_judge(IMPORTS, "list (req * str) * list str", "judge", [case_term(reqs, outs)])
        print("judge code:", res)
        return 1 if res else 0
    print("replay files:", list(rep.get("files", {})))
    return 0


def finish(chk):
    return chk.finish(
        level_note="Coq proof over all request sequences of the NameSelector model; model tied to "
                   "ford.sourceform.NameSelector by differential runs (direct sequences + traces of full runs)",
        trusted_base=["Coq 8.16.1 kernel (vm_compute used for evaluation of cases and witnesses)",
                      "harness/props/c10.py generators and adapters", "hand-written model Out/Names.v",
                      "ASCII-only names; no '~' in normalised names (theorem hypothesis)"],
        rule="random NameSelector request sequences over colliding names/dirs (distinct = distinct request "
             "sequence with >=2 entities) + generated projects with reused names run end-to-end",
        checker_cmd="make theories/Props/C10.vo && coqc theories/Props/C10.v (Print Assumptions)",
        assumptions=["urllib.parse.quote modelled for 7-bit input", "templates emit ids only via entity.anchor"])
