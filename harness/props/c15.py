"""C15 -- options mean the same in every configuration format, with CLI precedence.

Every option of ProjectSettings x representative and boundary values of its type x the three
formats (project-file metadata, fpm.toml [extra.ford], --config) x command line present/absent x
two working directories, through the real ford.initialize (= get_command_line_arguments +
load_settings + parse_arguments) in scratch directories; random subsets of options; ill-typed
values (every format), flags and numbers given as text, unknown keys and malformed metadata.  Every outcome is compared with the Coq model
(correspondence) and the outcomes of one option set are compared with each other (the property).
"""
import contextlib
import dataclasses
import importlib.util
import io
import json
import os
import pathlib
import re
import shutil
import sys
import tempfile
import warnings

from harness import core
from harness.core import coq_str, coq_list

IMPORTS = ("From Coq Require Import ZArith.\n"
           "From Ford Require Import Base.Str Out.SettingsTypes Gen.Schema Out.Settings Corr.C15.")
THEOREMS = [
    "C15_schema_sound", "C15_int_roundtrip", "C15_md_toml_agree", "C15_toml_config_agree", "C15_formats_agree",
    "C15_precedence", "C15_exclude_dir_derived", "C15_output_dir_excluded", "C15_file_over_default", "C15_unknown_key_dropped", "C15_unknown_key_dropped_toml",
    "C15_unknown_key_dropped_config", "C15_ill_typed_md_bool_named", "C15_ill_typed_md_int_named",
    "C15_ill_typed_md_dict_named", "C15_ill_typed_toml_named", "C15_ill_typed_config_named",
    "C15_text_values_agree", "C15_toml_config_agree_raw", "C15_ill_typed_scalar_full",
    "C15_ill_typed_refuted_nonscalar", "C15_ill_typed_toml_fixed", "C15_ill_typed_config_fixed",
    "C15_paths_relative_to_project", "C15_paths_anchored",
]
REGIONS = {4: "nonscalar-values-unchecked"}
UNMODELLED, MALFORMED = 1000, 2000


# ------------------------------------------------------------------ schema (from the working tree)
def load_schema():
    spec = importlib.util.spec_from_file_location("t3_schema", core.VERIF / "translate" / "t3_schema.py")
    t3 = importlib.util.module_from_spec(spec)
    spec.loader.exec_module(t3)
    import typing
    import ford.settings as S
    hints = typing.get_type_hints(S.ProjectSettings)
    return [(f.name, t3.type_class(hints[f.name]), f.init) for f in dataclasses.fields(S.ProjectSettings)]


def cli_spec():
    """dest -> (kind, flag) from the real parser."""
    import argparse
    import ford
    cap = {}
    orig = argparse.ArgumentParser.parse_args

    class Stop(Exception):
        pass

    def grab(self, *a, **k):
        cap["p"] = self
        raise Stop()
    argparse.ArgumentParser.parse_args = grab
    try:
        try:
            ford.get_command_line_arguments()
        except Stop:
            pass
    finally:
        argparse.ArgumentParser.parse_args = orig
    out = []
    for a in cap["p"]._actions:
        k = type(a).__name__
        if k in ("_HelpAction", "_VersionAction") or not a.option_strings or a.dest == "config":
            continue
        flag = [o for o in a.option_strings if o.startswith("--")][0]
        out.append((a.dest, {"_StoreAction": "store", "_AppendAction": "append", "_StoreTrueAction": "true",
                             "_StoreFalseAction": "false"}[k], flag))
    return out


# ------------------------------------------------------------------ Python values <-> Coq terms
def to_pv(v):
    """canonical tagged form of a Python value of the settings universe"""
    from ford.settings import ExtraFileType
    if v is None:
        return ["N"]
    if isinstance(v, bool):
        return ["B", v]
    if isinstance(v, int):
        return ["I", v]
    if isinstance(v, str):
        return ["S", v]
    if isinstance(v, pathlib.PurePath):
        return ["P", str(v)]
    if isinstance(v, (list, tuple)):
        return ["L", [to_pv(x) for x in v]]
    if isinstance(v, ExtraFileType):
        if all(isinstance(x, str) for x in (v.extension, v.comment)) and (v.lexer is None or isinstance(v.lexer, str)):
            return ["F", v.extension, v.comment, v.lexer]
        return ["O", "filetype:" + repr(v)]
    if isinstance(v, dict):
        if all(isinstance(k, str) for k in v):
            return ["D", [[k, to_pv(x)] for k, x in v.items()]]
        return ["O", "dict:" + repr(v)]
    return ["O", type(v).__name__ + ":" + repr(v)]


def asc(x):
    return "".join(c if (32 <= ord(c) < 127 or c in "\t\n") else "?" for c in x)


def pv_coq(p):
    t = p[0]
    if t == "N":
        return "PNone"
    if t == "B":
        return "(PBool true)" if p[1] else "(PBool false)"
    if t == "I":
        return f"(PInt ({p[1]})%Z)"
    if t == "S":
        return f"(PStr {coq_str(asc(p[1]))})"
    if t == "P":
        return f"(PPath {coq_str(asc(p[1]))})"
    if t == "L":
        return "(PList " + coq_list(pv_coq(x) for x in p[1]) + ")"
    if t == "D":
        return "(PDict " + coq_list(f"({coq_str(asc(k))}, {pv_coq(x)})" for k, x in p[1]) + ")"
    if t == "F":
        return f"(PFT {coq_str(asc(p[1]))} {coq_str(asc(p[2]))} {core.coq_opt(p[3], lambda z: coq_str(asc(z)))})"
    return f"(POther {coq_str(asc(p[1]))})"


def kv_coq(kvs):
    return coq_list(f"({coq_str(asc(k))}, {pv_coq(v)})" for k, v in kvs)


def strs_coq(xs):
    return coq_list(coq_str(asc(x)) for x in xs)


def aval_coq(a):
    t = a[0]
    if t == "bool":
        return "(VBool true)" if a[1] else "(VBool false)"
    if t == "int":
        return f"(VInt ({a[1]})%Z)"
    if t == "str":
        return f"(VStr {strs_coq(a[1])})"
    if t == "list":
        return f"(VList {strs_coq(a[1])})"
    if t == "one":
        return f"(VOne {coq_str(a[1])})"
    if t == "dict":
        return "(VDict " + coq_list(f"({coq_str(k)}, {coq_str(v)})" for k, v in a[1]) + ")"
    if t == "ft":
        return "(VFT " + coq_list(f"({coq_str(e)}, {coq_str(c)}, {core.coq_opt(l, coq_str)})" for e, c, l in a[1]) + ")"
    raise ValueError(a)


def iout_coq(o):
    if o[0] == "ok":
        return f"(IOk {kv_coq(o[1])} {strs_coq(o[2])})"
    return f"(IErr {coq_str(asc(o[1]))} {coq_str(asc(o[2]))})"


# ------------------------------------------------------------------ the harness' own encoders
def aval_py(a):
    """the TOML-native Python value of an abstract value"""
    t = a[0]
    if t in ("bool", "int"):
        return a[1]
    if t == "str":
        return "\n".join(a[1])
    if t == "list":
        return list(a[1])
    if t == "one":
        return a[1]
    if t == "dict":
        return {k: v for k, v in a[1]}
    if t == "ft":
        return [dict(extension=e, comment=c, **({"lexer": l} if l is not None else {})) for e, c, l in a[1]]
    raise ValueError(a)


def md_lines(key, a, seps):
    t = a[0]
    if t == "bool":
        vals = ["true" if a[1] else "false"]
    elif t == "int":
        vals = [str(a[1])]
    elif t in ("str", "list"):
        vals = list(a[1])
    elif t == "one":
        vals = [a[1]]
    elif t == "dict":
        vals = [f"{k}{seps.get(key, '=')}{v}" for k, v in a[1]]
    else:
        vals = [" ".join(x for x in (e, c, l) if x is not None) for e, c, l in a[1]]
    if not vals:
        return [key + ":"]
    return [f"{key}: {vals[0]}"] + ["    " + v for v in vals[1:]]


def toml_str(x):
    return '"' + x.replace("\\", "\\\\").replace('"', '\\"').replace("\n", "\\n").replace("\t", "\\t") + '"'


def toml_key(k):
    return k if re.fullmatch(r"[A-Za-z0-9_-]+", k) else toml_str(k)


def toml_val(v):
    if isinstance(v, bool):
        return "true" if v else "false"
    if isinstance(v, int):
        return str(v)
    if isinstance(v, float):
        return repr(v)
    if isinstance(v, str):
        return toml_str(v)
    if isinstance(v, list):
        return "[" + ", ".join(toml_val(x) for x in v) + "]"
    if isinstance(v, dict):
        return "{" + ", ".join(f"{toml_key(k)} = {toml_val(x)}" for k, x in v.items()) + "}"
    raise ValueError(v)


def fpm_toml(kvs, rng=None):
    head = 'name = "demo"\n' if rng is not None and rng.random() < 0.3 else ""
    return head + "[extra.ford]\n" + "".join(f"{toml_key(k)} = {toml_val(v)}\n" for k, v in kvs)


def config_string(kvs):
    return "; ".join(f"{toml_key(k)} = {toml_val(v)}" for k, v in kvs)


def file_text(lines):
    return "\n".join(lines) + ("\n" if lines else "")


def parsed_table(text, config=False):
    try:
        import tomllib
    except ModuleNotFoundError:
        import tomli as tomllib
    if config:
        d = tomllib.loads("\n".join(text.split(";")))
    else:
        d = tomllib.loads(text).get("extra", {}).get("ford")
        if d is None:
            return None
    return [[k, to_pv(v)] for k, v in d.items()]


# ------------------------------------------------------------------ running the implementation
class FakeTime:
    """datetime.now().astimezone().strftime(fmt) with the clock taken out"""
    @classmethod
    def now(cls):
        return cls()

    def astimezone(self):
        return self

    def strftime(self, fmt):
        if not isinstance(fmt, str):
            raise TypeError(f"strftime() argument 1 must be str, not {type(fmt).__name__}")
        return "<T:" + fmt + ">"


class FakeSubprocess:
    """the preprocessor self-test of parse_arguments always succeeds (no process is started)"""
    import subprocess as _sp
    CalledProcessError = _sp.CalledProcessError
    calls = []

    @classmethod
    def run(cls, command, **kw):
        cls.calls.append(list(command))
        return None


class Impl:
    """scratch tree: <root>/p is the project directory; three ways of naming it from a working
    directory (variant 0: cwd = project dir; 1: cwd elsewhere, relative path; 2: elsewhere, absolute)"""

    def __init__(self):
        self.root = pathlib.Path(os.path.realpath(tempfile.mkdtemp(prefix="verif_c15_")))
        self.p = self.root / "p"
        self.p.mkdir()
        (self.root / "w" / "d").mkdir(parents=True)
        import ford
        import ford.settings
        self.ford = ford
        self.ford_dir = str(pathlib.Path(ford.settings.__file__).parent)
        self.fields = [f.name for f in dataclasses.fields(ford.settings.ProjectSettings)]
        self.base = None

    def close(self):
        shutil.rmtree(self.root, ignore_errors=True)

    def where(self, variant):
        """(cwd, path of the project file as given on the command line, directory argument)"""
        if variant == 0:
            return self.p, "proj.md", ""
        if variant == 1:
            return self.root / "w" / "d", "../../p/proj.md", "../../p"
        return self.root / "w", str(self.p / "proj.md"), str(self.p)

    def argv(self, cli, cfg, spec):
        out = []
        flags = {d: (k, f) for d, k, f in spec}
        for dest, val in cli:
            kind, flag = flags[dest]
            if kind == "append":
                out += [f"{flag}={x}" for x in val]
            elif kind == "store":
                out.append(f"{flag}={val}")
            else:
                out.append(flag)
        if cfg is not None:
            out.append(f"--config={cfg}")
        return out

    def run(self, md_text, toml_text, cfg, cli, variant, spec):
        ford = self.ford
        (self.p / "proj.md").write_text(md_text)
        fpm = self.p / "fpm.toml"
        if toml_text is None:
            if fpm.exists():
                fpm.unlink()
        else:
            fpm.write_text(toml_text)
        cwd, pf, _ = self.where(variant)
        warned = []
        import ford.settings as S
        saved = (os.getcwd(), sys.argv, ford.datetime, ford.subprocess, S.warn, getattr(ford, "warn", None))
        orig_warn = S.warn

        def spy_warn(msg):
            m = re.search(r"Ignoring unknown Ford metadata key '(.*)'$", msg)
            warned.append(m.group(1) if m else "?" + msg)
            return orig_warn(msg)
        buf = io.StringIO()
        try:
            os.chdir(cwd)
            sys.argv = ["ford", pf] + self.argv(cli, cfg, spec)
            ford.datetime, ford.subprocess, S.warn = FakeTime, FakeSubprocess, spy_warn
            if saved[5] is not None:
                ford.warn = spy_warn
            with contextlib.redirect_stdout(buf), contextlib.redirect_stderr(buf), warnings.catch_warnings():
                warnings.simplefilter("ignore")
                try:
                    data, docs = ford.initialize()
                    full = {}
                    for k in self.fields:
                        v = getattr(data, k)
                        if k == "extensions" and isinstance(v, list) and all(isinstance(x, str) for x in v):
                            v = sorted(v)
                        full[k] = to_pv(v)
                    return ["full", full, warned]
                except BaseException as e:  # noqa -- exceptions (and exit) of the implementation are outputs
                    return ["exc", type(e).__name__, str(e)]
        finally:
            os.chdir(saved[0])
            sys.argv, ford.datetime, ford.subprocess, S.warn = saved[1:5]
            if saved[5] is not None:
                ford.warn = saved[5]

    def baseline(self, spec):
        outs = [self.run("", None, None, [], v, spec) for v in (0, 1, 2)]
        if any(o[0] != "full" for o in outs) or not (outs[0][1] == outs[1][1] == outs[2][1]):
            raise RuntimeError("the no-option run fails or depends on the working directory: %r" % (outs,))
        self.base = outs[0][1]
        return self.base

    def diffed(self, out):
        if out[0] != "full":
            return out
        # compared as JSON text: True, 1 and 1.0 are equal for Python's == and must stay apart here
        return ["ok", [[k, v] for k, v in out[1].items() if json.dumps(v) != json.dumps(self.base[k])], out[2]]


# ------------------------------------------------------------------ value pools
STRS = [[""], ["x"], ["some text"], ["Public"], ["by"], ["a = b: c"], ['q"uote\'s'], ["back\\slash #hash"],
        ["two", "lines"], ["", "second only"], ["%Y"], ["---"], ["[[link]]"], ["ends:"], ["{notinclude}"],
        ["tab\tinside"], [">"], ["MIT"], ["true"], ["4"]]
PATHS = [[""], ["."], ["./src"], ["src"], ["../other/x"], ["a/b/../c"], ["sub/"], ["a//b"], ["./"],
         ["/nonexistent_c15/abs/../p"], ["deep/../../.."], ["x y/with space"], ["doc"], ["doc/inner"], ["favicon.png"]]
LISTS = [[""], ["a"], ["a", "b"], ["Public", "PRIVATE"], ["f90", "F90", "f90"], ["x y", "z"], ["f"], ["a, b"],
         ["", "tail"], ["fpp", "F90"]]
PLISTS = [["."], ["src", "lib/../x"], [""], ["./a/", "b//c", "../q"], ["doc/x"], ["/nonexistent_c15/q", "r"]]
DICTS_EQ = [[], [("a", "b")], [("k", "v w"), ("x", "")], [("url", "https://x.org/a=b")], [("mpi", "local")]]
DICTS_COLON = [[], [("mymod", "http://x.org/m")], [("mpi", "override")], [("a", "b"), ("c", "d e")]]
FTS = [[], [("cpp", "//", None)], [("sh", "#", "bash"), ("py", "#", "python")], [("inc", "!", "fortran")]]
INTS = [0, 1, 4, -3, 10000, 1000000007, 2 ** 40]


def pool(tclass, name, seps):
    if tclass == "TBool":
        return [("bool", True), ("bool", False)]
    if tclass in ("TInt", "TOptInt"):
        return [("int", z) for z in INTS]
    if tclass in ("TStr", "TOptStr"):
        return [("str", x) for x in STRS]
    if tclass in ("TPath", "TOptPath"):
        return [("str", x) for x in PATHS] + [("str", ["src", "second"])]
    if tclass == "TListStr":
        return [("list", x) for x in LISTS] + [("one", "single"), ("one", "Public"), ("one", "")]
    if tclass == "TListAny":
        return [("list", x) for x in LISTS]
    if tclass == "TListPath":
        return [("list", x) for x in PLISTS] + [("one", "./s1"), ("one", "")]
    if tclass == "TDictStr":
        return [("dict", x) for x in (DICTS_COLON if seps.get(name) == ":" else DICTS_EQ)]
    if tclass == "TDictFT":
        return [("ft", x) for x in FTS]
    raise ValueError(tclass)


CLI_VALUES = {"append": [["cli_a"], ["cli_a", "cli b"], ["./c/../d"], ["F77"]],
              "store": ["cli_x", "./cli/dir", "cli y"]}


def gen_cli(rng, spec, prefer=None, force=False):
    """a command line: list of (dest, value) in parser order"""
    chosen = set()
    if prefer is not None and (force or rng.random() < 0.8):
        chosen.add(prefer)
    for d, _, _ in spec:
        if rng.random() < 0.12:
            chosen.add(d)
    out = []
    for d, kind, _ in spec:
        if d not in chosen:
            continue
        if d == "external":
            out.append((d, rng.choice([["cl = http://cli.org"], ["a = b", "c=d = e"]])))
        elif kind in ("append", "store"):
            out.append((d, rng.choice(CLI_VALUES[kind])))
        else:
            out.append((d, kind == "true"))
    return out


def cli_pv(cli):
    return [[d, to_pv(v)] for d, v in cli]


PRE_POST = [([], []), (["---"], ["---"]), ([], [""]), (["---"], ["---", "Some docs."]),
            ([], ["", "Some docs", "author: not metadata"]), (["---"], ["..."]), (["--- project"], ["--- end"])]


# ------------------------------------------------------------------ group cases
class Ctx:
    def __init__(self, chk):
        self.chk = chk
        self.schema = load_schema()
        self.types = {n: t for n, t, _ in self.schema}
        self.spec = cli_spec()
        self.cli_dests = {d for d, _, _ in self.spec}
        import ford.settings as S
        self.seps = dict(S.OPTION_SEPARATORS)
        self.impl = Impl()
        self.impl.baseline(self.spec)
        self.clionly = {}
        self.groups, self.raws = [], []

    def cli_only(self, cli, variant):
        key = json.dumps([cli, variant])
        if key not in self.clionly:
            self.clionly[key] = self.impl.diffed(self.impl.run("", None, None, cli, variant, self.spec))
        return self.clionly[key]

    def run_group(self, opts, cli, variant, variant2, prepost):
        """opts: list of (name, abstract value)"""
        im = self.impl
        pre, post = prepost
        lines = list(pre)
        for k, a in opts:
            lines += md_lines(k, a, self.seps)
        lines += list(post)
        native = [(k, aval_py(a)) for k, a in opts]
        toml_text = fpm_toml(native, self.chk.rng)
        cfg = config_string(native)
        g = {"kind": "group", "opts": [[k, list(a)] for k, a in opts], "cli": [[d, v] for d, v in cli],
             "variant": variant, "variant2": variant2, "pre": pre, "post": post, "lines": lines,
             "toml_text": toml_text, "config": cfg}
        g["toml"] = parsed_table(toml_text)
        g["cfg"] = parsed_table(cfg, config=True)
        g["md"] = im.diffed(im.run(file_text(lines), None, None, cli, variant, self.spec))
        g["tm"] = im.diffed(im.run("", toml_text, None, cli, variant, self.spec))
        g["cf"] = im.diffed(im.run("", None, cfg, cli, variant, self.spec))
        g["md2"] = im.diffed(im.run(file_text(lines), None, None, cli, variant2, self.spec))
        g["clionly"] = self.cli_only(cli, variant)
        self.groups.append(g)
        return g

    def group_term(self, g):
        im = self.impl
        cwd, _, d = im.where(g["variant"])
        cwd2, _, d2 = im.where(g["variant2"])
        opts = coq_list(f"({coq_str(k)}, {aval_coq(a)})" for k, a in g["opts"])
        return (f"(mkg {opts} {kv_coq(cli_pv(g['cli']))} {coq_str(str(cwd))} {coq_str(d)} "
                f"{coq_str(str(cwd2))} {coq_str(d2)} {coq_str(im.ford_dir)} {strs_coq(g['pre'])} {strs_coq(g['post'])} "
                f"{strs_coq(g['lines'])} {kv_coq(g['toml'])} {kv_coq(g['cfg'])} "
                f"{iout_coq(g['md'])} {iout_coq(g['tm'])} {iout_coq(g['cf'])} {iout_coq(g['md2'])} "
                f"{iout_coq(g['clionly'])})")

    # ------------------------------------------------------------------ raw cases
    def run_raw(self, lines, toml_kvs, cfg_kvs, cli, variant, spec=("none",), toml_text=None, what=""):
        """toml_kvs / cfg_kvs: lists of (key, Python value) or None"""
        im = self.impl
        if toml_text is None and toml_kvs is not None:
            toml_text = fpm_toml(toml_kvs, self.chk.rng)
        cfg = config_string(cfg_kvs) if cfg_kvs is not None else None
        r = {"kind": "raw", "what": what, "lines": lines, "toml_text": toml_text, "config": cfg,
             "cli": [[d, v] for d, v in cli], "variant": variant, "spec": list(spec)}
        r["toml"] = parsed_table(toml_text) if toml_text is not None else None
        r["cfg"] = parsed_table(cfg, config=True) if cfg is not None else None
        r["out"] = im.diffed(im.run(file_text(lines), toml_text, cfg, cli, variant, self.spec))
        if spec[0] == "cli":
            r["clionly"] = self.cli_only(cli, variant)
        self.raws.append(r)
        return r

    def raw_term(self, r):
        im = self.impl
        cwd, _, d = im.where(r["variant"])
        sp = r["spec"]
        if sp[0] == "none":
            spec = "SNone"
        elif sp[0] == "ill":
            spec = f"(SIll {sp[1]} {coq_str(sp[2])})"
        elif sp[0] == "unk":
            spec = f"(SUnk {sp[1]} {coq_str(asc(sp[2]))})"
        elif sp[0] == "same":
            spec = f"(SSame {iout_coq(r['same_as'])})"
        else:
            spec = f"(SCli {iout_coq(r['clionly'])})"
        inp = (f"(mkinput {strs_coq(r['lines'])} {core.coq_opt(r['toml'], kv_coq)} {core.coq_opt(r['cfg'], kv_coq)} "
               f"{kv_coq(cli_pv(r['cli']))} {coq_str(str(cwd))} {coq_str(d)} {coq_str(im.ford_dir)})")
        return f"(mkr {inp} {iout_coq(r['out'])} {spec})"


def text_values(tclass):
    """flags and numbers given as text: (texts that convert, the same texts with blanks around them).
    The first are the same option value in the three formats; the second are correspondence only
    (the blanks are syntax in the project file and part of the string in TOML)."""
    if tclass == "TBool":
        return ["true", "TRUE", "False", "tRuE", "false"], [" true", "false ", "\ttrue"]
    if tclass in ("TInt", "TOptInt"):
        return ["4", "-3", "+7", "1_000", "007", "0", "1000000007"], [" 4 ", "5 ", " -0"]
    return [], []


def ill_typed_values(tclass):
    """(markdown value lists, TOML values) that are not values of the declared type (and, for flags and
    numbers, not texts that convert)"""
    md, tm = [], []
    if tclass == "TBool":
        md = [["maybe"], ["yes"], ["1"], [""], ["true", "false"]]
        tm = ["maybe", 1, ["true"], 2.5, "yes", "", "1", 0, {"a": True}]
    elif tclass in ("TInt", "TOptInt"):
        md = [["four"], ["4.5"], [""], ["1__0"], ["0x10"]]
        tm = ["four", 2.5, ["4"], True, "4.5", "", "1__0", "0x10", [4], {"a": 4}]
    elif tclass in ("TStr", "TOptStr"):
        tm = [5, True, ["a", "b"], {"a": "b"}, 2.5, [], ["one"]]
    elif tclass in ("TPath", "TOptPath"):
        tm = [5, True, ["a"], {"a": "b"}]
    elif tclass == "TListStr":
        tm = [5, [1, 2], {"a": "b"}, True, [["nested"]]]
    elif tclass == "TListAny":
        tm = [5, {"a": "b"}]
    elif tclass == "TListPath":
        tm = [5, [1], {"a": "b"}, True]
    elif tclass == "TDictStr":
        md = [["novalue"], ["a = b", "broken"]]
        tm = ["a = b", ["a = b"], 5, ["a: b"]]
    elif tclass == "TDictFT":
        md = [["onlyone"], ["a b c d"], ["cpp //", "x"]]
        tm = ["cpp //", ["cpp //"], [{"extension": "c"}], [{"extension": "c", "comment": "//", "foo": "x"}], 5]
    return md, tm


def forced_ill_typed(tclass):
    """(markdown value lists, TOML values) of the neighbouring types, drawn for EVERY option of the class in
    every run, quick tier included: Python's bool is a subclass of int and True == 1, so an isinstance test or an
    == comparison in the settings code lets exactly these through.  Any outcome other than a rejection naming
    the option is a failing input."""
    if tclass == "TBool":
        return [["0"], ["1"]], [0, 1, 1.0]
    if tclass in ("TInt", "TOptInt"):
        return [["true"], ["1.5"]], [True, False, 1.0, 1.5]
    if tclass in ("TStr", "TOptStr"):
        return [], [True, 5, 1.5]
    return [], []


def same_value(a, b):
    """equality that keeps True, 1 and 1.0 apart"""
    return type(a) is type(b) and a == b


MALFORMED_MD = [
    ["project: a", "project: b"],
    ["    continuation first", "project: x"],
    ["   project: three blanks"],
    ["    project: four blanks"],
    ["project : blank before colon"],
    ["\tproject: tab"],
    ["project: x", "   ", "author: after blank"],
    ["project: x", "...", "author: after end"],
    ["---"],
    ["---", "---"],
    ["summary:", "    first", "    second"],
    ["no colon here", "project: x"],
    ["PROJECT: upper", "Src_Dir: Source"],
    ["src_dir: a", "    b", "src_dir: c"],
    ["project:x", "author:  spaced  "],
    ["graph: TRUE", "search: False", "warn: tRuE"],
    ["max_frontpage_items:  4 ", "graph_maxdepth: +7", "graph_maxnodes: 1_000", "parallel: -0"],
    ["alias: a = b", "    a = c", "    d=e"],
    ["alias:", "    a = b"],
    ["extra_filetypes: cpp //   lexer", "    py\t#"],
    ["license: by-nc-sa", "doc_license: GPL"],
    ["license: custom text"],
    ["preprocess: false", "fpp_extensions: fpp"],
    ["preprocess: true", "preprocessor: cpp -E"],
    ["output_dir: .", "src_dir: src"],
    ["output_dir: out", "src_dir: out/src"],
    ["output_dir: /", "src_dir: src"],
    ["extensions: f90", "fixed_extensions: f90"],
    ["extra_mods: a: b", "external: a = c"],
    ["docmark: !", "predocmark: !"],
    ["docmark:", "predocmark:"],
    ["relative: true"],
    ["project_url: https://example.org/doc"],
    ["favicon: favicon.png"],
    ["favicon: ./favicon.png", "md_base_dir: ."],
    ["directory: elsewhere"],
    ["gitter_sidecar: room/name"],
    ["creation_date: %Y-%m-%d"],
    ["display: Public", "    PRIVATE"],
    ["a-b: dash key", "a_b: underscore key", "9: digit key"],
    [": empty key"],
    ["project: {!not an include"],
    ["summary: a", "  two blanks", "author: x"],
    ["summary: a", "   three blanks", "author: x"],
    ["summary: a", "     five blanks", "author: x"],
    ["summary: a", "\tb", "author: x"],
    ["summary: a", " author: one blank key"],
    ["summary: a", "    author: looks like a key"],
]

INDENTS = ["", "", "", " ", "  ", "   ", "    ", "     ", "\t"]
HEADS = ["project", "summary", "src_dir", "graph", "max_frontpage_items", "alias", "Author", "foo", "a-b", "", "text only",
         "---", "...", "-", "two words", "extra_filetypes", "display"]
COLONS = [":", ": ", ":  ", " : ", "", "::", ":\t"]
VALUES = ["", "x", "a b", " padded ", "true", "4", "a = b", "cpp //", "k: v", "Public"]


def fuzz_lines(rng):
    return [rng.choice(INDENTS) + rng.choice(HEADS) + rng.choice(COLONS) + rng.choice(VALUES)
            for _ in range(rng.choice([1, 2, 3, 4, 6]))]


def generate(ctx, chk):
    rng = chk.rng
    quick = chk.tier == "quick"
    names = [n for n, _, _ in ctx.schema]
    # (1) every option x values of its pool x three formats (+ second cwd, + cli)
    for name, tclass, init in ctx.schema:
        vals = pool(tclass, name, ctx.seps)
        if quick:
            k = min(len(vals), 5)
            start = (chk.seed + sum(map(ord, name))) % len(vals)
            picked = [vals[(start + i * max(1, len(vals) // k)) % len(vals)] for i in range(k)]
            picked += [rng.choice(vals)]
        else:
            picked = vals
        for j, a in enumerate(picked):
            variant = rng.choice([0, 1, 2])
            variant2 = rng.choice([v for v in (0, 1, 2) if v != variant])
            with_cli = rng.random() < 0.5
            cli = gen_cli(rng, ctx.spec, name if name in ctx.cli_dests else None) if with_cli else []
            if name in ctx.cli_dests and j < 3:      # the option itself on the command line (twice), and not
                with_cli = True
                cli = gen_cli(rng, ctx.spec, name, force=True) if j < 2 else []
            ctx.run_group([(name, a)], cli, variant, variant2, rng.choice(PRE_POST))
            if not quick:
                ctx.run_group([(name, a)], gen_cli(rng, ctx.spec, name if name in ctx.cli_dests else None) if not with_cli else [],
                              variant2, variant, rng.choice(PRE_POST))
    # (2) random subsets of options
    for _ in range(250 if quick else 2500):
        ks = rng.sample(names, rng.choice([2, 2, 3, 4, 6, 10]))
        if rng.random() < 0.9:
            ks = [k for k in ks if k != "relative"]
        opts = [(k, rng.choice(pool(ctx.types[k], k, ctx.seps))) for k in ks]
        variant = rng.choice([0, 1, 2])
        cli = gen_cli(rng, ctx.spec, rng.choice(ks) if rng.random() < 0.5 else None) if rng.random() < 0.6 else []
        ctx.run_group(opts, cli, variant, (variant + 1) % 3, rng.choice(PRE_POST))
    # (3) ill-typed values per option and format
    for name, tclass, init in ctx.schema:
        md, tm = ill_typed_values(tclass)
        fmd, ftm = forced_ill_typed(tclass)
        md = [v for v in md if v not in fmd]
        tm = [v for v in tm if not any(same_value(v, f) for f in ftm)]
        if quick:
            md = rng.sample(md, min(2, len(md)))
            tm = rng.sample(tm, min(2, len(tm)))
        md, tm = fmd + md, ftm + tm
        for vals in md:
            ctx.run_raw(["preprocess: false"] * rng.choice([0, 1]) + [f"{name}: {vals[0]}"] + ["    " + v for v in vals[1:]],
                        None, None, [], rng.choice([0, 1]), ("ill", 0, name), what="ill-typed markdown")
        for v in tm:
            ctx.run_raw([], [(name, v)], None, [], rng.choice([0, 1]), ("ill", 1, name), what="ill-typed fpm.toml")
            ctx.run_raw([], None, [(name, v)], [], rng.choice([0, 1]), ("ill", 2, name), what="ill-typed --config")
    # (3b) flags and numbers given as text: the same text in the three formats
    for name, tclass, init in ctx.schema:
        good, padded = text_values(tclass)
        if quick:
            good = rng.sample(good, min(2, len(good)))
            padded = rng.sample(padded, min(1, len(padded)))
        for x in good:
            variant = rng.choice([0, 1])
            m = ctx.run_raw([f"{name}: {x}"], None, None, [], variant, what="flag/number as text, project file")
            for fmt in (1, 2):
                r = ctx.run_raw([], [(name, x)] if fmt == 1 else None, [(name, x)] if fmt == 2 else None, [], variant,
                                ("same", fmt, name), what="flag/number as text, " + ("fpm.toml", "--config")[fmt - 1])
                r["same_as"], r["same_lines"] = m["out"], m["lines"]
        for x in padded:
            ctx.run_raw([], [(name, x)], None, [], 0, what="flag/number as padded text")
            ctx.run_raw([], None, [(name, x)], [], 0, what="flag/number as padded text")
    # (4) unknown keys
    for key in ["foo", "src-dir", "projectx", "Unknown_Key", "x9"]:
        k2 = key.lower()
        ctx.run_raw(["project: p", f"{key}: 1", "author: a"], None, None, [], 0, ("unk", 0, k2), what="unknown key")
        ctx.run_raw([], [("project", "p"), (key, 1), ("author", "a")], None, [], 0, ("unk", 1, key), what="unknown key")
        ctx.run_raw([], None, [("project", "p"), (key, 1), ("author", "a")], [], 0, ("unk", 2, key), what="unknown key")
    # (5) malformed / special metadata, fences
    for lines in MALFORMED_MD:
        for pre, post in ([([], [])] if quick else PRE_POST[:3]):
            ctx.run_raw(list(pre) + lines + list(post), None, None, [], rng.choice([0, 1, 2]), what="metadata shapes")
    for _ in range(300 if quick else 4000):
        pre, post = rng.choice(PRE_POST)
        ctx.run_raw(list(pre) + fuzz_lines(rng) + list(post), None, None, [], rng.choice([0, 1, 2]), what="metadata fuzz")
    # (6) fpm.toml next to markdown metadata; fpm.toml without the table
    ctx.run_raw(["project: from md"], [("project", "from toml")], None, [], 0, what="both files")
    ctx.run_raw(["project: from md"], None, None, [], 1, toml_text='name = "demo"\n', what="fpm.toml without table")
    ctx.run_raw(["project: from md"], None, None, [], 2, toml_text='[extra]\nother = 1\n', what="fpm.toml without table")
    ctx.run_raw(["project: from md"], [], None, [], 0, what="empty table")
    # (7) precedence chains: file, --config and command line on the same options; mixed raw values
    for _ in range(300 if quick else 3000):
        ks = rng.sample(names, rng.choice([1, 2, 3, 5]))
        if rng.random() < 0.5:
            ks.append(rng.choice(sorted(ctx.cli_dests & set(names))))
            ks = list(dict.fromkeys(ks))
        file_kvs, cfg_kvs, lines = [], [], []
        for k in ks:
            a = rng.choice(pool(ctx.types[k], k, ctx.seps))
            if rng.random() < 0.15:
                md, tm = ill_typed_values(ctx.types[k])
                if tm:
                    file_kvs.append((k, rng.choice(tm)))
                    if md:
                        vals = rng.choice(md)
                        lines += [f"{k}: {vals[0]}"] + ["    " + v for v in vals[1:]]
                    continue
            file_kvs.append((k, aval_py(a)))
            lines += md_lines(k, a, ctx.seps)
            if rng.random() < 0.5:
                cfg_kvs.append((k, aval_py(rng.choice(pool(ctx.types[k], k, ctx.seps)))))
        use_toml = rng.random() < 0.5
        on_cli = [k for k in ks if k in ctx.cli_dests]
        cli = gen_cli(rng, ctx.spec, rng.choice(on_cli) if on_cli else None, force=True)
        ctx.run_raw(lines, file_kvs if use_toml else None, cfg_kvs if (cfg_kvs or rng.random() < 0.2) else None,
                    cli, rng.choice([0, 1, 2]), ("cli",), what="precedence chain")
    # (8) command line conversions that can fail
    ctx.run_raw([], None, None, [("external", ["nourl"])], 0, what="cli external without '='")
    ctx.run_raw(["external: a = b"], None, None, [("external", ["c = d"])], 0, what="cli external replaces")
    ctx.run_raw(["extensions: f90"], None, None, [("extensions", ["f"])], 0, what="cli extensions unchecked")


# ------------------------------------------------------------------ end-to-end searches
def e2e_exclude(chk, ctx):
    """'relative paths are interpreted relative to the project file whatever the working directory',
    observed on the set of source files FORD selects: src_dir / exclude_dir / exclude / extensions
    given in the project file, the run started from two working directories."""
    import ford.fortran_project as fp
    im = ctx.impl
    tree = ["src/a.f90", "src/b.f90", "src/sub/c.f90", "src/sub/d.F90", "lib/e.f90", "src/skip/f.f90"]
    for rel in tree:
        p = im.p / rel
        p.parent.mkdir(parents=True, exist_ok=True)
        p.write_text("module m_%s\nend module\n" % p.stem)
    trials = [
        ("exclude_dir", ["src_dir: src", "    lib", "exclude_dir: src/skip"]),
        ("exclude-bare-name", ["src_dir: src", "exclude: b.f90"]),
        ("exclude-glob", ["src_dir: src", "exclude: **/sub/*.f90"]),
        ("exclude-relative-file", ["src_dir: src", "exclude: src/a.f90"]),
        ("extensions", ["src_dir: ./src/../src", "extensions: F90", "preprocess: false"]),
    ]
    bad_exclude = False
    for name, lines in trials:
        sels = []
        for variant in (0, 1):
            out = im.run(file_text(lines), None, None, [], variant, ctx.spec)
            # re-run for the settings object itself (im.run returns the canonical form only)
            cwd, pf, d = im.where(variant)
            old = os.getcwd()
            os.chdir(cwd)
            try:
                import ford
                saved = (ford.datetime, ford.subprocess)
                ford.datetime, ford.subprocess = FakeTime, FakeSubprocess
                buf = io.StringIO()
                with contextlib.redirect_stdout(buf), contextlib.redirect_stderr(buf):
                    docs, st = ford.load_settings(file_text(lines), d, pf)
                    st, docs = ford.parse_arguments({"project_file": None}, docs, st, d)
                    sel = sorted(str(pathlib.Path(f).relative_to(im.p)) for f in fp.find_all_files(st))
            except BaseException as e:  # noqa
                sel = "EXC:" + type(e).__name__
            finally:
                ford.datetime, ford.subprocess = saved
                os.chdir(old)
            sels.append(sel)
        same = sels[0] == sels[1]
        chk.count(("e2e-files", name), sample={"trial": name, "selected_cwd_project": sels[0], "selected_cwd_other": sels[1]})
        if not same:
            chk.disagreements += 1
            chk.violation("failing-input", {"what": "selected source files depend on the working directory",
                                            "trial": name, "lines": lines, "selected": sels}, True)
    shutil.rmtree(im.p / "src", ignore_errors=True)
    shutil.rmtree(im.p / "lib", ignore_errors=True)


def e2e_full_runs(chk, ctx, nproj):
    """the same option set (outside the recorded --config region) in the three formats, through a
    complete FORD run on a generated project: the generated sites must be identical"""
    import hashlib
    import ford
    from harness.gen import program as G
    from harness.impl import fordrun as F
    rng, im = chk.rng, ctx.impl
    for j in range(nproj):
        proj = G.gen_project(rng, {"nfiles": rng.choice([1, 2])})
        files = G.render_project(proj)
        for rel, text in files.items():
            (im.p / rel).parent.mkdir(parents=True, exist_ok=True)
            (im.p / rel).write_text(text)
        opts = [("project", ("str", ["Demo " + str(j)])), ("summary", ("str", ["first line", "second |a| line"])),
                ("author", ("str", ["A. Uthor"])), ("max_frontpage_items", ("int", rng.choice([1, 3]))),
                ("graph", ("bool", False)), ("search", ("bool", False)), ("preprocess", ("bool", False)),
                ("src_dir", ("list", ["./src"])), ("sort", ("str", [rng.choice(["src", "alpha", "permission"])])),
                ("hide_undoc", ("bool", rng.random() < 0.5)), ("proc_internals", ("bool", rng.random() < 0.5)),
                ("incl_src", ("bool", rng.random() < 0.5)), ("alias", ("dict", [("a", "bee")])),
                ("display", ("list", ["public", "private"])), ("version", ("str", ["1.2"]))]
        rng.shuffle(opts)
        body = ["", "Project documentation with an alias |a|."]
        lines = []
        for k, a in opts:
            lines += md_lines(k, a, ctx.seps)
        native = [(k, aval_py(a)) for k, a in opts]
        runs = {"markdown": (file_text(lines + body), None, None),
                "fpm.toml": (file_text(body[1:]), fpm_toml(native), None),
                "--config": (file_text(body[1:]), None, config_string(native))}
        trees = {}
        # one working directory per project: pages such as lists/modules.html print a source-file cell
        # through relurl that depends on the working directory (not a configuration matter; reported
        # to the C09/C12 builders), so the three formats are compared from the same place
        variant = rng.choice([0, 1])
        for fmt, (md, toml, cfg) in runs.items():
            (im.p / "proj.md").write_text(md)
            fpm = im.p / "fpm.toml"
            if toml is None:
                if fpm.exists():
                    fpm.unlink()
            else:
                fpm.write_text(toml)
            cwd, pf, _ = im.where(variant)
            saved = (os.getcwd(), sys.argv, ford.datetime, ford.subprocess)
            F.reset_globals()
            try:
                os.chdir(cwd)
                sys.argv = ["ford", pf] + ([f"--config={cfg}"] if cfg is not None else [])
                ford.datetime, ford.subprocess = FakeTime, FakeSubprocess
                with F.quiet():
                    try:
                        data, docs = ford.initialize()
                        ford.main(data, docs)
                        out = im.p / "doc"
                        trees[fmt] = {str(f.relative_to(out)): hashlib.sha1(f.read_bytes()).hexdigest()
                                      for f in sorted(out.rglob("*")) if f.is_file()}
                    except BaseException as e:  # noqa
                        trees[fmt] = "EXC:" + type(e).__name__ + ":" + str(e)[:200]
            finally:
                os.chdir(saved[0])
                sys.argv, ford.datetime, ford.subprocess = saved[1:]
                shutil.rmtree(im.p / "doc", ignore_errors=True)
        fpm = im.p / "fpm.toml"
        if fpm.exists():
            fpm.unlink()
        shutil.rmtree(im.p / "src", ignore_errors=True)
        ref = trees["markdown"]
        same = all(trees[f] == ref for f in trees)
        chk.count(("e2e-full", j, json.dumps([[k, list(a)] for k, a in opts])), nontrivial=isinstance(ref, dict) and len(ref) > 3,
                  sample={"e2e_full_run": j, "files_written": len(ref) if isinstance(ref, dict) else ref, "formats_identical": same})
        if isinstance(ref, str) or not same:
            diff = {}
            if isinstance(ref, dict):
                for f, tr in trees.items():
                    if isinstance(tr, dict):
                        diff[f] = sorted(k for k in set(tr) | set(ref) if tr.get(k) != ref.get(k))[:10]
                    else:
                        diff[f] = tr
            chk.violation("failing-input", {"what": "a complete FORD run gives different sites for the same options in "
                                            "different formats (or fails)", "options": [[k, list(a)] for k, a in opts],
                                            "differences": diff or ref, "files": files}, True)


# ------------------------------------------------------------------ verdicts
def judge_all(chk, ctx):
    base_term = (f"(base_input {coq_str(str(ctx.impl.p))} {coq_str('')} {coq_str(ctx.impl.ford_dir)}, "
                 f"{kv_coq([[k, v] for k, v in ctx.impl.base.items()])})")
    res0 = chk.coq_judge(IMPORTS, "input * list (str * pv)", "judge_base", [base_term])
    if res0 is None:
        return
    chk.traces += 1
    if res0:
        chk.violation("broken-correspondence", {"what": "effective settings of a project without any option",
                                                "impl": ctx.impl.base, "code": res0[0]}, False)
        return
    gres = chk.coq_judge(IMPORTS, "gcase", "judge_group", [ctx.group_term(g) for g in ctx.groups], shard=40)
    rres = chk.coq_judge(IMPORTS, "rcase", "judge_raw", [ctx.raw_term(r) for r in ctx.raws], shard=150)
    if gres is None or rres is None:
        return
    stats = {"groups": len(ctx.groups), "raw": len(ctx.raws), "unmodelled": 0, "regions": {}}
    seen_regions = set()
    pending = []          # violations; the ones with a failing input are reported first
    for cases, res, label in ((ctx.groups, gres, "group"), (ctx.raws, rres, "raw")):
        for idx, c in enumerate(cases):
            code = res.get(idx, 0)
            if code == UNMODELLED:
                stats["unmodelled"] += 1
                continue
            chk.traces += 5 if label == "group" else 1
            if code == MALFORMED:
                pending.append(("broken-correspondence", {"what": "harness encoders disagree with enc_md/enc_toml "
                                                          "or the options are not well typed", "case": c}, False))
                continue
            mismatch, viol, region = code & 1, code & 2, code >> 2
            outside = False
            if viol:
                chk.disagreements += 1
                key = REGIONS.get(region)
                stats["regions"][key or "none"] = stats["regions"].get(key or "none", 0) + 1
                if key is None or not chk.known(key, True):
                    outside = True
                    pending.append(("failing-input", {
                        "what": "the formats / command line / working directories disagree, or an ill-typed value "
                                "or unknown key is not handled as the property demands",
                        "case": c, "code": code, "region": region,
                        "meaning": "bit0 model!=impl, bit1 property violated, bits>=2 region"}, True))
                else:
                    seen_regions.add(key)
            if mismatch and not outside:
                pending.append(("broken-correspondence", {"what": "model and implementation disagree", "case": c,
                                                          "code": code,
                                                          "meaning": "bit0 model!=impl, bit1 property violated, bits>=2 region"},
                                False))
    for kind, payload, found in sorted(pending, key=lambda x: not x[2]):
        chk.violation(kind, payload, found)
    for key in REGIONS.values():
        if key not in seen_regions:
            chk.known(key, False)
    chk.extra["distribution"] = stats
    chk.extra["unmodelled_skipped"] = stats["unmodelled"]


def count_cases(chk, ctx):
    for g in ctx.groups:
        key = ("group", json.dumps(g["opts"]), json.dumps(g["cli"]), g["variant"])
        chk.count(key, nontrivial=True, sample={"options": g["opts"], "cli": g["cli"], "md": g["md"], "toml": g["tm"],
                                                "config": g["cf"]})
    for r in ctx.raws:
        chk.count(("raw", json.dumps(r["lines"]), r["toml_text"], r["config"], json.dumps(r["cli"]), r["variant"]),
                  nontrivial=bool(r["lines"] or r["toml_text"] or r["config"] or r["cli"]))


def witnesses(chk, ctx):
    """open finding: replay the witness (KNOWN-FINDING line); repaired defects: the former witnesses are
    regression inputs -- the defect coming back is a failing input"""
    im, sp = ctx.impl, ctx.spec

    def field(out, k):
        return out[1].get(k) if out[0] == "full" else None

    def regression(key, what, bad, got):
        chk.count(("regression", key), sample=None)
        if bad:
            chk.violation("failing-input", {"what": "a repaired defect is back: " + key, "input": what, "ford": got}, True)
    x = im.run("", "[extra.ford]\nexclude = 5\n", None, [], 0, sp)
    chk.known("nonscalar-values-unchecked", field(x, "exclude") == ["L", [["I", 5]]])
    a = im.run("", "[extra.ford]\nmax_frontpage_items = \"4\"\n", None, [], 0, sp)
    a2 = im.run("", "[extra.ford]\ngraph = \"maybe\"\n", None, [], 0, sp)
    a3 = im.run("", "[extra.ford]\ngraph = 3\n", None, [], 0, sp)
    regression("toml-values-unchecked", "fpm.toml: max_frontpage_items = \"4\" (must give 4); graph = \"maybe\", graph = 3 "
               "(must be rejected naming graph)",
               not (field(a, "max_frontpage_items") == ["I", 4] and all(o[0] == "exc" and "'graph'" in o[2] for o in (a2, a3))),
               [a if a[0] != "full" else ["full", {"max_frontpage_items": field(a, "max_frontpage_items")}],
                a2 if a2[0] != "full" else ["full", {"graph": field(a2, "graph")}],
                a3 if a3[0] != "full" else ["full", {"graph": field(a3, "graph")}]])
    g = im.run("", None, "graph = 'maybe'", [], 0, sp)
    g2 = im.run("", None, "max_frontpage_items = '4'", [], 0, sp)
    g3 = im.run("", None, "project = 5", [], 0, sp)
    regression("config-values-unchecked", "--config \"graph = 'maybe'\", \"project = 5\" (must be rejected naming the option); "
               "\"max_frontpage_items = '4'\" (must give 4)",
               not (g[0] == "exc" and "'graph'" in g[2] and g3[0] == "exc" and "'project'" in g3[2]
                    and field(g2, "max_frontpage_items") == ["I", 4]),
               [g if g[0] != "full" else ["full", {"graph": field(g, "graph")}],
                g2 if g2[0] != "full" else ["full", {"max_frontpage_items": field(g2, "max_frontpage_items")}],
                g3 if g3[0] != "full" else ["full", {"project": field(g3, "project")}]])
    cfg = "display = 'Private'; src_dir = './s1'; project_url = 'https://x.org'; output_dir = 'out'"
    b = im.run("", None, cfg, [], 0, sp)
    t = im.run("", "[extra.ford]\n" + cfg.replace("; ", "\n") + "\n", None, [], 0, sp)
    regression("config-skips-post-init", "--config \"" + cfg + "\" against the same lines in fpm.toml",
               not (b[0] == "full" and t[0] == "full" and b[1] == t[1] and field(b, "display") == ["L", [["S", "private"]]]), [b, t])
    c = im.run("max_frontpage_items: four\n", None, None, [], 0, sp)
    regression("md-int-error-unnamed", "max_frontpage_items: four", not (c[0] == "exc" and "max_frontpage_items" in c[2]), c)
    d = im.run("", "[extra.ford]\nfoo = 1\nproject = \"p\"\n", None, [], 0, sp)
    regression("toml-unknown-key-aborts", "fpm.toml: foo = 1", not (d[0] == "full" and d[2] == ["foo"] and field(d, "project") == ["S", "p"]), d)
    e = im.run("", None, "foo = 1; project = 'p'", [], 0, sp)
    regression("config-unknown-key-silent", "--config \"foo = 1\"", not (e[0] == "full" and e[2] == ["foo"] and field(e, "project") == ["S", "p"]), e)


def run(chk):
    chk.translate(["t3_schema.py"])
    ok = chk.build(["theories/Corr/C15.vo"])      # the correspondence needs the model and the judges only
    chk.build(["theories/Props/C15.vo"])
    chk.props("theories/Props/C15.v", THEOREMS)
    if chk.tier == "thorough":
        chk.coqchk(["Ford.Props.C15"])
    if not ok:
        return
    ctx = Ctx(chk)
    try:
        generate(ctx, chk)
        count_cases(chk, ctx)
        judge_all(chk, ctx)
        e2e_exclude(chk, ctx)
        e2e_full_runs(chk, ctx, 2 if chk.tier == "quick" else 12)
        witnesses(chk, ctx)
    finally:
        ctx.impl.close()


def replay(chk, rep):
    c = rep.get("case")
    if not c:
        print(json.dumps(rep, indent=1)[:3000])
        return 0
    chk.build(["theories/Corr/C15.vo"])
    ctx = Ctx(chk)
    try:
        if c["kind"] == "group":
            g = ctx.run_group([(k, tuple(a) if a[0] not in ("dict", "ft") else (a[0], [tuple(x) for x in a[1]]))
                               for k, a in c["opts"]], [(d, v) for d, v in c["cli"]], c["variant"], c["variant2"],
                              (c["pre"], c["post"]))
            for k in ("md", "tm", "cf", "md2", "clionly"):
                print(k, ":", json.dumps(g[k])[:1500])
            res = chk.coq_judge(IMPORTS, "gcase", "judge_group", [ctx.group_term(g)])
        else:
            r = ctx.run_raw(c["lines"], None, None, [(d, v) for d, v in c["cli"]], c["variant"], tuple(c["spec"]),
                            toml_text=c["toml_text"], what=c.get("what", ""))
            if c["config"] is not None:       # run_raw renders --config from pairs; replay the recorded string
                ctx.raws.pop()
                im = ctx.impl
                r["config"] = c["config"]
                r["cfg"] = parsed_table(c["config"], config=True)
                r["out"] = im.diffed(im.run(file_text(c["lines"]), c["toml_text"], c["config"],
                                            [(d, v) for d, v in c["cli"]], c["variant"], ctx.spec))
            if c["spec"][0] == "same":        # the project-file form of the same text, run again
                m = ctx.run_raw(c["same_lines"], None, None, [], c["variant"])
                r["same_as"] = m["out"]
                print("project file:", json.dumps(m["out"])[:1500])
            print("impl:", json.dumps(r["out"])[:3000])
            res = chk.coq_judge(IMPORTS, "rcase", "judge_raw", [ctx.raw_term(r)])
        print("judge code:", res, "(bit0 model!=impl, bit1 property violated, bits>=2 region)")
        return 1 if res and any(code & 3 for code in res.values()) else 0
    finally:
        ctx.impl.close()


def finish(chk):
    return chk.finish(
        level_note="Coq proofs over the settings model (all options of the regenerated schema, all values of each "
                   "type); model tied to ford.initialize/load_settings/parse_arguments by differential runs",
        trusted_base=["Coq 8.16.1 kernel (vm_compute for cases, witnesses and schema-wide table facts)",
                      "translate/t3_schema.py (schema, separators, intrinsic modules, licenses from the working tree)",
                      "hand-written model Out/Settings.v", "harness/props/c15.py (generators, TOML/markdown renderers, "
                      "canonicalisation of settings objects)", "tomllib, argparse, pathlib (lexical model; no symlinks, no '$')",
                      "strftime and the preprocessor self-test are stubbed"],
        rule="one case = one option set written as markdown metadata, fpm.toml and --config (+ second working directory, "
             "+ command line alone), or one raw input; distinct = distinct (options, values, command line, directory variant)",
        checker_cmd="make theories/Props/C15.vo && coqc theories/Props/C15.v (Print Assumptions)",
        assumptions=["7-bit ASCII, no ';' inside --config values, no '$' or symlinks in paths",
                     "markdown include syntax in metadata values is outside the model"])
