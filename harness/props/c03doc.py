"""C03, documentation-text half: metadata split (meta_preprocessor / read_metadata) and the
admonition pre-processor (words preserved, boxes indented), plus the end-to-end tracer-word search
on real FORD runs.  Used by c03.py (the lead's check) through THEOREMS and run_part(chk); the
stand-alone driver is c03docx.py."""
import itertools

from harness.core import coq_str, coq_list
from harness.gen import c03doc as G
from harness.impl import c03doc as I

IMPORTS = "From Ford Require Import Base.Str Doc.Meta Doc.Admon Corr.C03doc."
PROPS_FILE = "theories/Props/C03doc.v"
BUILD_TARGETS = ["theories/Corr/C03doc.vo", "theories/Props/C03doc.vo"]
THEOREMS = ["C03_meta_split", "C03_meta_shape", "C03_meta_no_header", "C03_meta_header", "C03_meta_header_fenced",
            "C03_read_metadata_split", "C03_read_metadata_oneline", "C03_oneline_alt_block_fixed",
            "C03_meta_rescan_not_identity",
            "C03_admon_words", "C03_admon_total", "C03_admon_split_words", "C03_pretext_fixed",
            "C03_inside_word_fixed",
            "C03_admon_errors", "C03_admon_end_without_start", "C03_admon_end_type_mismatch",
            "C03_admon_indent_step", "C03_admon_rest_untouched", "C03_admon_indent", "C03_admon_indent_exact",
            "C03_pullin_fixed"]



def report(chk, kind, payload, found):
    """Failing inputs are reported at once; correspondence-only breaks are kept back until the search
    for a failing input (all parts, end-to-end included) has run, and then reported (a few of them)."""
    if found:
        chk.violation(kind, payload, True)
    else:
        chk.__dict__.setdefault("_c03doc_deferred", []).append((kind, payload))


def flush_deferred(chk):
    d = chk.__dict__.pop("_c03doc_deferred", [])
    for kind, payload in d[:8]:
        chk.violation(kind, payload, False)
    if len(d) > 8:
        chk.extra["correspondence_breaks_not_listed"] = len(d) - 8


def coq_meta(m):
    return coq_list(f"({coq_str(k)}, {coq_list(coq_str(v) for v in vs)})" for k, vs in m)


def coq_admon_impl(res):
    kind, out = res
    return ("inl " + coq_list(coq_str(o) for o in out)) if kind == "ok" else f"inr {out}"


def ascii_ok(lines):
    return all(all((32 <= ord(c) < 127) or c == "\t" for c in l) for l in lines)


# ---------------------------------------------------------------- A. admonition pre-processor
def admon_inputs(chk):
    rng = chk.rng
    quick = chk.tier == "quick"
    seen = set()

    def emit(lines, layer):
        t = tuple(lines)
        if t in seen or not ascii_ok(lines):
            return None
        seen.add(t)
        return (list(lines), layer)

    # the former witnesses of the two repaired defects come first (regression inputs)
    corpus = [["alpha beta @note gamma"], ["mail joe@notebook.org now"], ["@note a", "b @warning c"],
              ["x @endnote @note y"], ["@note", "a", "@endnote", "b"], ["@note a", "@warning b"],
              ["@note x @endnote", "next"],
              ["@endnote @note x"], ["@note", "x", "", "y", "@endwarning"], ["@note a @endnote @endnote"],
              ["- item", "  @note x", "  y", "- item2"], ["@note", "```", "code", "```", "@endnote", "", "after"]]
    for c in corpus:
        r = emit(c, "corpus")
        if r:
            yield r
    # bounded-exhaustive: core alphabet deep, wide alphabet shallow
    for seq in G.exhaustive(G.CORE, 4 if quick else 5):
        r = emit(seq, "exh-core")
        if r:
            yield r
    if not quick:
        for seq in G.exhaustive(G.CORE6, 6):
            r = emit(seq, "exh-core6")
            if r:
                yield r
    for seq in G.exhaustive(G.WIDE, 2):
        r = emit(seq, "exh-wide")
        if r:
            yield r
    if not quick:
        for seq in G.exhaustive(G.WIDE[:22], 3):
            r = emit(seq, "exh-wide22")
            if r:
                yield r
    # sampled from the deeper layers
    for _ in range(600 if quick else 8000):
        n = rng.choice([5, 6, 7])
        r = emit([rng.choice(G.CORE) for _ in range(n)], "sample-core")
        if r:
            yield r
    for _ in range(600 if quick else 8000):
        n = rng.choice([3, 4, 5, 6])
        r = emit([rng.choice(G.WIDE) for _ in range(n)], "sample-wide")
        if r:
            yield r
    for _ in range(700 if quick else 10000):
        r = emit(G.rand_body(rng), "random")
        if r:
            yield r
    for _ in range(500 if quick else 10000):
        r = emit(G.structured_body(rng), "structured")
        if r:
            yield r


def part_admon(chk):
    cases = []
    layers = {}
    for lines, layer in admon_inputs(chk):
        res = I.run_admon(lines)
        cases.append((lines, res))
        layers[layer] = layers.get(layer, 0) + 1
        nontriv = any("@" in l for l in lines)
        chk.count(("admon", tuple(lines)), nontrivial=nontriv,
                  sample={"lines": lines, "impl": res} if nontriv and len(lines) > 2 else None)
    terms = [f"({coq_list(coq_str(l) for l in lines)}, {coq_admon_impl(res)})" for lines, res in cases]
    out = chk.coq_judge(IMPORTS, "list str * (list str + nat)", "judge_admon", terms, shard=400)
    hits = {0: 0, 2: 0}
    viol_in_region = {2: 0}
    errs = sum(1 for _, r in cases if r[0] == "err")
    if out is not None:
        chk.traces += len(cases)
        for idx in range(len(cases)):
            code = out.get(idx, 0)
            hits[2 if code >> 2 else 0] += 1
        for idx, code in sorted(out.items()):
            lines, res = cases[idx]
            region = code >> 2
            if code & 1:
                found = bool(code & 2) and region == 0
                report(chk, "failing-input" if found else "broken-correspondence",
                       {"what": ("the pre-processor drops, duplicates or reorders words, or raises an undocumented "
                                 "exception on clean lines (it also differs from the model)") if found
                        else "AdmonitionPreprocessor.run vs model", "part": "admon", "lines": lines,
                        "impl": res, "code": code}, found)
            elif code & 2:
                chk.disagreements += 1
                if region == 2:
                    viol_in_region[2] += 1      # outside the word-level specification (glued / repeated markers)
                else:
                    chk.violation("failing-input",
                                  {"what": "the pre-processor drops, duplicates or reorders words", "part": "admon",
                                   "lines": lines, "impl": res, "code": code}, True)
    chk.extra["admon"] = {"cases": len(cases), "layers": layers, "impl_errors": errs,
                          "region_counts": hits, "spec_deviations_in_region": viol_in_region,
                          "exhaustive": ("core alphabet (8 line classes) up to length 4, wide alphabet (%d classes) up to "
                                         "length 2" % len(G.WIDE)) if chk.tier == "quick" else
                                        ("core alphabet (8 line classes) up to length 5, 6 classes up to length 6, wide "
                                         "alphabet (%d classes) up to length 2 and its first 22 classes up to length 3"
                                         % len(G.WIDE))}


# ---------------------------------------------------------------- B. metadata
def meta_inputs(chk):
    rng = chk.rng
    quick = chk.tier == "quick"
    seen = set()
    corpus = [["Note: alt one line", ""], [" Note: alt one line", "", "  "], ["author: me", ""], ["Note: x", "", "y"],
              ["Note: x", "y", ""]]
    for seq in itertools.chain(corpus, G.exhaustive(G.META_CORE, 3 if quick else 5),
                               G.exhaustive(G.META_ALPHA, 2 if quick else 3),
                               (G.rand_meta_lines(rng) for _ in range(800 if quick else 10000))):
        t = tuple(seq)
        if t in seen or not ascii_ok(seq):
            continue
        seen.add(t)
        yield list(seq)


def part_meta(chk):
    fields = I.entity_fields()
    cases = []
    for lines in meta_inputs(chk):
        for mode, fn in ((0, I.run_meta), (1, I.run_read_metadata)):
            if mode == 1 and len(lines) > 3 and chk.tier == "quick":
                continue
            res = fn(lines)
            cases.append((mode, lines, res))
            chk.count(("meta", mode, tuple(lines)), nontrivial=len(lines) > 0,
                      sample={"mode": mode, "lines": lines, "impl": res} if len(lines) == 3 else None)
    terms, keep = [], []
    for mode, lines, res in cases:
        if isinstance(res, str):
            chk.violation("failing-input", {"what": "metadata split raised", "part": "meta", "mode": mode,
                                            "lines": lines, "impl": res}, True)
            continue
        meta, body = res
        keep.append((mode, lines, res))
        terms.append(f"({mode}, FIELDS, {coq_list(coq_str(l) for l in lines)}, {coq_meta(meta)}, "
                     f"{coq_list(coq_str(l) for l in body)})")
    defs = f"Definition FIELDS : list str := {coq_list(coq_str(f) for f in fields)}."
    out = chk.coq_judge(IMPORTS, "nat * list str * list str * mdict * list str", "judge_meta", terms,
                        shard=400, defs=defs)
    if out is not None:
        chk.traces += len(keep)
        for idx, code in sorted(out.items()):
            mode, lines, res = keep[idx]
            found = bool(code & 2)
            report(chk, "failing-input" if found else "broken-correspondence",
                   {"what": "meta_preprocessor/read_metadata vs model" if not found else
                    "a body line was consumed as metadata (or the body is not a suffix of the comment)",
                    "part": "meta", "mode": mode, "lines": lines, "impl": res, "code": code}, found)
    chk.extra["meta"] = {"cases": len(cases), "entity_fields": fields}


# ---------------------------------------------------------------- C. end-to-end: tracer words in entity.doc
import re

TW = re.compile(r"tw\d+a\d+")
MV = re.compile(r"mv\d+a\d+")


def is_subsequence(small, big):
    it = iter(big)
    return all(x in it for x in small)


def check_entity(d, got):
    """Sound checks on one entity; returns a list of (what, detail)."""
    probs = []
    words = TW.findall(got["text"])
    if words != d["words"]:
        probs.append(("words", {"expected": d["words"], "visible": words}))
    if MV.search(got["text"]):
        probs.append(("metadata-shown", {"visible": MV.findall(got["text"])}))
    for k, v in d["meta"].items():
        if got["meta"].get(k) != v:
            probs.append(("metadata-not-set", {"key": k, "expected": v, "got": got["meta"].get(k)}))
    if got["doc"] is None:
        return probs            # not rendered through markdown (enumerators): words and metadata only
    if d.get("inside"):
        # support for C03_admon_indent: the first paragraph of a top-level box is rendered inside a box
        import bs4
        boxed = set()
        for div in bs4.BeautifulSoup(got["doc"] or "", "html.parser").find_all("div", class_="alert"):
            boxed |= set(TW.findall(div.get_text()))
        outside = [w for w in d["inside"] if w not in boxed]
        if outside and words == d["words"]:
            probs.append(("box-text-outside-box", {"words": outside}))
    if d.get("after"):
        # support for C03_admon_indent_exact: text after a box closed by its end marker is not in a box
        import bs4
        boxed = set()
        for div in bs4.BeautifulSoup(got["doc"] or "", "html.parser").find_all("div", class_="alert"):
            boxed |= set(TW.findall(div.get_text()))
        pulled = [w for w in d["after"] if w in boxed]
        if pulled and words == d["words"]:
            probs.append(("text-after-box-inside-box", {"words": pulled}))
    if got["summary"]:
        import bs4
        sw = TW.findall(bs4.BeautifulSoup(got["summary"], "html.parser").get_text())
        if not is_subsequence(sw, d["words"]):
            probs.append(("summary-foreign-words", {"summary": sw}))
    return probs


def part_e2e(chk):
    rng = chk.rng
    quick = chk.tier == "quick"
    nproj = 150 if quick else 3000
    kinds, nent, nmiss, known_hits, nshared = {}, 0, 0, 0, 0
    for pi in range(nproj):
        knobs = {"pretext": True} if pi % 5 == 4 else {}
        files, expected = G.gen_doc_project(rng, knobs)
        kind, out = I.run_doc_project(files)
        if kind == "err":
            chk.count(("e2e-err", pi), nontrivial=True)
            chk.violation("failing-input", {"what": "Project/correlate/markdown raised on a well-formed documented "
                                            "project", "part": "e2e", "files": files, "error": out}, True)
            continue
        for key, d in expected.items():
            nent += 1
            nshared += d.get("shared", 1) > 1
            for k in d["kinds"] + (["style%d" % d["style"]] if "style" in d else []):
                kinds[k] = kinds.get(k, 0) + 1
            chk.count(("e2e", tuple(d["lines"])), nontrivial=len(d["lines"]) > 1,
                      sample={"entity": list(key), "doc_lines": d["lines"]} if "box:next" in d["kinds"] else None)
            got = out.get(key)
            if got is None:
                nmiss += 1      # the reader/attach half (lead's check) decides about missing entities
                continue
            probs = check_entity(d, got)
            if not probs:
                continue
            chk.disagreements += 1
            if d.get("region") and all(p[0] == "words" for p in probs) and chk.known(d["region"], True):
                known_hits += 1
                continue
            chk.violation("failing-input",
                          {"what": "rendered documentation of an entity does not carry its comment's words exactly "
                                   "once and in order / metadata not split off", "part": "e2e", "entity": list(key),
                           "doc_lines": d["lines"], "style": d.get("style"), "shared_by": d.get("shared", 1),
                           "problems": probs, "html": got["doc"], "files": files}, True)
    # unmatched end markers must raise, not drop text silently
    nerr = 0
    for _ in range(6 if quick else 60):
        body, why = G.gen_error_doc(rng)
        files = {"src/e.f90": "module me\n" + "".join(f"  !! {l}\n" for l in body) + "end module me\n"}
        kind, out = I.run_doc_project(files)
        nerr += 1
        chk.count(("e2e-error-doc", tuple(body)), nontrivial=True)
        if kind != "err" or "ValueError" not in out:
            chk.violation("failing-input", {"what": "an unmatched end marker (%s) did not raise" % why, "part": "e2e",
                                            "files": files, "result": str(out)[:500]}, True)
    chk.extra["e2e"] = {"projects": nproj, "entities": nent, "entities_not_found": nmiss, "block_kinds": kinds,
                        "entities_sharing_a_comment": nshared, "known_region_entities": known_hits,
                        "error_docs": nerr}


# ---------------------------------------------------------------- C2. one comment, several declared variables
def shared_inputs(chk):
    rng = chk.rng
    quick = chk.tier == "quick"
    corpus = [["deprecated: true", "", "Caution: words", "more"], ["author: me", "display: private", "", "Note: x"],
              ["Note: one line"], ["author: me"], ["version: 1", "    continued", "", "body"], ["plain text", "k: v"]]
    for c in corpus:
        for style in range(4):
            yield c, 3, style
    pool = [l for l in G.META_ALPHA if l.strip() and not l.startswith(("---", "...", "\t"))]
    for _ in range(120 if quick else 3000):
        n = rng.randint(1, 5)
        lines = []
        for i in range(n):
            lines.append(rng.choice(pool) if rng.random() < 0.75 else rng.choice(["", "Word: text", "tw: tw tw"]))
        # leading / trailing empty doc lines depend on the marker style (reader half): keep the comment solid
        while lines and not lines[0].strip():
            lines.pop(0)
        while lines and not lines[-1].strip():
            lines.pop()
        if lines:
            yield [l.strip() if not l.startswith("    ") else l for l in lines], rng.choice([2, 2, 3, 4]), rng.randrange(4)


def part_shared(chk):
    """The variables of one declaration share its comment: each must get read_metadata of the WHOLE comment
    (FORD scans in place, so each variable needs its own copy of the lines)."""
    fields = I.entity_fields()
    cases, terms = [], []
    for lines, nvars, style in shared_inputs(chk):
        if not ascii_ok(lines):
            continue
        kind, recs = I.run_shared_decl(lines, nvars, style, stmt="integer")
        chk.count(("shared", tuple(lines), nvars, style), nontrivial=True,
                  sample={"doc_lines": lines, "nvars": nvars, "style": style, "impl": recs} if len(cases) == 3 else None)
        if kind == "err" and "Could not convert" in recs:
            continue            # the generated header is not valid metadata (e.g. two values for a bool): no case
        if kind != "ok" or len(recs) != nvars:
            chk.violation("failing-input", {"what": "a documented declaration of several variables was not parsed into "
                                            "that many documented variables", "part": "meta", "doc_lines": lines,
                                            "nvars": nvars, "style": style, "impl": str(recs)[:600]}, True)
            continue
        delivered = recs[0][1]
        cases.append((lines, nvars, style, recs))
        rs = coq_list(f"({coq_meta(m)}, {coq_list(coq_str(x) for x in left)})" for _, _, m, left in recs)
        terms.append(f"(FIELDS, {coq_list(coq_str(x) for x in delivered)}, {rs})")
    defs = f"Definition FIELDS : list str := {coq_list(coq_str(f) for f in fields)}."
    out = chk.coq_judge(IMPORTS, "list str * list str * list (mdict * list str)", "judge_shared", terms,
                        shard=200, defs=defs)
    if out is not None:
        chk.traces += len(cases)
        for idx, code in sorted(out.items()):
            lines, nvars, style, recs = cases[idx]
            found = bool(code & 2)
            report(chk, "failing-input" if found else "broken-correspondence",
                   {"what": ("the variables of one declaration do not all get the metadata and the body of their shared "
                             "comment") if found else "read_metadata of a shared comment vs model",
                    "part": "meta", "doc_lines": lines, "nvars": nvars, "style": style,
                    "impl": [list(r) for r in recs], "code": code}, found)
    chk.extra["shared"] = {"cases": len(cases)}


# ---------------------------------------------------------------- D. repaired defects: regression witnesses
def box_facts(lines):
    """(words inside any box, nested?) of the HTML python-markdown makes of the lines"""
    import bs4
    import markdown
    from ford.md_admonition import AdmonitionExtension
    html = markdown.Markdown(extensions=[AdmonitionExtension()]).convert("\n".join(lines))
    soup = bs4.BeautifulSoup(html, "html.parser")
    boxes = soup.find_all("div", class_="alert")
    inside = set(w for b in boxes for w in b.get_text().split())
    nested = any(b.find_parent("div", class_="alert") is not None for b in boxes)
    return html, inside, nested, set(soup.get_text().split())


def part_regressions(chk):
    """The witnesses of the defects repaired in /repo (known_findings.d/C03.json, "fixed"): a defect that
    returns is a failing input, not a known finding."""
    res = {}
    # doc-text-before-note-dropped
    for lines, must in ((["alpha beta @note gamma"], {"alpha", "beta", "gamma"}),
                        (["mail joe@notebook.org now"], {"mail", "joe@notebook.org", "now"})):
        r = I.run_admon(lines)
        html, inside, nested, allw = box_facts(lines)
        res[" / ".join(lines)] = r
        chk.count(("regression", tuple(lines)), nontrivial=True)
        if not must <= allw or (lines[0].startswith("mail") and inside):
            chk.violation("failing-input", {"what": "text before `@note` on the same line is lost again, or `@note` fires "
                                            "inside a word (doc-text-before-note-dropped returned)", "part": "admon",
                                            "lines": lines, "impl": r, "html": html}, True)
    # doc-line-after-box-indented
    for lines, outside in ((["@note", "a", "@endnote", "b"], "b"), (["@note x @endnote", "b"], "b")):
        r = I.run_admon(lines)
        html, inside, nested, allw = box_facts(lines)
        res[" / ".join(lines)] = r
        chk.count(("regression", tuple(lines)), nontrivial=True)
        if outside in inside:
            chk.violation("failing-input", {"what": "the line after the end of a box is pulled into the box again "
                                            "(doc-line-after-box-indented returned)", "part": "admon", "lines": lines,
                                            "impl": r, "html": html}, True)
    lines = ["@note a", "@warning b"]
    r = I.run_admon(lines)
    html, inside, nested, allw = box_facts(lines)
    res[" / ".join(lines)] = r
    chk.count(("regression", tuple(lines)), nontrivial=True)
    if nested:
        chk.violation("failing-input", {"what": "consecutive boxes are nested again (doc-line-after-box-indented "
                                        "returned)", "part": "admon", "lines": lines, "impl": r, "html": html}, True)
    chk.extra["regression_witnesses"] = res
    # doc-oneline-colon-alt-block (repaired): a one-line `!*` comment with a colon is shown like the other styles
    src = ("module m\n  implicit none\n  integer :: x\n    !* Note: alt one line\n\n"
           "  integer :: y\n    !! Note: plain one line\nend module m\n")
    kind, out = I.run_doc_project({"src/a.f90": src})
    chk.count(("regression", "oneline-alt-block"), nontrivial=True)
    if kind != "ok" or "one line" not in out[("variable", "x", "m")]["text"] \
            or "one line" not in out[("variable", "y", "m")]["text"]:
        chk.violation("failing-input", {"what": "a one-line `!*` comment containing a colon is taken for metadata again "
                                        "(doc-oneline-colon-alt-block returned)", "part": "e2e",
                                        "entity": ["variable", "x", "m"], "doc_lines": ["tw0a1: tw0a2"],
                                        "files": {"src/a.f90": src}, "result": str(out)[:400]}, True)


# ---------------------------------------------------------------- E. pattern fingerprints
FINGERPRINTS = {
    "utils.META_RE": ('^[ ]{0,3}(?P<key>[A-Za-z0-9_-]+):\\s*(?P<value>.*)', 32),
    "utils.META_MORE_RE": ('^[ ]{4,}(?P<value>.*)', 32),
    "utils.BEGIN_RE": ('^-{3}(\\s.*)?', 32),
    "utils.END_RE": ('^(-{3}|\\.{3})(\\s.*)?', 32),
    "md_admonition.ADMONITION_RE": ('(?P<indent>\\s*)\n        (?<!\\S)@(?P<type>note|warning|todo|bug|history)\n        '
                                    '(?P<posttxt>.*)\n        ', 98),
    "md_admonition.END_RE": ('\\s*@end(?P<type>note|warning|todo|bug|history)\n        \\s*(?P<posttxt>.*)?', 98),
}


def part_fingerprints(chk):
    """The recognisers of Doc/Meta.v and Doc/Admon.v were written for these pattern texts and flags; an edited
    pattern is a broken obligation (the differential runs above are the search for a failing input)."""
    import ford.utils as u
    import ford.md_admonition as m
    cur = {"utils.META_RE": u.META_RE, "utils.META_MORE_RE": u.META_MORE_RE, "utils.BEGIN_RE": u.BEGIN_RE,
           "utils.END_RE": u.END_RE, "md_admonition.ADMONITION_RE": m.AdmonitionPreprocessor.ADMONITION_RE,
           "md_admonition.END_RE": m.AdmonitionPreprocessor.END_RE}
    for name, (pat, flags) in FINGERPRINTS.items():
        r = cur[name]
        ok = r.pattern == pat and int(r.flags) == flags
        chk.obligation("fingerprint:" + name, ok, "" if ok else f"now {r.pattern!r} flags={int(r.flags)}")
    ok = list(m.ADMONITION_TYPE) == G.TYPES and m.AdmonitionPreprocessor.INDENT == "    "
    chk.obligation("fingerprint:md_admonition.ADMONITION_TYPE/INDENT", ok,
                   "" if ok else f"now {list(m.ADMONITION_TYPE)!r} / {m.AdmonitionPreprocessor.INDENT!r}")


def run_part(chk):
    part_fingerprints(chk)
    part_admon(chk)
    part_meta(chk)
    part_e2e(chk)
    part_shared(chk)
    part_regressions(chk)
    flush_deferred(chk)


def replay(chk, rep):
    chk.build(["theories/Corr/C03doc.vo"])
    part = rep.get("part")
    if part == "admon":
        res = I.run_admon(rep["lines"])
        print("impl:", res)
        term = f"({coq_list(coq_str(l) for l in rep['lines'])}, {coq_admon_impl(res)})"
        out = chk.coq_judge(IMPORTS, "list str * (list str + nat)", "judge_admon", [term])
        code = (out or {}).get(0, 0)
        print("judge code:", code, "(bit0 model<>impl, bit1 words not preserved, >>2 region)")
        return 1 if (code & 1 or (code & 2 and code >> 2 == 0)) else 0
    if part == "meta":
        fn = I.run_meta if rep.get("mode", 0) == 0 else I.run_read_metadata
        res = fn(rep["lines"])
        print("impl:", res)
        if isinstance(res, str):
            return 1
        defs = f"Definition FIELDS : list str := {coq_list(coq_str(f) for f in I.entity_fields())}."
        term = (f"({rep.get('mode', 0)}, FIELDS, {coq_list(coq_str(l) for l in rep['lines'])}, {coq_meta(res[0])}, "
                f"{coq_list(coq_str(l) for l in res[1])})")
        out = chk.coq_judge(IMPORTS, "nat * list str * list str * mdict * list str", "judge_meta", [term], defs=defs)
        print("judge code:", (out or {}).get(0, 0))
        return 1 if out else 0
    if part == "meta" and "nvars" in rep:      # a shared comment (part_shared)
        kind, recs = I.run_shared_decl(rep["doc_lines"], rep["nvars"], rep.get("style", 0))
        print("impl:", kind, recs)
        if kind != "ok" or len(recs) != rep["nvars"]:
            return 1
        same = all((m, left) == (recs[0][2], recs[0][3]) for _, _, m, left in recs)
        print("all variables get the same metadata and body:", same)
        return 0 if same else 1
    if part == "e2e":
        kind, out = I.run_doc_project(rep["files"])
        if kind == "err":
            print("impl raised:", out)
            return 0 if "did not raise" in rep.get("what", "") else 1
        if "did not raise" in rep.get("what", ""):
            print("still no exception")
            return 1
        key = tuple(rep["entity"])
        got = out.get(key)
        print("entity:", key, "\nvisible text:", got and got["text"])
        if got is None:
            return 1
        words = TW.findall(got["text"])
        exp = TW.findall("\n".join(l for l in rep["doc_lines"] if not MV.search(l)))
        print("expected:", exp, "\nvisible :", words)
        return 0 if words == exp and not MV.search(got["text"]) else 1
    print("nothing to replay for part", part)
    return 1


LEVEL_NOTE = ("Coq theorems about the models of meta_preprocessor/read_metadata (Doc/Meta.v) and of the two passes of "
              "AdmonitionPreprocessor (Doc/Admon.v) for unbounded line lists; models tied to ford.utils / "
              "ford.md_admonition by differential runs; python-markdown, dedent and the summary extraction covered by "
              "the end-to-end tracer-word search only")
TRUSTED_BASE = ["Coq 8.16.1 kernel (+ vm_compute for case evaluation)",
                "hand-written models Doc/Meta.v, Doc/Admon.v (regex recognisers written from the pattern text of "
                "META_RE, META_MORE_RE, BEGIN_RE, END_RE, ADMONITION_RE, md_admonition.END_RE)",
                "harness generators/adapters (harness/gen/c03doc.py, harness/impl/c03doc.py)",
                "python-markdown 3.4 block parsing, textwrap.dedent, bs4 text extraction (end-to-end search only)",
                "7-bit ASCII lines without embedded newline"]
RULE = ("admonition: bounded-exhaustive line-class sequences (core alphabet deep, wide alphabet shallow) + sampled longer "
        "sequences + random and structured bodies; metadata: bounded-exhaustive header/body line classes + random; "
        "end-to-end: generated documented projects with a unique tracer word sequence per entity. distinct = distinct "
        "line list (per part); non-trivial = contains a marker / is non-empty / has more than one doc line")
CHECKER_CMD = "make theories/Props/C03doc.vo && coqc theories/Props/C03doc.v (Print Assumptions)"
ASSUMPTIONS = ["Python re semantics of search/match for the six patterns as modelled (leftmost match, greedy \\s*)",
               "the word-level specification treats `@type`/`@endtype` as whole whitespace-delimited words; lines where "
               "markers are glued to other text or repeated (admon region 2) are outside the quantifier",
               "a first doc line that looks like `key: value` is metadata by FORD's documented syntax even when the key is "
               "unknown (dropped with a warning); the generators emit known keys only",
               "entities missing from the project are the reader/attach half's business (not flagged here)"]
