"""C11 — [[...]] references link to the entity the documented rules select."""
import html
import os
import pathlib
import re

from harness import core
from harness.core import coq_str, coq_list, coq_opt
from harness.gen import c11proj as G
from harness.impl import fordrun as F
from harness.impl import c11links as L

IMPORTS = "From Ford Require Import Base.Str Gen.LinkTypes Out.Links Corr.C11."
CASE_T = "case"
THEOREMS = [
    "C11_kind_tables_component", "C11_kind_tables_item", "C11_kind_tables_complete",
    "C11_kind_tables_scope", "C11_kind_tables_scope_complete",
    "C11_lookup_order", "C11_lookup_first_match", "C11_absent_plain", "C11_case_insensitive", "C11_no_abort",
    "C11_child_kind_error", "C11_child_sound", "C11_project_order", "C11_lookup_item_kind_word",
    "C11_link_only_documented", "C11_displayed_is_documented", "C11_context_not_inherited",
]

COMP_KINDS = ["procedure", "proc", "subroutine", "function", "interface", "absinterface", "block", "type", "file",
              "module", "submodule", "program", "namelist"]
EXT_KINDS = ["extprocedure", "extproc", "extsubroutine", "extfunction", "extinterface", "extabsinterface", "exttype",
             "extmodule"]
ITEM_ONLY_KINDS = ["bound", "common", "constructor", "final", "modproc", "variable"]
ITEM_KINDS = ["absinterface", "bound", "common", "constructor", "final", "function", "interface", "modproc",
              "subroutine", "type", "variable"]
CLASS_COMP_KINDS = {
    "FortranModule": ["module"], "FortranSubmodule": ["submodule"], "FortranProgram": ["program"],
    "FortranSubroutine": ["procedure", "proc", "subroutine", "function"],
    "FortranFunction": ["procedure", "proc", "subroutine", "function"],
    "FortranInterface": ["procedure", "proc", "interface"], "FortranModuleProcedureInterface": ["interface", "absinterface"],
    "FortranType": ["type"], "FortranSourceFile": ["file"], "FortranBlockData": ["block"],
    "FortranNamelist": ["namelist"],
}
CLASS_ITEM_KINDS = {
    "FortranVariable": ["variable"], "FortranType": ["type"], "FortranSubroutine": ["subroutine"],
    "FortranFunction": ["function"], "FortranInterface": ["interface"], "FortranBoundProcedure": ["bound"],
    "FortranFinalProc": ["final"], "FortranModuleProcedureInterface": ["absinterface", "interface"],
    "FortranCommon": ["common"], "FortranModuleProcedureReference": ["modproc"],
}


# ----------------------------------------------------------------------------- Coq terms
def aval_term(v):
    k, x = v
    if k == "list":
        return "AList " + coq_list(str(i) for i in x)
    if k == "single":
        return f"ASingle {x}"
    if k == "dict":
        return "ADict"
    return "ANone"


def proj_term(ab):
    ents = []
    for e in ab.ents:
        attrs = coq_list(f"({coq_str(a)}, {aval_term(v)})" for a, v in e["attrs"])
        ents.append(f"mk_ent {coq_str(e['name'])} {attrs} {coq_opt(e['parent'], str)} "
                    f"{core.coq_bool(e['url'] is not None)} {core.coq_bool(e['owns_page'])} "
                    f"{core.coq_bool(e['visible'])} {core.coq_bool(e['iface_proc'])}")
    cols = coq_list(f"({coq_str(c)}, {coq_list(str(i) for i in ids)})" for c, ids in ab.cols.items())
    return "{| p_ents := " + coq_list(ents) + "; p_cols := " + cols + " |}"


def ref_term(r):
    n, k, c, ck = r
    return f"mk_ref {coq_str(n)} {coq_opt(k, coq_str)} {coq_opt(c, coq_str)} {coq_opt(ck, coq_str)}"


def ires_term(res):
    if res[0] == "link":
        return "ILink " + coq_list(str(i) for i in res[1])
    if res[0] == "plain":
        return "IPlain"
    return "IErr"


def ref_text(r):
    n, k, c, ck = r
    t = n + (f"({k})" if k is not None else "")
    if c is not None:
        t += ":" + c + (f"({ck})" if ck is not None else "")
    return f"[[{t}]]"


# ----------------------------------------------------------------------------- queries
def spell(rng, x):
    r = rng.random()
    return x.upper() if r < 0.12 else x.capitalize() if r < 0.24 else x


def queries_for(rng, ab, nrandom):
    """(ctx id or None, ref) — every entity as target in every documented spelling from a few contexts,
    plus random combinations over the name pool"""
    names = sorted({e["name"] for e in ab.ents if e["name"] and re.fullmatch(r"\w+", e["name"])})
    ents = list(range(len(ab.ents)))
    ctxs = ab.contexts()
    documented = [i for i in ctxs if ab.ents[i]["cls"] not in ("FortranVariable",) or rng.random() < 0.3] or ctxs
    out = []

    def contexts_for(i):
        c = [None, i]
        par = ab.ents[i]["parent"]
        if par is not None:
            c.append(par)
            sibs = [j for j in ents if ab.ents[j]["parent"] == par and j != i and j in ctxs]
            if sibs:
                c.append(rng.choice(sibs))
                leaves = [j for j in sibs if ab.ents[j]["cls"] in ("FortranVariable", "FortranBoundProcedure")]
                if leaves:              # a leaf entity: the target is found in its parent
                    c.append(rng.choice(leaves))
        c.append(rng.choice(documented))
        return [x for x in c if x is None or x in ctxs]
    for i in ents:
        e = ab.ents[i]
        if not e["name"] or not re.fullmatch(r"\w+(\.\w+)?", e["name"]):
            continue
        par = e["parent"]
        for ctx in contexts_for(i):
            out.append((ctx, (spell(rng, e["name"]), None, None, None)))
            for k in CLASS_COMP_KINDS.get(e["cls"], []):
                out.append((ctx, (spell(rng, e["name"]), spell(rng, k), None, None)))
            for k in CLASS_ITEM_KINDS.get(e["cls"], []):
                if k in ITEM_ONLY_KINDS and re.fullmatch(r"\w+", e["name"]):
                    out.append((ctx, (spell(rng, e["name"]), spell(rng, k), None, None)))
            if par is not None and re.fullmatch(r"\w+(\.\w+)?", ab.ents[par]["name"] or "") \
                    and re.fullmatch(r"\w+", e["name"]):
                pn = ab.ents[par]["name"]
                pk = rng.choice(CLASS_COMP_KINDS.get(ab.ents[par]["cls"], [None]) + [None])
                out.append((ctx, (spell(rng, pn), None, e["name"], None)))
                for ck in CLASS_ITEM_KINDS.get(e["cls"], []):
                    out.append((ctx, (pn, pk, spell(rng, e["name"]), spell(rng, ck))))
    for _ in range(nrandom):
        ctx = rng.choice([None] + documented * 3)
        n = rng.choice(names + ["nosuch"])
        k = rng.choice([None, None] + COMP_KINDS + ITEM_KINDS[:3] + (["foo"] if rng.random() < 0.1 else []))
        if rng.random() < 0.45:
            c = rng.choice(names + ["nosuch"])
            ck = rng.choice([None, None] + ITEM_KINDS + (["foo", "module"] if rng.random() < 0.1 else []))
        else:
            c = ck = None
        if rng.random() < 0.03:
            k = rng.choice(EXT_KINDS)
        out.append((ctx, (spell(rng, n), k, c, ck)))
    return out


def setup_project(files, **settings):
    """parse + correlate in a Work dir; returns (work, project, abstract, md, base)"""
    from ford._markdown import MetaMarkdown
    w = F.Work(files)
    p = F.parse_project(w.root, **settings)
    base = w.root / "doc"
    md = MetaMarkdown(base_url=str(base), project=p)
    return w, p, L.Abstract(p), md, base


def run_queries(ab, md, base, qs):
    res = []
    ctxs = ab.contexts()
    for k, (ctx, r) in enumerate(qs):
        path = None if ctx is not None else base / "page" / "sub"
        # every fourth conversion runs on the state that the conversion of some entity's documentation left
        # behind (no reset in between, as for the project summary): its context is its own argument all the same
        after = ctxs[(7 * k) % len(ctxs)] if ctxs and k % 4 == 1 else None
        res.append(L.convert(md, base, ab, ctx, ref_text(r), path=path, after=after))
    return res


# ----------------------------------------------------------------------------- corpus
CORPUS_FILES = {
    "src/a.f90": """module ma
  !! Module ma doc.
  implicit none
  type :: shape
    !! A shape.
    integer :: n !! count
  contains
    procedure, nopass :: reset => reset_shape !! bound reset
    final :: fin
  end type
  interface shape
    module procedure make_shape
  end interface
  interface gen
    module procedure reset
  end interface
  abstract interface
    subroutine cb(x)
      integer :: x
    end subroutine
  end interface
  integer :: counter !! a var
contains
  subroutine reset(x)
    !! module subroutine reset
    integer :: x !! arg x
  end subroutine
  subroutine reset_shape()
  end subroutine
  subroutine fin(self)
    type(shape) :: self
  end subroutine
  function make_shape() result(r)
    type(shape) :: r
  end function
  function helper(y) result(r)
    !! helper fn
    integer :: y, r
    r = y
  end function
end module
""",
    "src/c.f90": """module mc
  !! mc doc
  implicit none
  private
  public :: visible_sub, shown, pubgen
  integer :: init !! a private module variable
  interface pubgen
    !! a public generic name for the private function
    module procedure helper
  end interface
  type :: hidden_t
    !! a private type
    integer :: init !! component of a private type
  end type
  type :: shown
    !! a public type
    integer :: init !! component of a public type
  end type
  interface
    subroutine ext_s(q, init)
      !! explicit interface (private)
      integer :: q !! arg q
      integer :: init !! arg init
    end subroutine
  end interface
contains
  function helper(y) result(res_helper)
    !! a private function
    integer :: y !! arg y
    integer :: res_helper !! result
    integer :: init !! local of a private function
    res_helper = y
  end function
  subroutine visible_sub(y)
    !! a public subroutine
    integer :: y !! arg y
    integer :: init !! local of a public subroutine
  end subroutine
end module
""",
    "src/b.f90": """module mb
  !! mb doc
  use ma
contains
  subroutine helper()
    !! mb helper
  end subroutine
  function reset() result(r)
    !! mb reset
    integer :: r
    r = 1
  end function
end module
program main
  !! prog
  use mb
end program
subroutine reset()
  !! top-level reset
end subroutine
""",
}
CORPUS_REFS = ["init", "init(variable)", "helper", "helper(proc)", "hidden_t", "hidden_t:init", "shown:init", "ext_s",
               "ext_s:q", "q", "y", "res_helper", "visible_sub:init", "helper:init", "mc:helper", "mc:init", "cb:x",
               "n(variable)", "N(Variable)", "fin(final)", "reset(BOUND)", "counter(variable)", "x(variable)",
               "reset", "reset(proc)", "reset(subroutine)", "reset(function)", "reset(bound)", "shape:reset",
               "shape:reset(bound)", "shape(type):n", "helper", "helper(function)", "ma:helper", "MA(Module):Helper(FUNCTION)",
               "mb:helper", "x", "counter", "ma:counter(variable)", "ma:nosuch", "ma:helper(bound)", "ma(foo)",
               "ma:helper(foo)", "shape:shape(constructor)", "gen", "gen(interface)", "gen:reset(modproc)", "gen:reset",
               "b.f90", "b.f90(file)", "main(program)", "cb(interface)", "cb(absinterface)", "shape(interface)",
               "shape(type)", "shape", "nosuch:thing", "fin", "shape:fin(final)"]
REF_RE = re.compile(r"^(\w+(?:\.\w+)?)(?:\((\w+)\))?(?::(\w+)(?:\((\w+)\))?)?$")


def parse_ref(text):
    m = REF_RE.match(text)
    return (m.group(1), m.group(2), m.group(3), m.group(4))


# ----------------------------------------------------------------------------- end-to-end
MARK_RE = re.compile(r"Rk(\d+)= (.*?) =\1kR", re.S)


def e2e_docs(rng, ab, keys, nper):
    """markers: k -> (doc key, ref).  Text for each doc key: a first paragraph with the references, then
    the same references in a code span and in a fenced block."""
    names = sorted({e["name"] for e in ab.ents if e["name"] and re.fullmatch(r"\w+", e["name"])})
    targets = [i for i, e in enumerate(ab.ents) if e["url"] and not str(e["url"]).startswith("http")
               and re.fullmatch(r"\w+(\.\w+)?", e["name"] or "")]
    marks = {}

    def some_ref():
        r = rng.random()
        i = rng.choice(targets)
        e = ab.ents[i]
        iks = [k for k in CLASS_ITEM_KINDS.get(e["cls"], []) if k in ITEM_ONLY_KINDS]
        if r < 0.12 and iks and re.fullmatch(r"\w+", e["name"]):
            return (e["name"], rng.choice(iks), None, None)
        if r < 0.35:
            return (spell(rng, e["name"]), None, None, None)
        if r < 0.55:
            ks = CLASS_COMP_KINDS.get(e["cls"], [])
            return (e["name"], rng.choice(ks) if ks else None, None, None)
        if r < 0.85 and e["parent"] is not None and re.fullmatch(r"\w+", e["name"]):
            pe = ab.ents[e["parent"]]
            if re.fullmatch(r"\w+(\.\w+)?", pe["name"] or ""):
                cks = CLASS_ITEM_KINDS.get(e["cls"], [])
                return (pe["name"], None, e["name"], rng.choice(cks + [None]) if cks else None)
        return (rng.choice(names + ["nosuch"]), None, None, None)
    for key in keys:
        for _ in range(nper):
            marks[len(marks)] = (key, some_ref())
    return marks


def doc_texts(marks, skip=()):
    by = {}
    for k, (key, r) in marks.items():
        if k not in skip:
            by.setdefault(key, []).append((k, r))
    docs = {}
    for key, l in by.items():
        first = "See " + " ".join(f"Rk{k}= {ref_text(r)} ={k}kR" for k, r in l)
        code = " ".join(f"`Ck{k}= {ref_text(r)} ={k}kC`" for k, r in l[:1])
        docs[key] = first + "\n\nSecond paragraph with a code span " + code + " in it.\n"
    return docs


def locate(ab, marks, page_keys):
    """marker -> context entity id (None for project file / pages / summary)"""
    where = {}
    for i, o in enumerate(ab.objs):
        text = "\n".join(getattr(o, "doc_list", []) or [])
        for m in re.finditer(r"Rk(\d+)= ", text):
            where.setdefault(int(m.group(1)), i)
    return {k: where.get(k) for k in marks if marks[k][0] not in page_keys}


def expected_of(res):
    if res[0] == "link":
        return ("link", res[2])
    return (res[0],)


def scan_output(doc):
    """every marker occurrence on every written page: (page relpath, k, html between the markers)"""
    out = []
    for f in sorted(doc.rglob("*.html")):
        text = f.read_text(errors="replace")
        if "Rk" not in text:
            continue
        rel = str(f.relative_to(doc))
        for m in MARK_RE.finditer(text):
            out.append((rel, int(m.group(1)), m.group(2)))
    return out


def check_occurrence(doc, page, inner, exp):
    """the rendered reference on one page against the expected target (relative to the output root)"""
    if "<a" not in inner:
        return None          # tags stripped (<meta name="description">) or a source listing: nothing to follow
    m = re.fullmatch(r'\s*<a(?: href="([^"]*)")?>(.*?)</a>\s*', inner, flags=re.S)
    if not m:
        return f"not an <a> element: {inner[:80]!r}"
    href = m.group(1)
    if exp[0] == "plain":
        return None if href is None else f"expected plain text, got href {href}"
    if href is None:
        return "expected a link, got plain text"
    href = html.unescape(href)
    if href.startswith("http"):
        return None if href == exp[1] else f"href {href}, expected {exp[1]}"
    path, _, frag = href.partition("#")
    tgt = os.path.normpath(os.path.join(os.path.dirname(doc / page), path))
    rel = os.path.relpath(tgt, doc)
    want_path, _, want_frag = exp[1].partition("#")
    if os.path.normpath(rel) != os.path.normpath(want_path) or frag != want_frag:
        return f"href {href} leads to {rel}#{frag}, expected {exp[1]}"
    if not os.path.isfile(tgt):
        return f"href {href}: file {rel} does not exist"
    if frag and not re.search(r"""id=["']%s["']""" % re.escape(frag), open(tgt, errors="replace").read()):
        return f"href {href}: no element with id {frag} in {rel}"
    return None


def spied_run(root, options, body):
    """a full FORD run that records, for every marked reference, what convert_link made of it and in which
    context; returns (error, log text, {marker: record}, Project object)"""
    import ford._markdown as M
    import ford.fortran_project as FP
    records, holder = {}, {}
    orig_handle, orig_corr = M.FordLinkProcessor.handleMatch, FP.Project.correlate

    def handle(self, m, data):
        el, a, b = orig_handle(self, m, data)
        mk = re.search(r"Rk(\d+)= $", data[:m.start(0)])
        if mk and int(mk.group(1)) not in records:
            records[int(mk.group(1))] = {"ctx": self.md.current_context, "ref": m.group(0), "href": el.get("href"),
                                         "text": el.text, "path": self.md.current_path, "cwd": os.getcwd(),
                                         "base": self.md.base_url}
        return el, a, b

    def corr(self, *a, **k):
        holder["project"] = self
        return orig_corr(self, *a, **k)
    M.FordLinkProcessor.handleMatch, FP.Project.correlate = handle, corr
    try:
        data, log, err = F.full_run_inprocess(root, options, body=body)
    finally:
        M.FordLinkProcessor.handleMatch, FP.Project.correlate = orig_handle, orig_corr
    return err, log, records, holder.get("project")


def record_target(rec):
    """URL (relative to the output root, with fragment) that the recorded href designates"""
    href = rec["href"]
    if href is None:
        return None
    if href.startswith("http"):
        return href
    start = str(rec["path"]) if rec["path"] is not None else rec["cwd"]
    path, sep, frag = href.partition("#")
    rel = os.path.relpath(os.path.normpath(os.path.join(start, path)), str(rec["base"]))
    return rel + (sep + frag if sep else "")


def end_to_end(chk, rng, nproj):
    stats = {"runs": 0, "markers": 0, "occurrences": 0, "pages_with_refs": 0, "code_spans": 0, "judged": 0,
             "incl_src_false_runs": 0}
    for k in range(nproj):
        pj = G.gen(rng, {"p_private": 0.0})
        # one or two non-Fortran source files (extra_filetypes); incl_src on in one run, off in the next
        pj["files"]["src/tool.py"] = "#! A helper script.\nprint(1)\n"
        if k % 3 == 0:
            pj["files"]["src/deck.inp"] = "*! An input deck.\n1 2 3\n"
        incl = k % 2 == 0
        from ford.settings import ExtraFileType
        psettings = {"incl_src": incl, "extra_filetypes": {"py": ExtraFileType("py", "#"),
                                                           "inp": ExtraFileType("inp", "*")}}
        w, p, ab, md, base = setup_project(G.fill(pj["files"], {}), **psettings)
        w.__exit__()
        page_keys = ["@project", "@summary", "@author", "@page", "@subpage"]
        marks = e2e_docs(rng, ab, [d for d in pj["docs"] if rng.random() < 0.6] + page_keys, 2)
        # the texts that are converted without a context carry unqualified references to names that also
        # live inside procedures and types (arguments, locals, components): only the project-wide lookup applies
        inner = sorted({e["name"] for e in ab.ents if e["cls"] == "FortranVariable" and re.fullmatch(r"\w+", e["name"] or "")})
        for key in page_keys:
            for n in rng.sample(inner, min(3, len(inner))):
                marks[len(marks)] = (key, (spell(rng, n), None, None, None))
            marks[len(marks)] = (key, ("tool.py", rng.choice([None, "file"]), None, None))
        for key in rng.sample(pj["docs"], min(4, len(pj["docs"]))):
            marks[len(marks)] = (key, (rng.choice(["tool.py", "deck.inp", "Tool.py"]), rng.choice([None, "file"]), None, None))
        skip = set()
        for attempt in range(2):        # drop the references that raise (they would abort the run)
            docs = doc_texts(marks, skip)
            w, p, ab, md, base = setup_project(G.fill(pj["files"], docs), **psettings)
            try:
                ctx_of = locate(ab, marks, page_keys)
                for kk, (key, r) in marks.items():
                    if kk in skip:
                        continue
                    if key not in page_keys and ctx_of.get(kk) is None:
                        skip.add(kk)           # the doc comment did not attach to an entity
                        continue
                    res = L.convert(md, base, ab, ctx_of.get(kk), ref_text(r),
                                    path=None if ctx_of.get(kk) is not None else base / "page")
                    if res[0] in ("err", "other"):
                        skip.add(kk)
            finally:
                w.__exit__()
        docs = doc_texts(marks, skip)
        files = dict(G.fill(pj["files"], docs))
        files["pages/index.md"] = "title: Pages\n\n" + docs.get("@page", "none") + "\n"
        files["pages/sub/index.md"] = "title: Sub\n\n" + docs.get("@subpage", "none") + "\n"
        summary = docs.get("@summary", "none").split("\n")[0]
        author = docs.get("@author", "none").split("\n")[0]
        with F.Work(files) as w2:
            err, log, records, project = spied_run(w2.root, {"page_dir": "./pages", "summary": summary, "author": "me",
                                                             "author_description": author,
                                                             "incl_src": "true" if incl else "false",
                                                             "extra_filetypes": ["py #", "inp *"]},
                                                   docs.get("@project", "Project.") + "\n")
            stats["runs"] += 1
            stats["incl_src_false_runs"] += not incl
            chk.count(("e2e", tuple(sorted(files))), sample={"e2e_files": sorted(files), "markers": len(records)})
            if err or project is None:
                chk.violation("failing-input", {"what": "FORD failed on a project whose references all convert",
                                                "error": err, "log": log[-1500:], "files": files}, True)
                continue
            doc = w2.root / "doc"
            # (1) what the run resolved, judged by Model and Spec on the run's own Project object
            ab2 = L.Abstract(project)
            cases, infos = [], []
            # the context a text is converted in is the entity it documents; the project file, its summary
            # and author_description and the static pages have none -- whatever was converted before them
            owner = locate(ab2, marks, page_keys)
            for kk, rec in sorted(records.items()):
                if kk not in marks or ab2.unsupported():
                    continue
                if marks[kk][0] in page_keys:
                    ctx = None
                else:
                    ctx = owner.get(kk)
                    if ctx is None:
                        continue
                tgt = record_target(rec)
                res = ("plain",) if tgt is None else ("link", ab2.by_url().get(L.norm_url(tgt), []), tgt)
                cases.append(f"(P0, ({coq_opt(ctx, str)}, {ref_term(marks[kk][1])}), {ires_term(res)})")
                infos.append({"ctx": ctx, "ref": ref_text(marks[kk][1]), "impl": res, "marker": kk,
                              "text": marks[kk][0],
                              "context_during_conversion": getattr(rec["ctx"], "name", None)})
            stats["judged"] += len(cases)
            evaluate(chk, "Definition P0 : proj := " + proj_term(ab2) + ".", cases, infos,
                     "reference resolved during a full FORD run", {"files": files})
            # (2) the URL from every page on which the text is displayed
            occ = scan_output(doc)
            stats["markers"] += len(records)
            stats["occurrences"] += len(occ)
            stats["pages_with_refs"] += len({pg for pg, _, _ in occ})
            probs = []
            for page, kk, inner in occ:
                if kk not in records:
                    continue
                tgt = record_target(records[kk])
                exp = ("plain",) if tgt is None else ("link", tgt)
                bad = check_occurrence(doc, page, inner, exp)
                if bad:
                    probs.append(f"{page}: marker {kk} {ref_text(marks[kk][1])} ({marks[kk][0]}): {bad}")
            missing = [kk for kk in marks if kk not in skip and kk not in records]
            if len(missing) > len(marks) // 2:
                probs.append(f"{len(missing)} of {len(marks)} references were never converted")
            # code spans stay verbatim
            for f in doc.rglob("*.html"):
                t = f.read_text(errors="replace")
                for m in re.finditer(r"Ck(\d+)= (.*?) =\1kC", t, flags=re.S):
                    stats["code_spans"] += 1
                    kk = int(m.group(1))
                    if kk in marks and html.unescape(m.group(2)) != ref_text(marks[kk][1]):
                        probs.append(f"{f.relative_to(doc)}: reference in a code span was changed: {m.group(2)[:60]!r}")
            if probs:
                chk.violation("failing-input", {"what": "references on the pages of a full FORD run",
                                                "problems": probs[:10], "files": files}, True)
    chk.extra["end_to_end"] = stats


def evaluate(chk, defs, cases, infos, what, extra):
    """run the judge over cases that share the project definitions in defs; classify"""
    if not cases:
        return
    res = chk.coq_judge(IMPORTS, CASE_T, "judge", cases, shard=250, defs=defs)
    if res is None:
        return
    chk.traces += len(cases)
    for idx, code in sorted(res.items()):
        if not code & 3:
            continue
        payload = dict(extra)
        payload.update({"what": what, "case": infos[idx], "code": code,
                        "meaning": "bit0 model!=impl, bit1 impl violates the Spec (bit 4: diagnostic, a candidate "
                                   "has an attribute that FortranBase.children does not chain)"})
        chk.disagreements += 1
        if code & 2:
            chk.violation("failing-input", payload, True)
        else:
            chk.violation("broken-correspondence", payload, False)


def regressions(chk):
    """the witnesses of the four repaired defects: a defect that returns is a failing input"""
    files = {"src/a.f90": "subroutine reset()\n  !! top\nend subroutine\n",
             "src/b.f90": "module m\n  type :: shape\n    integer :: n\n  end type\n  interface gen\n"
                          "    module procedure reset\n  end interface\ncontains\n  subroutine reset()\n    !! mine\n"
                          "  end subroutine\nend module\n"}
    w, p, ab, md, base = setup_project(files)
    try:
        ctx = next(i for i, e in enumerate(ab.ents) if e["name"] == "reset" and e["parent"] is not None
                   and e["cls"] == "FortranSubroutine")
        a = L.convert(md, base, ab, ctx, "[[reset]]")
        for t in ["[[reset(proc)]]", "[[reset(subroutine)]]", "[[RESET(Procedure)]]", "[[reset(function)]]"]:
            b = L.convert(md, base, ab, ctx, t)
            if not (a[0] == "link" and b[0] == "link" and a[2] == b[2] and a[1] == [ctx]):
                chk.violation("failing-input", {"what": "regression: a kind word on the component makes the lookup "
                                                        "skip the context", "ref": t, "plain": list(a), "qualified": list(b),
                                                "files": files}, True)
        for t in ["[[m:reset(bound)]]", "[[shape:shape(constructor)]]", "[[gen:reset(modproc)]]", "[[m(foo)]]",
                  "[[m:reset(foo)]]"]:
            x = L.convert(md, base, ab, None, t, path=base / "page")
            if x[0] not in ("plain", "link"):
                chk.violation("failing-input", {"what": "regression: a reference with an impossible or unknown kind "
                                                        "word raises instead of a warning", "ref": t, "impl": list(x[:3]),
                                                "files": files}, True)
    finally:
        w.__exit__()
    w, p, ab, md, base = setup_project({"src/c.f90": CORPUS_FILES["src/c.f90"], "src/a.f90": CORPUS_FILES["src/a.f90"]})
    try:
        def ent(name, parent_name):
            return next(i for i, e in enumerate(ab.ents) if e["name"] == name and e["parent"] is not None
                        and ab.ents[e["parent"]]["name"] == parent_name)
        cb_proc = next(i for i, e in enumerate(ab.ents) if e["name"] == "cb" and e["iface_proc"])
        x = L.convert(md, base, ab, cb_proc, "[[x]]")
        if x[0] != "link" or x[1] != [ent("x", "cb")]:
            chk.violation("failing-input", {"what": "regression: the argument of a procedure in an interface block is "
                                                    "not linked from the documentation of that procedure",
                                            "impl": list(x[:3])}, True)
        for ctx_name, par, ref in [("res_helper", "helper", "[[init]]"), ("y", "helper", "[[init(variable)]]")]:
            r = L.convert(md, base, ab, ent(ctx_name, par), ref)
            if r[0] != "plain":
                chk.violation("failing-input", {"what": "regression: a reference to the local variable of a function "
                                                        "that is not displayed is not plain text", "ref": ref,
                                                "impl": list(r[:3])}, True)
    finally:
        w.__exit__()
    with F.Work({"src/a.f90": "module m\n  !! See [[m:reset(bound)]] here.\ncontains\n  subroutine reset()\n"
                              "  end subroutine\nend module\n"}) as w1:
        data, log, err = F.full_run_inprocess(w1.root, {})
        if err or not (w1.root / "doc" / "module" / "m.html").exists():
            chk.violation("failing-input", {"what": "regression: a reference with an impossible item kind aborts the run",
                                            "error": err}, True)
    with F.Work({"src/a.f90": "module ma\n  !! A module.\nend module\n"}) as w2:
        data, log, err = F.full_run_inprocess(w2.root, {"summary": "SUMM [[ma]] MMUS", "author": "me",
                                                        "author_description": "AUTH [[ma]] HTUA"})
        t = (w2.root / "doc" / "index.html").read_text() if not err else ""
        hrefs = re.findall(r'SUMM <a href="([^"]*)"', t) + re.findall(r'AUTH <a href="([^"]*)"', t)
        if len(hrefs) < 2 or not all((w2.root / "doc" / h).exists() for h in hrefs):
            chk.violation("failing-input", {"what": "regression: references in the project summary / author_description "
                                                    "do not resolve from index.html", "hrefs": hrefs, "error": err}, True)
    with F.Work({"src/a.f90": "module ma\n  !! See [[nl]] here.\n  integer :: v\n  namelist /nl/ v\nend module\n"}) as w3:
        data, log, err = F.full_run_inprocess(w3.root, {})
        t = (w3.root / "doc" / "module" / "ma.html").read_text() if not err else ""
        m = re.search(r'See <a href="([^"]*)"', t)
        if not m or not (w3.root / "doc" / "module" / m.group(1)).exists():
            chk.violation("failing-input", {"what": "regression: [[nl]] to a module-level namelist is a dead link",
                                            "href": m and m.group(1), "error": err}, True)


# ----------------------------------------------------------------------------- the check
def direct_batch(chk, rng, projects, what):
    """projects: list of (files, settings, extra queries); all judged in one Coq run"""
    defs, cases, infos = [], [], []
    dist = chk.extra.setdefault("generator_distribution", {"projects": 0, "entities": 0, "queries": 0, "link": 0,
                                                           "plain": 0, "err": 0, "with_context": 0, "with_kind": 0,
                                                           "with_item": 0, "not_displayed": 0,
                                                           "not_displayed_without_context": 0,
                                                           "interface_argument_linked": 0})
    for n, (files, settings, fixed, nrandom) in enumerate(projects):
        w, p, ab, md, base = setup_project(files, **settings)
        try:
            bad = ab.unsupported()
            if bad:
                chk.notes.append(f"project {n}: not representable: {bad[:3]}")
                continue
            qs = [(c, parse_ref(t)) for c, t in fixed(ab)] + queries_for(rng, ab, nrandom)
            res = run_queries(ab, md, base, qs)
        finally:
            w.__exit__()
        defs.append(f"Definition P{n} : proj := {proj_term(ab)}.")
        dist["projects"] += 1
        dist["entities"] += len(ab.ents)
        for (ctx, r), x in zip(qs, res):
            if x[0] == "other":
                chk.violation("failing-input", {"what": "a well-formed reference was not converted",
                                                "ref": ref_text(r), "output": x[1], "files": files}, True)
                continue
            dist["queries"] += 1
            dist[x[0]] += 1
            dist["with_context"] += ctx is not None
            dist["with_kind"] += r[1] is not None
            dist["with_item"] += r[2] is not None
            if x[0] == "plain" and x[2] == "not-displayed":
                dist["not_displayed"] += 1
                dist["not_displayed_without_context"] += ctx is None
            if x[0] == "link" and any(ab.ents[j]["parent"] is not None and ab.ents[ab.ents[j]["parent"]]["iface_proc"]
                                      for j in x[1]):
                dist["interface_argument_linked"] += 1
            chk.count(("q", n, ctx, r), nontrivial=x[0] != "plain",
                      sample={"context": ab.ents[ctx]["name"] if ctx is not None else None, "ref": ref_text(r),
                              "impl": list(x[:3])})
            cases.append(f"(P{n}, ({coq_opt(ctx, str)}, {ref_term(r)}), {ires_term(x)})")
            infos.append({"project": n, "ctx": ctx, "ctx_name": ab.ents[ctx]["name"] if ctx is not None else None,
                          "ref": ref_text(r), "impl": list(x), "files": files, "settings": {k: str(v) for k, v in settings.items()}})
    evaluate(chk, "\n".join(defs), cases, infos, what, {})


def corpus_queries(ab, stride=1):
    ctxs = [None] + ab.contexts()[::stride]
    return [(c, t) for c in ctxs for t in CORPUS_REFS]


def run(chk):
    chk.translate(["t2_linktypes.py"])
    chk.build(["theories/Corr/C11.vo", "theories/Props/C11.vo"])
    chk.props("theories/Props/C11.v", THEOREMS)
    rng = chk.rng
    quick = chk.tier == "quick"
    ext_files = {"src/x.f90": "module mx\n  !! names shared with external modules\n  type :: mpi\n    integer :: n\n"
                              "  end type\ncontains\n  subroutine omp_lib()\n    !! a local omp_lib\n  end subroutine\n"
                              "end module\n"}
    ext_refs = ["mpi", "MPI", "omp_lib", "mpi(type)", "mpi(extmodule)", "omp_lib(proc)", "omp_lib(extmodule)",
                "iso_c_binding", "iso_c_binding(extmodule)", "mpi:n", "openacc"]
    projects = [(ext_files, {}, lambda ab: [(c, t) for c in [None] + ab.contexts() for t in ext_refs], 20),
                (CORPUS_FILES, {}, corpus_queries, 40),
                (CORPUS_FILES, {"incl_src": False}, (lambda ab: corpus_queries(ab, 3)) if quick else corpus_queries, 20),
                (CORPUS_FILES, {"display": ["public", "private", "protected"], "proc_internals": True},
                 (lambda ab: corpus_queries(ab, 2)) if quick else corpus_queries, 40)]
    from ford.settings import ExtraFileType
    xfiles = dict(ext_files)
    xfiles["src/make_deck.py"] = "#! Writes the input deck.\nprint(1)\n"
    xfiles["src/notes.inp"] = "*! An input file.\n1 2 3\n"
    xrefs = ["make_deck.py", "make_deck.py(file)", "MAKE_DECK.PY", "notes.inp(file)", "x.f90", "x.f90(file)", "mpi"]
    for incl in (True, False):          # source files (Fortran or not) have a page only when incl_src is set
        projects.append((xfiles, {"incl_src": incl, "extra_filetypes": {"py": ExtraFileType("py", "#"),
                                                                        "inp": ExtraFileType("inp", "*")}},
                         lambda ab: [(c, t) for c in [None] + ab.contexts() for t in xrefs], 10))
    for i in range(4 if quick else 40):
        pj = G.gen(rng, {"p_private": 0.35 if i % 4 else 0.0})
        settings = {"display": ["public", "private", "protected"]} if i % 3 == 0 else \
            {"incl_src": False} if i % 3 == 1 else {}
        projects.append((G.fill(pj["files"], {}), settings, lambda ab: [], 120 if quick else 300))
    for i in range(0, len(projects), 8):
        direct_batch(chk, rng, projects[i:i + 8], "one reference converted by the real markdown pipeline in a context")
    end_to_end(chk, rng, 4 if quick else 40)
    regressions(chk)
    if not quick:
        chk.coqchk(["Ford.Props.C11"])


def replay(chk, rep):
    import shutil
    try:
        case = rep.get("case") or {}
        files = case.get("files") or rep.get("files")
        if not files:
            print("nothing to replay:", rep.get("kind"), rep.get("broken"))
            return 1
        if "ref" in case and "problems" not in rep and "marker" not in case:
            settings = {k: (eval(v) if v.startswith("[") else v == "True") for k, v in (case.get("settings") or {}).items()}
            w, p, ab, md, base = setup_project(files, **settings)
            try:
                ctx = case["ctx"]
                r = parse_ref(case["ref"][2:-2])
                x = L.convert(md, base, ab, ctx, case["ref"], path=None if ctx is not None else base / "page" / "sub")
            finally:
                w.__exit__()
            print("impl:", x[:4])
            chk.build(["theories/Corr/C11.vo"])
            res = chk.coq_judge(IMPORTS, CASE_T, "judge",
                                [f"(P0, ({coq_opt(ctx, str)}, {ref_term(r)}), {ires_term(x)})"],
                                defs=f"Definition P0 : proj := {proj_term(ab)}.")
            print("judge code:", res)
            return 1 if res and any(c & 3 for c in res.values()) else 0
        with F.Work(files) as w2:
            pages = {k: v for k, v in files.items() if k.startswith("pages/")}
            err, log, records, project = spied_run(w2.root, {"page_dir": "./pages"} if pages else {}, "Project.\n")
            print("full run error:", err, "| references converted:", len(records))
            print("problems recorded:", rep.get("problems"))
            return 1
    finally:
        shutil.rmtree(chk.tmp, ignore_errors=True)


def finish(chk):
    return chk.finish(
        level_note="Coq proofs over all abstract projects / contexts / references about the convert_link model; the "
                   "kind tables are regenerated from the source (T2) and proved equal to the documented ones; model "
                   "tied to FordLinkProcessor / Project.find / find_child by differential runs of the real markdown "
                   "conversion on generated projects and on full FORD runs",
        trusted_base=["Coq 8.16.1 kernel (vm_compute for case evaluation, table facts and witnesses)",
                      "translate/t2_linktypes.py", "hand-written model Out/Links.v",
                      "harness/props/c11.py, harness/impl/c11links.py (abstract project read off the real Project "
                      "object; entity identified by its URL), harness/gen/c11proj.py"],
        rule="(project, context entity or none, reference spelling) triples: every entity as target in every documented "
             "spelling from itself / its parent / a sibling / an unrelated entity / no context, plus random "
             "combinations over a small name pool reused across kinds and levels; distinct = distinct triple whose "
             "result is not plain text; plus references placed in docstrings, project file, summary and nested "
             "static pages of full runs and followed from every page that shows them",
        checker_cmd="make theories/Props/C11.vo && coqc theories/Props/C11.v (Print Assumptions)",
        assumptions=["the abstract project is read off FORD's own Project object (parsing is not re-verified here)",
                     "python-markdown's pattern priorities (code spans) are tested end-to-end only",
                     "within one level the user guide leaves the choice among equally named entities open (the Spec "
                     "accepts any of them)",
                     "a missing item yields plain text or a link to the component (both accepted)"])
