"""C11 — [[...]] references link to the entity the documented rules select."""
import html
import os
import pathlib
import re

from harness import core
from harness.core import coq_str, coq_list, coq_opt
from harness.gen import c11proj as G
from harness.impl import fordrun as F
from harness.impl import c11links as L

IMPORTS = "From Ford Require Import Base.Str Gen.LinkTypes Out.Links Corr.C11."
CASE_T = "case"
THEOREMS = [
    "C11_kind_tables_component", "C11_kind_tables_item", "C11_kind_tables_complete",
    "C11_lookup_order", "C11_lookup_first_match", "C11_absent_plain", "C11_case_insensitive",
    "C11_child_kind_error", "C11_child_sound", "C11_lookup_order_refuted", "C11_child_kind_refuted",
]

COMP_KINDS = ["procedure", "proc", "subroutine", "function", "interface", "absinterface", "block", "type", "file",
              "module", "submodule", "program", "namelist"]
EXT_KINDS = ["extprocedure", "extproc", "extsubroutine", "extfunction", "extinterface", "extabsinterface", "exttype",
             "extmodule"]
ITEM_KINDS = ["absinterface", "bound", "common", "constructor", "final", "function", "interface", "modproc",
              "subroutine", "type", "variable"]
CLASS_COMP_KINDS = {
    "FortranModule": ["module"], "FortranSubmodule": ["submodule"], "FortranProgram": ["program"],
    "FortranSubroutine": ["procedure", "proc", "subroutine", "function"],
    "FortranFunction": ["procedure", "proc", "subroutine", "function"],
    "FortranInterface": ["procedure", "proc", "interface"], "FortranModuleProcedureInterface": ["interface", "absinterface"],
    "FortranType": ["type"], "FortranSourceFile": ["file"], "FortranBlockData": ["block"],
    "FortranNamelist": ["namelist"],
}
CLASS_ITEM_KINDS = {
    "FortranVariable": ["variable"], "FortranType": ["type"], "FortranSubroutine": ["subroutine"],
    "FortranFunction": ["function"], "FortranInterface": ["interface"], "FortranBoundProcedure": ["bound"],
    "FortranFinalProc": ["final"], "FortranModuleProcedureInterface": ["absinterface", "interface"],
    "FortranCommon": ["common"], "FortranModuleProcedureReference": ["modproc"],
}


# ----------------------------------------------------------------------------- Coq terms
def aval_term(v):
    k, x = v
    if k == "list":
        return "AList " + coq_list(str(i) for i in x)
    if k == "single":
        return f"ASingle {x}"
    if k == "dict":
        return "ADict"
    return "ANone"


def proj_term(ab):
    ents = []
    for e in ab.ents:
        attrs = coq_list(f"({coq_str(a)}, {aval_term(v)})" for a, v in e["attrs"])
        ents.append(f"mk_ent {coq_str(e['name'])} {attrs} {coq_opt(e['parent'], str)} "
                    f"{core.coq_bool(e['url'] is not None)}")
    cols = coq_list(f"({coq_str(c)}, {coq_list(str(i) for i in ids)})" for c, ids in ab.cols.items())
    return "{| p_ents := " + coq_list(ents) + "; p_cols := " + cols + " |}"


def ref_term(r):
    n, k, c, ck = r
    return f"mk_ref {coq_str(n)} {coq_opt(k, coq_str)} {coq_opt(c, coq_str)} {coq_opt(ck, coq_str)}"


def ires_term(res):
    if res[0] == "link":
        return "ILink " + coq_list(str(i) for i in res[1])
    if res[0] == "plain":
        return "IPlain"
    return "IErr"


def ref_text(r):
    n, k, c, ck = r
    t = n + (f"({k})" if k is not None else "")
    if c is not None:
        t += ":" + c + (f"({ck})" if ck is not None else "")
    return f"[[{t}]]"


# ----------------------------------------------------------------------------- queries
def spell(rng, x):
    r = rng.random()
    return x.upper() if r < 0.12 else x.capitalize() if r < 0.24 else x


def queries_for(rng, ab, nrandom):
    """(ctx id or None, ref) — every entity as target in every documented spelling from a few contexts,
    plus random combinations over the name pool"""
    names = sorted({e["name"] for e in ab.ents if e["name"] and re.fullmatch(r"\w+", e["name"])})
    ents = list(range(len(ab.ents)))
    ctxs = ab.contexts()
    documented = [i for i in ctxs if ab.ents[i]["cls"] not in ("FortranVariable",) or rng.random() < 0.3] or ctxs
    out = []

    def contexts_for(i):
        c = [None, i]
        par = ab.ents[i]["parent"]
        if par is not None:
            c.append(par)
            sibs = [j for j in ents if ab.ents[j]["parent"] == par and j != i]
            if sibs:
                c.append(rng.choice(sibs))
        c.append(rng.choice(documented))
        return [x for x in c if x is None or x in ctxs]
    for i in ents:
        e = ab.ents[i]
        if not e["name"] or not re.fullmatch(r"\w+(\.\w+)?", e["name"]):
            continue
        par = e["parent"]
        for ctx in contexts_for(i):
            out.append((ctx, (spell(rng, e["name"]), None, None, None)))
            for k in CLASS_COMP_KINDS.get(e["cls"], []):
                out.append((ctx, (spell(rng, e["name"]), spell(rng, k), None, None)))
            if par is not None and re.fullmatch(r"\w+(\.\w+)?", ab.ents[par]["name"] or "") \
                    and re.fullmatch(r"\w+", e["name"]):
                pn = ab.ents[par]["name"]
                pk = rng.choice(CLASS_COMP_KINDS.get(ab.ents[par]["cls"], [None]) + [None])
                out.append((ctx, (spell(rng, pn), None, e["name"], None)))
                for ck in CLASS_ITEM_KINDS.get(e["cls"], []):
                    out.append((ctx, (pn, pk, spell(rng, e["name"]), spell(rng, ck))))
    for _ in range(nrandom):
        ctx = rng.choice([None] + documented * 3)
        n = rng.choice(names + ["nosuch"])
        k = rng.choice([None, None] + COMP_KINDS + ITEM_KINDS[:3] + (["foo"] if rng.random() < 0.1 else []))
        if rng.random() < 0.45:
            c = rng.choice(names + ["nosuch"])
            ck = rng.choice([None, None] + ITEM_KINDS + (["foo", "module"] if rng.random() < 0.1 else []))
        else:
            c = ck = None
        if rng.random() < 0.03:
            k = rng.choice(EXT_KINDS)
        out.append((ctx, (spell(rng, n), k, c, ck)))
    return out


def setup_project(files, **settings):
    """parse + correlate in a Work dir; returns (work, project, abstract, md, base)"""
    from ford._markdown import MetaMarkdown
    w = F.Work(files)
    p = F.parse_project(w.root, **settings)
    base = w.root / "doc"
    md = MetaMarkdown(base_url=str(base), project=p)
    return w, p, L.Abstract(p), md, base


def run_queries(ab, md, base, qs):
    res = []
    for ctx, r in qs:
        path = None if ctx is not None else base / "page" / "sub"
        res.append(L.convert(md, base, ab, ctx, ref_text(r), path=path))
    return res
