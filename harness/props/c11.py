"""C11 — [[...]] references link to the entity the documented rules select."""
import html
import os
import pathlib
import re

from harness import core
from harness.core import coq_str, coq_list, coq_opt
from harness.gen import c11proj as G
from harness.impl import fordrun as F
from harness.impl import c11links as L

IMPORTS = "From Ford Require Import Base.Str Gen.LinkTypes Out.Links Corr.C11."
CASE_T = "case"
THEOREMS = [
    "C11_kind_tables_component", "C11_kind_tables_item", "C11_kind_tables_complete",
    "C11_lookup_order", "C11_lookup_first_match", "C11_absent_plain", "C11_case_insensitive",
    "C11_child_kind_error", "C11_child_sound", "C11_lookup_order_refuted", "C11_child_kind_refuted",
]

COMP_KINDS = ["procedure", "proc", "subroutine", "function", "interface", "absinterface", "block", "type", "file",
              "module", "submodule", "program", "namelist"]
EXT_KINDS = ["extprocedure", "extproc", "extsubroutine", "extfunction", "extinterface", "extabsinterface", "exttype",
             "extmodule"]
ITEM_KINDS = ["absinterface", "bound", "common", "constructor", "final", "function", "interface", "modproc",
              "subroutine", "type", "variable"]
CLASS_COMP_KINDS = {
    "FortranModule": ["module"], "FortranSubmodule": ["submodule"], "FortranProgram": ["program"],
    "FortranSubroutine": ["procedure", "proc", "subroutine", "function"],
    "FortranFunction": ["procedure", "proc", "subroutine", "function"],
    "FortranInterface": ["procedure", "proc", "interface"], "FortranModuleProcedureInterface": ["interface", "absinterface"],
    "FortranType": ["type"], "FortranSourceFile": ["file"], "FortranBlockData": ["block"],
    "FortranNamelist": ["namelist"],
}
CLASS_ITEM_KINDS = {
    "FortranVariable": ["variable"], "FortranType": ["type"], "FortranSubroutine": ["subroutine"],
    "FortranFunction": ["function"], "FortranInterface": ["interface"], "FortranBoundProcedure": ["bound"],
    "FortranFinalProc": ["final"], "FortranModuleProcedureInterface": ["absinterface", "interface"],
    "FortranCommon": ["common"], "FortranModuleProcedureReference": ["modproc"],
}


# ----------------------------------------------------------------------------- Coq terms
def aval_term(v):
    k, x = v
    if k == "list":
        return "AList " + coq_list(str(i) for i in x)
    if k == "single":
        return f"ASingle {x}"
    if k == "dict":
        return "ADict"
    return "ANone"


def proj_term(ab):
    ents = []
    for e in ab.ents:
        attrs = coq_list(f"({coq_str(a)}, {aval_term(v)})" for a, v in e["attrs"])
        ents.append(f"mk_ent {coq_str(e['name'])} {attrs} {coq_opt(e['parent'], str)} "
                    f"{core.coq_bool(e['url'] is not None)}")
    cols = coq_list(f"({coq_str(c)}, {coq_list(str(i) for i in ids)})" for c, ids in ab.cols.items())
    return "{| p_ents := " + coq_list(ents) + "; p_cols := " + cols + " |}"


def ref_term(r):
    n, k, c, ck = r
    return f"mk_ref {coq_str(n)} {coq_opt(k, coq_str)} {coq_opt(c, coq_str)} {coq_opt(ck, coq_str)}"


def ires_term(res):
    if res[0] == "link":
        return "ILink " + coq_list(str(i) for i in res[1])
    if res[0] == "plain":
        return "IPlain"
    return "IErr"


def ref_text(r):
    n, k, c, ck = r
    t = n + (f"({k})" if k is not None else "")
    if c is not None:
        t += ":" + c + (f"({ck})" if ck is not None else "")
    return f"[[{t}]]"


# ----------------------------------------------------------------------------- queries
def spell(rng, x):
    r = rng.random()
    return x.upper() if r < 0.12 else x.capitalize() if r < 0.24 else x


def queries_for(rng, ab, nrandom):
    """(ctx id or None, ref) — every entity as target in every documented spelling from a few contexts,
    plus random combinations over the name pool"""
    names = sorted({e["name"] for e in ab.ents if e["name"] and re.fullmatch(r"\w+", e["name"])})
    ents = list(range(len(ab.ents)))
    ctxs = ab.contexts()
    documented = [i for i in ctxs if ab.ents[i]["cls"] not in ("FortranVariable",) or rng.random() < 0.3] or ctxs
    out = []

    def contexts_for(i):
        c = [None, i]
        par = ab.ents[i]["parent"]
        if par is not None:
            c.append(par)
            sibs = [j for j in ents if ab.ents[j]["parent"] == par and j != i]
            if sibs:
                c.append(rng.choice(sibs))
        c.append(rng.choice(documented))
        return [x for x in c if x is None or x in ctxs]
    for i in ents:
        e = ab.ents[i]
        if not e["name"] or not re.fullmatch(r"\w+(\.\w+)?", e["name"]):
            continue
        par = e["parent"]
        for ctx in contexts_for(i):
            out.append((ctx, (spell(rng, e["name"]), None, None, None)))
            for k in CLASS_COMP_KINDS.get(e["cls"], []):
                out.append((ctx, (spell(rng, e["name"]), spell(rng, k), None, None)))
            if par is not None and re.fullmatch(r"\w+(\.\w+)?", ab.ents[par]["name"] or "") \
                    and re.fullmatch(r"\w+", e["name"]):
                pn = ab.ents[par]["name"]
                pk = rng.choice(CLASS_COMP_KINDS.get(ab.ents[par]["cls"], [None]) + [None])
                out.append((ctx, (spell(rng, pn), None, e["name"], None)))
                for ck in CLASS_ITEM_KINDS.get(e["cls"], []):
                    out.append((ctx, (pn, pk, spell(rng, e["name"]), spell(rng, ck))))
    for _ in range(nrandom):
        ctx = rng.choice([None] + documented * 3)
        n = rng.choice(names + ["nosuch"])
        k = rng.choice([None, None] + COMP_KINDS + ITEM_KINDS[:3] + (["foo"] if rng.random() < 0.1 else []))
        if rng.random() < 0.45:
            c = rng.choice(names + ["nosuch"])
            ck = rng.choice([None, None] + ITEM_KINDS + (["foo", "module"] if rng.random() < 0.1 else []))
        else:
            c = ck = None
        if rng.random() < 0.03:
            k = rng.choice(EXT_KINDS)
        out.append((ctx, (spell(rng, n), k, c, ck)))
    return out


def setup_project(files, **settings):
    """parse + correlate in a Work dir; returns (work, project, abstract, md, base)"""
    from ford._markdown import MetaMarkdown
    w = F.Work(files)
    p = F.parse_project(w.root, **settings)
    base = w.root / "doc"
    md = MetaMarkdown(base_url=str(base), project=p)
    return w, p, L.Abstract(p), md, base


def run_queries(ab, md, base, qs):
    res = []
    for ctx, r in qs:
        path = None if ctx is not None else base / "page" / "sub"
        res.append(L.convert(md, base, ab, ctx, ref_text(r), path=path))
    return res


# ----------------------------------------------------------------------------- corpus
CORPUS_FILES = {
    "src/a.f90": """module ma
  !! Module ma doc.
  implicit none
  type :: shape
    !! A shape.
    integer :: n !! count
  contains
    procedure, nopass :: reset => reset_shape !! bound reset
    final :: fin
  end type
  interface shape
    module procedure make_shape
  end interface
  interface gen
    module procedure reset
  end interface
  abstract interface
    subroutine cb(x)
      integer :: x
    end subroutine
  end interface
  integer :: counter !! a var
contains
  subroutine reset(x)
    !! module subroutine reset
    integer :: x !! arg x
  end subroutine
  subroutine reset_shape()
  end subroutine
  subroutine fin(self)
    type(shape) :: self
  end subroutine
  function make_shape() result(r)
    type(shape) :: r
  end function
  function helper(y) result(r)
    !! helper fn
    integer :: y, r
    r = y
  end function
end module
""",
    "src/b.f90": """module mb
  !! mb doc
  use ma
contains
  subroutine helper()
    !! mb helper
  end subroutine
  function reset() result(r)
    !! mb reset
    integer :: r
    r = 1
  end function
end module
program main
  !! prog
  use mb
end program
subroutine reset()
  !! top-level reset
end subroutine
""",
}
CORPUS_REFS = ["reset", "reset(proc)", "reset(subroutine)", "reset(function)", "reset(bound)", "shape:reset",
               "shape:reset(bound)", "shape(type):n", "helper", "helper(function)", "ma:helper", "MA(Module):Helper(FUNCTION)",
               "mb:helper", "x", "counter", "ma:counter(variable)", "ma:nosuch", "ma:helper(bound)", "ma(foo)",
               "ma:helper(foo)", "shape:shape(constructor)", "gen", "gen(interface)", "gen:reset(modproc)", "gen:reset",
               "b.f90", "b.f90(file)", "main(program)", "cb(interface)", "cb(absinterface)", "shape(interface)",
               "shape(type)", "shape", "nosuch:thing", "fin", "shape:fin(final)"]
REF_RE = re.compile(r"^(\w+(?:\.\w+)?)(?:\((\w+)\))?(?::(\w+)(?:\((\w+)\))?)?$")


def parse_ref(text):
    m = REF_RE.match(text)
    return (m.group(1), m.group(2), m.group(3), m.group(4))


# ----------------------------------------------------------------------------- end-to-end
MARK_RE = re.compile(r"Rk(\d+)= (.*?) =\1kR", re.S)


def e2e_docs(rng, ab, keys, nper):
    """markers: k -> (doc key, ref).  Text for each doc key: a first paragraph with the references, then
    the same references in a code span and in a fenced block."""
    names = sorted({e["name"] for e in ab.ents if e["name"] and re.fullmatch(r"\w+", e["name"])})
    targets = [i for i, e in enumerate(ab.ents) if e["url"] and not str(e["url"]).startswith("http")
               and re.fullmatch(r"\w+(\.\w+)?", e["name"] or "")]
    marks = {}

    def some_ref():
        r = rng.random()
        i = rng.choice(targets)
        e = ab.ents[i]
        if r < 0.35:
            return (spell(rng, e["name"]), None, None, None)
        if r < 0.55:
            ks = CLASS_COMP_KINDS.get(e["cls"], [])
            return (e["name"], rng.choice(ks) if ks else None, None, None)
        if r < 0.85 and e["parent"] is not None and re.fullmatch(r"\w+", e["name"]):
            pe = ab.ents[e["parent"]]
            if re.fullmatch(r"\w+(\.\w+)?", pe["name"] or ""):
                cks = CLASS_ITEM_KINDS.get(e["cls"], [])
                return (pe["name"], None, e["name"], rng.choice(cks + [None]) if cks else None)
        return (rng.choice(names + ["nosuch"]), None, None, None)
    for key in keys:
        for _ in range(nper):
            marks[len(marks)] = (key, some_ref())
    return marks


def doc_texts(marks, skip=()):
    by = {}
    for k, (key, r) in marks.items():
        if k not in skip:
            by.setdefault(key, []).append((k, r))
    docs = {}
    for key, l in by.items():
        first = "See " + " ".join(f"Rk{k}= {ref_text(r)} ={k}kR" for k, r in l)
        code = " ".join(f"`Ck{k}= {ref_text(r)} ={k}kC`" for k, r in l[:1])
        docs[key] = first + "\n\nSecond paragraph with a code span " + code + " in it.\n"
    return docs


def locate(ab, marks, page_keys):
    """marker -> context entity id (None for project file / pages / summary)"""
    where = {}
    for i, o in enumerate(ab.objs):
        text = "\n".join(getattr(o, "doc_list", []) or [])
        for m in re.finditer(r"Rk(\d+)= ", text):
            where.setdefault(int(m.group(1)), i)
    return {k: where.get(k) for k in marks if marks[k][0] not in page_keys}


def expected_of(res):
    if res[0] == "link":
        return ("link", res[2])
    return (res[0],)


def scan_output(doc):
    """every marker occurrence on every written page: (page relpath, k, html between the markers)"""
    out = []
    for f in sorted(doc.rglob("*.html")):
        text = f.read_text(errors="replace")
        if "Rk" not in text:
            continue
        rel = str(f.relative_to(doc))
        for m in MARK_RE.finditer(text):
            out.append((rel, int(m.group(1)), m.group(2)))
    return out


def check_occurrence(doc, page, inner, exp):
    """the rendered reference on one page against the expected target (relative to the output root)"""
    if "<a" not in inner and "[[" not in inner:
        return None                      # tags stripped (<meta name="description">, search index): nothing to follow
    m = re.fullmatch(r'\s*<a(?: href="([^"]*)")?>(.*?)</a>\s*', inner, flags=re.S)
    if not m:
        return f"not an <a> element: {inner[:80]!r}"
    href = m.group(1)
    if exp[0] == "plain":
        return None if href is None else f"expected plain text, got href {href}"
    if href is None:
        return "expected a link, got plain text"
    href = html.unescape(href)
    if href.startswith("http"):
        return None if href == exp[1] else f"href {href}, expected {exp[1]}"
    path, _, frag = href.partition("#")
    tgt = os.path.normpath(os.path.join(os.path.dirname(doc / page), path))
    rel = os.path.relpath(tgt, doc)
    want_path, _, want_frag = exp[1].partition("#")
    if os.path.normpath(rel) != os.path.normpath(want_path) or frag != want_frag:
        return f"href {href} leads to {rel}#{frag}, expected {exp[1]}"
    if not os.path.isfile(tgt):
        return f"href {href}: file {rel} does not exist"
    if frag and not re.search(r"""id=["']%s["']""" % re.escape(frag), open(tgt, errors="replace").read()):
        return f"href {href}: no element with id {frag} in {rel}"
    return None


def end_to_end(chk, rng, nproj):
    stats = {"runs": 0, "markers": 0, "occurrences": 0, "pages_with_refs": 0, "code_spans": 0}
    for k in range(nproj):
        pj = G.gen(rng, {"p_private": 0.0})
        w, p, ab, md, base = setup_project(G.fill(pj["files"], {}))
        w.__exit__()
        page_keys = ["@project", "@summary", "@page", "@subpage"]
        marks = e2e_docs(rng, ab, [d for d in pj["docs"] if rng.random() < 0.6] + page_keys, 2)
        skip = set()
        for attempt in range(2):
            docs = doc_texts(marks, skip)
            files = G.fill(pj["files"], docs)
            w, p, ab, md, base = setup_project(files)
            try:
                ctx_of = locate(ab, marks, page_keys)
                exp = {}
                for kk, (key, r) in marks.items():
                    if kk in skip:
                        continue
                    if key not in page_keys and ctx_of.get(kk) is None:
                        skip.add(kk)           # the doc comment did not attach to an entity
                        continue
                    res = L.convert(md, base, ab, ctx_of.get(kk), ref_text(r),
                                    path=None if ctx_of.get(kk) is not None else base / "page")
                    if res[0] in ("err", "other"):
                        skip.add(kk)
                    else:
                        exp[kk] = expected_of(res)
            finally:
                w.__exit__()
        docs = doc_texts(marks, skip)
        files = dict(G.fill(pj["files"], docs))
        files["pages/index.md"] = "title: Pages\n\n" + docs.get("@page", "none") + "\n"
        files["pages/sub/index.md"] = "title: Sub\n\n" + docs.get("@subpage", "none") + "\n"
        summary = docs.get("@summary", "none").split("\n")[0]
        with F.Work(files) as w2:
            data, log, err = F.full_run_inprocess(w2.root, {"page_dir": "./pages", "summary": summary},
                                                  body=docs.get("@project", "Project.") + "\n")
            stats["runs"] += 1
            chk.count(("e2e", tuple(sorted(files))), sample={"e2e_files": sorted(files), "markers": len(exp)})
            if err:
                chk.violation("failing-input", {"what": "FORD failed on a project whose references all convert",
                                                "error": err, "log": log[-1500:], "files": files}, True)
                continue
            doc = w2.root / "doc"
            occ = scan_output(doc)
            stats["markers"] += len(exp)
            stats["occurrences"] += len(occ)
            stats["pages_with_refs"] += len({pg for pg, _, _ in occ})
            probs = []
            seen = set()
            for page, kk, inner in occ:
                seen.add(kk)
                if kk not in exp:
                    continue
                if marks[kk][0] == "@summary":
                    key = "summary-links-relative-to-cwd"
                    bad = check_occurrence(doc, page, inner, exp[kk])
                    if bad:
                        chk.disagreements += 1
                        if not chk.known(key, True):
                            probs.append(f"{page}: marker {kk} {ref_text(marks[kk][1])}: {bad}")
                    continue
                bad = check_occurrence(doc, page, inner, exp[kk])
                if bad:
                    probs.append(f"{page}: marker {kk} {ref_text(marks[kk][1])} ({marks[kk][0]}): {bad}")
            missing = [kk for kk in exp if kk not in seen]
            if len(missing) > len(exp) // 2:
                probs.append(f"{len(missing)} of {len(exp)} references do not appear on any page")
            # code spans stay verbatim
            for f in doc.rglob("*.html"):
                t = f.read_text(errors="replace")
                for m in re.finditer(r"Ck(\d+)= (.*?) =\1kC", t, flags=re.S):
                    stats["code_spans"] += 1
                    kk = int(m.group(1))
                    if kk in marks and html.unescape(m.group(2)) != ref_text(marks[kk][1]):
                        probs.append(f"{f.relative_to(doc)}: reference in a code span was changed: {m.group(2)[:60]!r}")
            if probs:
                chk.violation("failing-input", {"what": "references on the pages of a full FORD run",
                                                "problems": probs[:10], "files": files}, True)
    chk.extra["end_to_end"] = stats
