"""C08 — recorded calls are exactly the user procedures a unit invokes."""
import itertools
import json

from harness import core
from harness.core import coq_str, coq_list, coq_opt, coq_bool
from harness.gen import c08gen as G
from harness.impl import c08impl as I
from findings import c08_common as W

IMPORTS = "From Ford Require Import Base.Str Sem.Calls Sem.CallsSpec Corr.C08."
THEOREMS = ["C08_strip_levels", "C08_strip_levels_stmt", "C08_keywords_filtered", "C08_literals_inert",
            "C08_literals_any_body", "C08_raw", "C08_raw_segs", "C08_once", "C08_format_inert",
            "C08_gate", "C08_gate_call", "C08_assoc_step", "C08_raw_assoc", "C08_unit_run", "C08_exact", "C08_refuted_unresolved_array", "C08_refuted_keyword_named", "C08_fixed_witnesses"]
# open regions of Sem/CallsSpec.v region_of (2, 4, 5, 6, 8, 9 and the former 3 were repaired in FORD; 7 = FORD's name tables differ from
# the program's: repaired by the C07 fix, so a hit there is a violation)
REGION_KEYS = {1: "unresolved-array", 3: "keyword-named-procedure"}
RE_TYPE = "str * list str * option str * (bool * bool) * option str * option str * str"
UNIT_TYPE = "symtab * symtab * list str * option (list str) * option (list stmt) * bool"


def cstr(x):
    """Coq term for a string that may contain tab characters"""
    if "\t" in x:
        parts = []
        for i, seg in enumerate(x.split("\t")):
            if i:
                parts.append("[ascii_of_nat 9]")
            if seg:
                parts.append(coq_str(seg))
        return "(" + " ++ ".join(parts) + ")"
    return coq_str(x)


def c_chain(ch):
    return coq_list(cstr(x) for x in ch)


# ----------------------------------------------------------------------------- string streams

ALPH = ["a", "b", "f", "if", "call", "call ", " ", "  ", "(", ")", "()", "%", " % ", ",", "=", "=>", "+", "1", "'", '"',
        "''", "x'y", "go to", "goto", "(1,2)", "format", "10 ", "end", "associate", " associate (", ":", "_", "A",
        "IF", "CALL", ".and.", "\t", "then", "a%b", "f(1)", "g(h(2))", "x(", "))", "% c ()", "end associate"]


def random_text(rng):
    return "".join(rng.choice(ALPH) for _ in range(rng.choice([1, 2, 3, 4, 5, 6, 8, 10, 14])))


def mutate(rng, x):
    """a near miss of a rendered statement"""
    if not x:
        return x
    for _ in range(rng.choice([1, 1, 2, 3])):
        p = rng.randrange(len(x) + 1)
        k = rng.random()
        if k < 0.3 and x:
            p = min(p, len(x) - 1)
            x = x[:p] + x[p + 1:]
        elif k < 0.7:
            x = x[:p] + rng.choice(["(", ")", "%", " ", "\t", ",", "=", "'", '"', "x", "call ", "if ", "()", " % ", "1", "&"]) + x[p:]
        elif k < 0.8 and x:
            p = min(p, len(x) - 1)
            x = x[:p] + x[p].swapcase() + x[p + 1:]
        elif k < 0.9:
            q = rng.randrange(len(x) + 1)
            a, b = min(p, q), max(p, q)
            x = x[:a] + x[b:]
        else:
            x = x.replace("(", " (", 1) if rng.random() < 0.5 else x.replace(" ", "", 1)
    return x


def sample_statements(rng, n):
    """rendered statements (text, ast) from the grammar over a small fixed environment"""
    env = G.Env()
    env.funcs = [("f", 1), ("g", 2), ("sum2", 1), ("iff", 0)]
    env.subs = [("sub", 1), ("sub0", 0), ("callme", 2), ("wait_for", 0)]
    env.arrays = ["arr", "sums", "ifs", "size_v"]
    env.scalars = ["i", "n", "x", "ios"]
    t1 = {"name": "t1", "arrays": ["items"], "typed": [], "typed_arrays": [], "fbinds": ["get"], "sbinds": ["run"], "targets": {}}
    t2 = {"name": "t2", "arrays": ["vals"], "typed": [("inner", "t1")], "typed_arrays": [("parts", "t1")], "fbinds": ["total"],
          "sbinds": ["reset"], "targets": {}}
    env.types = {"t1": t1, "t2": t2}
    env.objs = [("obj", "t2"), ("p", "t1")]
    env.unknown_procs = ["ext_fn"]
    env.knobs = {"p_label": 0.15, "labelled_bare_call": True, "format_nospace": True, "assoc_expr": True}
    out = []
    while len(out) < n:
        for st in G.gen_body(rng, env, 3, rng.choice([1, 2, 3])):
            st = G.recase_stmt(rng, st, rng.choice([0.0, 0.0, 0.3, 0.6]))
            out.append((G.r_stmt(st), st))
    return out[:n]


def re_term(x):
    calls, sub, (fm, ea), asc, gt, masked = I.regexes(x)
    return (f"({cstr(x)}, {coq_list(cstr(c) for c in calls)}, {coq_opt(sub, cstr)}, "
            f"({coq_bool(fm)}, {coq_bool(ea)}), {coq_opt(asc, cstr)}, {coq_opt(gt, cstr)}, {cstr(masked)})")


def granular(chk, rng, quick):
    stmts = sample_statements(rng, 250 if quick else 4000)
    texts = [t for t, _ in stmts]
    corpus = json.load(open(core.VERIF / "corpus" / "C08" / "strings.json"))["strings"]
    xs = corpus + texts + [mutate(rng, rng.choice(texts)) for _ in range(450 if quick else 9000)] \
        + [random_text(rng) for _ in range(500 if quick else 9000)]
    xs = [x for x in xs if core.is_ascii(x) and "\n" not in x]
    # A. the regular expressions and the masking loop
    masked = [I.mask(x) for x in xs]
    res = chk.coq_judge(IMPORTS, RE_TYPE, "judge_re", [re_term(x) for x in xs])
    for i, x in enumerate(xs):
        chk.count(("re", x), nontrivial="(" in x, sample={"text": x, "CALL_RE": I.regexes(x)[0]} if i == 3 else None)
    if res is not None:
        chk.traces += len(xs)
        for idx in sorted(res)[:3]:
            chk.violation("broken-correspondence", {"what": "regular expression recognisers vs Python re", "text": xs[idx],
                                                    "impl": [str(v) for v in I.regexes(xs[idx])]}, False)
    # B. strip_paren on the masked statements, every level up to the nesting depth + 1
    cs = []
    for x in masked:
        depth = 0
        lvl = 0
        for ch in x:
            lvl += ch == "("
            depth = max(depth, lvl)
            lvl -= ch == ")"
        for d in range(0, min(depth, 6) + 2):
            cs.append((x, d, I.strip_paren(x, d)))
    res = chk.coq_judge(IMPORTS, "str * nat * list str", "judge_strip",
                        [f"({cstr(x)}, {d}, {coq_list(cstr(o) for o in out)})" for x, d, out in cs])
    for x, d, out in cs:
        chk.count(("strip", x, d), nontrivial=bool(out))
    if res is not None:
        chk.traces += len(cs)
        for idx in sorted(res)[:3]:
            x, d, out = cs[idx]
            chk.violation("broken-correspondence", {"what": "utils.strip_paren vs model", "line": x, "retlevel": d,
                                                    "impl": out}, False)
    # C. _add_procedure_calls with associations and earlier calls
    acases = []
    batch_pool = [["a => f(x)", "b => y%z(i)"], ["aa => obj%items", "bb=>arr"], ["c => a"], ["t => arr(1:3) + 1"],
                  ["sel => obj % inner", "A => B"], ["broken"], ["x => y => z"], ["n => size(arr)"], [],
                  ["aa => f(1)", "sel => p"], ["bb => aa", "cc => sel%inner"], ["aa => arr", "aa => sums"],
                  ["sel => obj%inner", "cc => g(2)"]]
    prev_pool = [[], [["f"]], [["obj", "run"]], [["sub0"], ["a", "get"]]]
    named_pool = [[], [], [["if"]], [["size"], ["obj", "wait"]], [["write"], ["sum"], ["if"]]]
    for x in masked[:len(corpus) + (300 if quick else 4000)] + [mutate(rng, rng.choice(masked)) for _ in range(100 if quick else 3000)]:
        if not x:
            continue     # never reached: the cascade calls the method only for lines a pattern matched on
        batches = [rng.choice(batch_pool) for _ in range(rng.choice([0, 1, 2, 2, 3]))]
        prev = rng.choice(prev_pool)
        named = rng.choice(named_pool)
        acases.append((batches, prev, named, x, I.add_calls2(batches, prev, named, x)))
    # nested ASSOCIATE constructs that bind the same name again: every ordered pair of such batches
    rebind = [b for b in batch_pool if any(i.split("=>")[0].strip().lower() in ("aa", "bb", "cc", "sel") for i in b if "=>" in i)]
    for b1 in rebind:
        for b2 in rebind:
            for x in ["x = aa(1) + sel%items(2)", "call sel%run()", "call cc%reset", "y = bb(i) + cc(2)"]:
                acases.append(([b1, b2], [], [], x, I.add_calls2([b1, b2], [], [], x)))
    terms = []
    for batches, prev, named, x, out in acases:
        terms.append(f"({coq_list(coq_list(cstr(i) for i in b) for b in batches)}, {coq_list(c_chain(c) for c in prev)}, "
                     f"{coq_list(c_chain(c) for c in named)}, {cstr(x)}, "
                     + coq_opt(out, lambda o: f"({coq_list(c_chain(c) for c in o[0])}, {coq_list(c_chain(c) for c in o[1])})") + ")")
        chk.count(("add", str(batches), str(prev), str(named), x), nontrivial=bool(out) and (out[0] != prev or out[1] != named),
                  sample={"line": x, "batches": batches, "calls": out[0], "candidates": out[1]}
                  if len(chk.samples) < 3 and out and out[0] else None)
    res = chk.coq_judge(IMPORTS, "list (list str) * list chain * list chain * str * option (list chain * list chain)",
                        "judge_add", terms)
    if res is not None:
        chk.traces += len(acases)
        dups = [i for i in sorted(res) if res[i] & 2]
        for idx in dups[:3] + [i for i in sorted(res) if not res[i] & 2][:3]:
            batches, prev, named, x, out = acases[idx]
            if res[idx] & 2:     # property: each call recorded once
                chk.violation("failing-input", {"what": "_add_procedure_calls records a call chain twice", "line": x,
                                                "batches": batches, "earlier": prev, "candidates": named,
                                                "impl": None if out is None else list(out)}, True)
            else:
                chk.violation("broken-correspondence", {"what": "_add_procedure_calls vs model", "line": x,
                                                        "batches": batches, "earlier": prev, "candidates": named,
                                                        "impl": None if out is None else list(out)}, False)
    # D. _add_procedure_calls on statements whose AST is known: model AND Spec (references of the statement)
    scases = []
    # in every run: references to functions spelled like INTRINSICS entries in statements that begin with a longer name
    forced = []
    for fn in G.INTRINSIC_NAMED_PROCS:
        for nargs in (0, 1, 2):
            for st, _ in G.prefix_statements(fn, nargs):
                for p_case in (0.0, 0.5):
                    st_ = G.recase_stmt(rng, st, p_case) if p_case else st
                    forced.append((G.r_stmt(st_), st_))
    for text, st in forced + stmts:
        if st[0] in ("endassoc", "format", "goto"):
            continue       # not handed to the method as they stand
        line = I.mask(text)
        prev = rng.choice(prev_pool)
        scases.append((prev, st, line, I.add_calls2([], prev, [], line)))
        chk.count(("adds", str(prev), line), nontrivial="(" in line)
    pair = lambda o: f"({coq_list(c_chain(c) for c in o[0])}, {coq_list(c_chain(c) for c in o[1])})"
    terms = [f"({coq_list(c_chain(c) for c in prev)}, {G.c_stmt(st)}, {cstr(line)}, {coq_opt(out, pair)})"
             for prev, st, line, out in scases]
    res = chk.coq_judge(IMPORTS, "list chain * stmt * str * option (list chain * list chain)", "judge_add_stmt", terms,
                        shard=60)
    if res is not None:
        chk.traces += len(scases)
        spec = [i for i in sorted(res) if res[i] & 2]
        for idx in spec[:3] + [i for i in sorted(res) if not res[i] & 2][:2]:
            prev, st, line, out = scases[idx]
            if res[idx] & 2:
                chk.disagreements += 1
                chk.violation("failing-input", {"what": "_add_procedure_calls: the chains recorded for the statement differ from "
                                                        "its references (missing, extra or repeated)", "line": line,
                                                "batches": [], "earlier": prev, "candidates": [],
                                                "impl": None if out is None else list(out)}, True)
            else:
                chk.violation("broken-correspondence", {"what": "_add_procedure_calls vs model (statement with AST)",
                                                        "line": line, "batches": [], "earlier": prev, "candidates": [],
                                                        "impl": None if out is None else list(out)}, False)
    chk.extra["granular"] = {"regex_strings": len(xs), "strip_cases": len(cs), "add_cases": len(acases),
                             "add_cases_with_ast": len(scases)}


# ----------------------------------------------------------------------------- end to end

KNOB_SETS = [{}, {}, {}, {"shadow": True}, {"unknown_array": True}, {"intrinsic_named": True},
             {"labelled_bare_call": True, "p_label": 0.3}, {"format_nospace": True}, {"assoc_expr": True},
             {"goto_expr": True}, {"shadow": True, "p_label": 0.2}, {"intrinsic_named": True, "shadow": True, "p_label": 0.1},
             {"intrinsic_named": True, "prefix_stmt": 0.35}, {"rebind_assoc": 0.3}]
# in every run: projects in which the only reference of a unit to a function spelled like an INTRINSICS entry stands
# in a statement that begins with a longer name (`rank_local = rank(1)`, `10 time_v = time()`, ...)
# ... and projects with nested ASSOCIATE constructs whose inner one declares the outer associate name again
FORCED_KNOBS = [{"intrinsic_named": True, "prefix_stmt": 1.0, "p_case": 0.0}, {"intrinsic_named": True, "prefix_stmt": 1.0},
                {"rebind_assoc": 1.0, "p_case": 0.0}, {"rebind_assoc": 1.0}, {"rebind_assoc": 0.7}]


def unit_term(tb_ford, tb_true, srcs, impl, asts, strict=True):
    a = "None" if asts is None else "(Some " + coq_list(G.c_stmt(s) for s in asts) + ")"
    i = coq_opt(impl, lambda o: coq_list(cstr(c) for c in o))
    return (f"({G.c_symtab(tb_ford)}, {G.c_symtab(tb_true)}, {coq_list(cstr(s) for s in srcs)}, {i}, {a}, "
            f"{coq_bool(strict)})")


def recase_text(rng, text):
    """letter case Fortran ignores: keywords and identifiers, word by word (outside character literals)"""
    out, q, word = [], None, []

    def flush():
        if word:
            w = "".join(word)
            if w[0].isalpha() and rng.random() < 0.35:
                w = G.recase_name(rng, w)
            out.append(w)
            word.clear()
    for ch in text:
        if q:
            out.append(ch)
            if ch == q:
                q = None
        elif ch in "'\"":
            flush()
            q = ch
            out.append(ch)
        elif ch.isalnum() or ch == "_":
            word.append(ch)
        else:
            flush()
            out.append(ch)
    flush()
    return "".join(out)


def respace(rng, text):
    """blanks Fortran ignores: between a name and '(', around '%' (outside character literals)"""
    out, q = [], None
    for i, ch in enumerate(text):
        if q:
            out.append(ch)
            if ch == q:
                q = None
            continue
        if ch in "'\"":
            q = ch
            out.append(ch)
            continue
        if ch == "(" and i and (text[i - 1].isalnum() or text[i - 1] == "_") and rng.random() < 0.3:
            out.append(" " * rng.choice([1, 1, 2]))
        if ch == "%" and rng.random() < 0.3:
            out.append(" % " if rng.random() < 0.5 else "% ")
            continue
        out.append(ch)
    return "".join(out)


def end_to_end(chk, rng, nproj):
    cases = []
    stats = {"projects": 0, "units": 0, "ford_errors": 0, "stmts": 0, "respaced_projects": 0, "lower_projects": 0,
             "prefix_stmt_units": 0, "rebind_assoc_units": 0}
    kinds = {}
    for k in range(nproj + len(FORCED_KNOBS)):
        knobs = dict(FORCED_KNOBS[k] if k < len(FORCED_KNOBS) else rng.choice(KNOB_SETS))
        proj = G.gen_project(rng, knobs)
        strict = rng.random() < 0.7
        if not strict:     # blanks and letter case Fortran ignores, keywords included
            knobs["respace"] = lambda text, _r=rng: recase_text(_r, respace(_r, text))
        files = G.render_project(rng, proj, knobs)
        lower = rng.random() < 0.2      # the `lower` option: FORD lower-cases every statement first
        stats["lower_projects"] += lower
        err, res = I.run_project(files, lower=True) if lower else I.run_project(files)
        stats["projects"] += 1
        stats["respaced_projects"] += not strict
        if err:
            stats["ford_errors"] += 1
            chk.violation("failing-input", {"what": "FORD raised on a generated project", "error": err, "files": files,
                                            "knobs": knobs}, True)
            continue
        for mod, unit, host, path in G.units_of(proj):
            r = res.get(path)
            if r is None:
                chk.violation("failing-input", {"what": "unit missing from FORD's tree", "unit": path, "files": files}, True)
                continue
            tb_true = G.truth_table(proj, mod, unit, host)
            tb_ford = r["tab"] or tb_true
            srcs = list(unit.get("srcs") or [G.r_stmt(s) for s in unit["body"]])
            if unit["kind"] == "function":
                srcs = srcs + [f"{unit['name']} = 1"]
                asts = unit["body"] + [("form", None, True, ("FAssign", G.name(unit["name"]), G.lit("1")))]
            else:
                asts = unit["body"]
            cases.append((path, tb_ford, tb_true, srcs, r["calls"], asts, files,
                          {k: v for k, v in knobs.items() if k != "respace"}, strict))
            stats["units"] += 1
            stats["prefix_stmt_units"] += bool(unit.get("prefix_stmt"))
            stats["rebind_assoc_units"] += bool(unit.get("rebind_assoc"))
            stats["stmts"] += len(srcs)
            for s_ in asts:
                k_ = s_[3][0] if s_[0] == "form" else s_[0]
                kinds[k_] = kinds.get(k_, 0) + 1
            chk.count(("unit", tuple(srcs)), nontrivial=bool(r["calls"]),
                      sample={"unit": ".".join(path), "statements": srcs[:6], "calls": r["calls"]}
                      if len(chk.samples) < 5 and r["calls"] else None)
    terms = [unit_term(c[1], c[2], c[3], c[4], c[5], c[8]) for c in cases]
    res = chk.coq_judge(IMPORTS, UNIT_TYPE, "judge_unit", terms, shard=12)
    region_hits = {}
    if res is not None:
        chk.traces += len(cases)
        shown = 0
        for idx, code in sorted(res.items()):
            path, tb_ford, tb_true, srcs, calls, asts, files, knobs, strict = cases[idx]
            payload = {"unit": ".".join(path), "statements": srcs, "impl": calls, "code": code, "knobs": knobs, "files": files}
            if code >= 1024:
                chk.obligation("renderer-agrees-with-coq", False, f"unit {path}: {srcs}")
                continue
            region = code >> 2
            if code & 1:
                chk.violation("failing-input" if (code & 2 and not region) else "broken-correspondence",
                              dict(payload, what="unit.calls after correlate vs model"), bool(code & 2) and not region)
            elif code & 2:
                chk.disagreements += 1
                key = REGION_KEYS.get(region)
                if key and chk.known(key, True):
                    region_hits[key] = region_hits.get(key, 0) + 1
                else:
                    chk.violation("failing-input", dict(payload, what="recorded calls differ from the user procedures the "
                                                                       "unit invokes", region=region), True)
    # how many units lie inside the hypothesis of C08_exact (evaluated in Coq with the true tables)
    rterms = [f"({G.c_symtab(c[2])}, {coq_list(cstr(s) for s in c[3])}, {coq_list(G.c_stmt(s) for s in c[5])})"
              for c in cases if c[8]]
    rres = chk.coq_judge(IMPORTS, "symtab * list str * list stmt", "judge_resolvable", rterms, shard=12)
    if rres is not None:
        stats["units_resolvable"] = sum(1 for v in rres.values() if v == 1)
        bad = [i for i, v in rres.items() if v == 2]
        if bad:
            chk.obligation("exactness-conclusion-on-resolvable-units", False, str(cases[bad[0]][3]))
    stats["statement_kinds"] = dict(sorted(kinds.items()))
    chk.extra["end_to_end"] = stats
    chk.extra["known_region_cases"] = region_hits


def replay_findings(chk):
    for key in W.WITNESSES:
        bad = W.still_fails(key)
        if key in W.FIXED:
            chk.count(("regression", key), sample=None)
            if bad:      # a repaired defect is back
                got, expected = W.observe(key)
                chk.violation("failing-input", {"what": "regression: repaired defect " + key, "source": W.WITNESSES[key][0],
                                                "unit": ".".join(W.WITNESSES[key][1]), "impl": got,
                                                "expected": sorted(expected)}, True)
        else:
            chk.known(key, bad)


def run(chk):
    chk.translate(["t1_intrinsics.py"])
    chk.build(["theories/Corr/C08.vo"])      # the judge needs the definitions only: it still runs when a proof breaks
    chk.build(["theories/Props/C08.vo"])
    chk.props("theories/Props/C08.v", THEOREMS)
    quick = chk.tier == "quick"
    granular(chk, chk.rng, quick)
    end_to_end(chk, chk.rng, 24 if quick else 400)
    replay_findings(chk)
    if not quick:
        chk.coqchk(["Ford.Props.C08"])


def replay(chk, rep):
    import shutil
    try:
        return _replay(chk, rep)
    finally:
        shutil.rmtree(chk.tmp, ignore_errors=True)


def _replay(chk, rep):
    chk.build(["theories/Corr/C08.vo"])
    if "files" in rep:
        err, res = I.run_project(rep["files"])
        print("FORD:", err or {".".join(k): v["calls"] for k, v in res.items()})
        print("recorded at the time:", rep.get("unit"), rep.get("impl"))
        return 1 if (err or res.get(tuple(rep.get("unit", "").split(".")), {}).get("calls") == rep.get("impl")) else 0
    if "text" in rep:
        out = chk.coq_judge(IMPORTS, RE_TYPE, "judge_re", [re_term(rep["text"])])
        print("regexes:", I.regexes(rep["text"]), "judge:", out)
        return 1 if out else 0
    if "line" in rep and "batches" in rep:
        if "candidates" in rep:
            out = I.add_calls2(rep["batches"], rep["earlier"], rep["candidates"], rep["line"])
            out = None if out is None else list(out)
        else:
            out = I.add_calls(rep["batches"], rep["earlier"], rep["line"])
        print("_add_procedure_calls:", out, "recorded at the time:", rep.get("impl"))
        return 1 if out == rep.get("impl") else 0
    if "line" in rep and "retlevel" in rep:
        x, d = rep["line"], rep["retlevel"]
        out = chk.coq_judge(IMPORTS, "str * nat * list str", "judge_strip",
                            [f"({cstr(x)}, {d}, {coq_list(cstr(o) for o in I.strip_paren(x, d))})"])
        print("strip_paren:", I.strip_paren(x, d), "judge:", out)
        return 1 if out else 0
    print(rep)
    return 0


def finish(chk):
    return chk.finish(
        level_note="Coq theorems about the call-recording model (strip_paren levels for every balanced string, raw "
                   "calls of every rendered statement by induction on the expression, keyword table, exactness under "
                   "[resolvable], refutation witnesses); model tied to ford.sourceform/ford.utils by differential runs "
                   "at four granularities and to ford/intrinsics.py by translator T1",
        trusted_base=["Coq 8.16.1 kernel (+ vm_compute for case evaluation, witnesses and the keyword table)",
                      "hand-written model Sem/Calls.v (regex recognisers written from the pattern text, validated "
                      "against Python re on every run)", "translate/t1_intrinsics.py", "harness generators/adapters "
                      "(harness/gen/c08gen.py, harness/impl/c08impl.py)", "7-bit ASCII, statements without newline, no "
                      "preprocessor; project-wide unique derived-type names in generated projects"],
        rule="strings: statements rendered from the grammar, mutated near misses and random token strings (distinct = "
             "distinct text, non-trivial = contains a parenthesis); strip_paren per (text, level); _add_procedure_calls "
             "per (associations, earlier calls, line); units: executable parts of generated modules/programs, distinct "
             "= distinct statement list, non-trivial = FORD recorded at least one call",
        checker_cmd="translate/t1_intrinsics.py && make theories/Props/C08.vo && coqc theories/Props/C08.v (Print Assumptions)",
        assumptions=["Python's re semantics for CALL_RE, SUBCALL_RE, QUOTES_RE, FORMAT_RE, ARITH_GOTO_RE, ASSOCIATE_RE, "
                     "END_RE as modelled by the recognisers of Sem/Calls.v (differentially tested)",
                     "the reader delivers each statement trimmed and re-joined (property C02)",
                     "name resolution tables are those FORD builds (property C07); the Spec uses the tables Fortran's "
                     "scoping gives for the generated program"])
