"""C19 — a run touches nothing outside its output directory."""
import hashlib
import json
import os
import pathlib
import shutil
import stat
import subprocess
import sys
import tempfile
import time
import traceback
from concurrent.futures import ThreadPoolExecutor

from harness import core
from harness.core import coq_list, coq_bool, coq_opt
from harness.gen import c19_sandbox as S
from harness.impl import fordrun as F
from harness.impl import fstrace

IMPORTS = "From Coq Require Import NArith.\nFrom Ford Require Import Base.Str Out.FsModel Corr.C19."
THEOREMS = ["C19_targets_confined", "C19_page_locations_inside", "C19_former_witness_copy_subdir",
            "C19_former_witness_ordered_subpage", "C19_prefix_safe", "C19_prefix_safe_eq",
            "C19_op_local", "C19_copies_are_not_links", "C19_refusal", "C19_refusal_exact", "C19_no_source_deleted",
            "C19_discovered_sources_kept", "C19_out_excluded", "C19_discovered_sources_kept_cfg",
            "C19_out_clean"]
PKG = "<ford>"


# ---------------------------------------------------------------------------- paths and snapshots

def pkg_dir():
    import ford
    return os.path.realpath(os.path.dirname(ford.__file__))


class Canon:
    """absolute path string -> components below the sandbox root ('/' of the model)"""

    def __init__(self, sb):
        self.sb = os.path.realpath(sb)
        self.pkg = pkg_dir()

    def comps(self, p):
        p = os.fspath(p)
        for root, head in ((self.sb, []), (self.pkg, [PKG])):
            if p == root:
                return tuple(head)
            if p.startswith(root + "/"):
                return tuple(head + p[len(root) + 1:].split("/"))
        return tuple(["<abs>"] + [c for c in p.split("/") if c])

    def rpath(self, text):
        """a path as written in the project file"""
        text = os.fspath(text)
        if text.startswith("/"):
            c = self.comps(os.path.normpath(text)) if (text == self.sb or text.startswith(self.sb + "/")) \
                else tuple(["<abs>"] + text.split("/"))
            return True, list(c)
        return False, text.split("/")


def file_hash(p):
    h = hashlib.sha1()
    with open(p, "rb") as f:
        h.update(f.read())
    return h.hexdigest()


def snapshot(root):
    """{components: (kind, content hash | link text | '', mode, mtime_ns)}, symlinks not followed;
    a symlink entry also carries where it leads (os.path.realpath, as components below root, also
    when the target is missing) and whether that is a regular file"""
    rootreal = os.path.realpath(root)

    def below(p):
        if p == rootreal:
            return ()
        if p.startswith(rootreal + "/"):
            return tuple(p[len(rootreal) + 1:].split("/"))
        return tuple(["<abs>"] + [c for c in p.split("/") if c])
    snap = {(): ("d", "", stat.S_IMODE(os.lstat(root).st_mode), 0)}

    def walk(d, rel):
        with os.scandir(d) as it:
            entries = sorted(it, key=lambda e: e.name)
        for e in entries:
            st = e.stat(follow_symlinks=False)
            key = rel + (e.name,)
            mode = stat.S_IMODE(st.st_mode)
            if stat.S_ISLNK(st.st_mode):
                tgt = os.readlink(e.path)
                snap[key] = ("l", tgt, mode, 0, below(os.path.realpath(e.path)), os.path.isfile(e.path))
            elif stat.S_ISDIR(st.st_mode):
                snap[key] = ("d", "", mode, 0)
                walk(e.path, key)
            else:
                snap[key] = ("f", file_hash(e.path), mode, st.st_mtime_ns)
    walk(root, ())
    return snap


class Ids:
    """small natural numbers for content hashes (model file system) and metadata tuples; the
    package's assets keep their numbers, everything else is numbered afresh for every sandbox
    (Coq's nat literals are unary: the numbers must stay small)"""

    def __init__(self):
        self.fixed = {}
        self.content = {}
        self.meta = {}

    def freeze(self):
        self.fixed = dict(self.content)

    def new_sandbox(self):
        self.content = dict(self.fixed)
        self.meta = {}

    def cid(self, h, create):
        if h not in self.content:
            if not create:
                return 0            # content the run produced itself
            self.content[h] = len(self.content) + 1
        return self.content[h]

    def mid(self, t):
        return self.meta.setdefault(t, len(self.meta) + 1)


class StrDict:
    """every distinct string is defined once (Definition wN : str := s "...") and referred to by
    name: elaborating a string literal costs far more than elaborating an identifier"""

    def __init__(self):
        self.names = {}

    def ref(self, x):
        x = str(x)
        if x not in self.names:
            assert core.is_ascii(x) and '"' not in x, repr(x)
            self.names[x] = f"w{len(self.names)}"
        return self.names[x]

    def defs(self):
        return "\n".join(f"Definition {n} : str := {core.coq_str(x)}." for x, n in self.names.items())


WORDS = StrDict()


def coq_str(x):
    return WORDS.ref(x)


def coq_path(c):
    return coq_list(coq_str(x) for x in c)


def node_entries(snap, ids, create):
    out = {}
    for key, e in snap.items():
        if e[0] == "d":
            out[key] = "Dir"
        elif e[0] == "f":
            out[key] = f"File {ids.cid(e[1], create)}"
        else:
            out[key] = f"(Link {coq_path(e[4])})"
    return out


def meta_entries(snap, ids):
    return {key: f"({coq_bool(e[0] == 'd')}, {ids.mid(e[:4])}%N)" for key, e in snap.items()}


def coq_entries(d):
    return coq_list(f"({coq_path(k)}, {v})" for k, v in d.items())


def coq_entries_shared(d, base, base_name):
    """d as 'changed-or-new entries ++ base' when nothing of base was removed"""
    if base_name and all(k in d for k in base):
        new = {k: v for k, v in d.items() if base.get(k) != v}
        return f"({coq_entries(new)} ++ {base_name})"
    return coq_entries(d)


_pkg_listing = {}


def pkg_listing(ids):
    root = pkg_dir()
    snap = {(PKG,): ("d", "", 0o755, 0)}
    for d in ("css", "js", "webfonts", "search"):
        sub = snapshot(os.path.join(root, d))
        for k, e in sub.items():
            snap[(PKG, d) + k] = e
    snap[(PKG, "favicon.png")] = ("f", file_hash(os.path.join(root, "favicon.png")), 0o644, 0)
    return node_entries(snap, ids, True)


# ---------------------------------------------------------------------------- running FORD

def instantiate(sc, sb_path):
    """scenarios are generated with the placeholder @SB@ for the absolute sandbox path"""
    return json.loads(json.dumps(sc).replace("@SB@", sb_path))


class Sandbox:
    def __init__(self, rng, sc):
        self.tmp = tempfile.mkdtemp(prefix="verif_c19_")
        self.sb = os.path.join(os.path.realpath(self.tmp), "a", "b", "sb")
        self.template = sc
        self.sc = instantiate(sc, self.sb)
        self.files = None
        self.rng = rng
        self.canon = None

    def build(self):
        if os.path.exists(self.sb):
            for root, dirs, files in os.walk(self.sb):      # a faulty run may leave odd modes behind
                for d in dirs:
                    try:
                        os.chmod(os.path.join(root, d), 0o755)
                    except OSError:
                        pass
            shutil.rmtree(self.sb)
        if self.files is None:
            self.files = S.scenario_files(self.rng, self.sc)
            base = {"project": "verif", "preprocess": "false"}
            if not self.sc.get("pool"):
                base["parallel"] = "0"      # the tracer cannot see into pool workers
            self.files["proj/proj.md"] = F.project_md({**base, **self.sc["opts"]})
        S.build(self.sb, self.files, self.sc["links"], self.sc["dirs"])
        self.canon = Canon(self.sb)
        self.proj = pathlib.Path(self.sb) / "proj"

    def links(self):
        out = []
        for root, dirs, files in os.walk(self.sb):
            for n in dirs + files:
                p = os.path.join(root, n)
                if os.path.islink(p):
                    out.append((self.canon.comps(p), self.canon.comps(os.path.realpath(p))))
        return sorted(out)

    def close(self):
        shutil.rmtree(self.tmp, ignore_errors=True)


def make_guard(tmp):
    """abort (and record) any mutating call that leaves the temp dir: a broken FORD must not be
    able to damage the machine the check runs on"""
    def guard(t, event, paths):
        for p in paths:
            if event != "exec" and not (p == tmp or p.startswith(tmp + "/")):
                raise PermissionError(f"verif guard: {event} {p}")
    return guard


def run_ford(sbx, fault_at=None, fault_exc=None):
    """load_settings + parse_arguments + main in this process under the tracer"""
    import ford
    import ford.output
    F.reset_globals()
    captured = {}
    orig_init = ford.output.Documentation.__init__

    def spy(self, *a, **k):
        captured["docs"] = self
        return orig_init(self, *a, **k)
    ford.output.Documentation.__init__ = spy
    cwd = os.getcwd()
    os.chdir(sbx.proj)
    settings = err = None
    pf = None
    try:
        with F.quiet() as buf, fstrace.tracing(fault_at, fault_exc) as t:
            t.guard = make_guard(os.path.realpath(sbx.tmp))
            try:
                text = (sbx.proj / "proj.md").read_text()
                docs, settings = ford.load_settings(text, sbx.proj, "proj.md")
                pf = open(sbx.proj / "proj.md")
                cli = {"project_file": pf}
                cli.update(sbx.sc.get("cli") or {})
                data, docs = ford.parse_arguments(cli, docs, settings, sbx.proj)
                ford.main(data, docs)
            except SystemExit as e:
                err = f"SystemExit:{e.code}"
            except fstrace.Crash:
                err = "Crash"
            except Exception as e:  # noqa
                err = f"{type(e).__name__}:{e}"
    finally:
        if pf:
            pf.close()
        os.chdir(cwd)
        ford.output.Documentation.__init__ = orig_init
    return settings, captured.get("docs"), t, err, buf.getvalue()


def rerun_writeout(sbx, settings, docs, fault_at, fault_exc):
    """ford.main's tail on the already built Documentation object"""
    import ford
    cwd = os.getcwd()
    os.chdir(sbx.proj)
    err = None
    try:
        with F.quiet() as buf, fstrace.tracing(fault_at, fault_exc) as t:
            t.guard = make_guard(os.path.realpath(sbx.tmp))
            try:
                docs.writeout()
                if settings.externalize:
                    ford.dump_modules(docs.project, path=settings.output_dir)
            except SystemExit as e:
                err = f"SystemExit:{e.code}"
            except fstrace.Crash:
                err = "Crash"
            except Exception as e:  # noqa
                err = f"{type(e).__name__}:{e}"
    finally:
        os.chdir(cwd)
    return t, err


def graph_names(docs):
    """imgfile of every graph that GraphManager.output_graphs renders, in its iteration order"""
    gm = getattr(docs, "graphs", None)
    if gm is None or not docs.data.get("graph") or not gm.save_graphs:
        return []
    out = []

    def add(g):
        if len(g.added) > len(g.root):
            out.append(str(g.imgfile))
    for m in gm.modules:
        add(m.usesgraph), add(m.usedbygraph)
    for t in gm.types:
        add(t.inhergraph), add(t.inherbygraph)
    for p in gm.procedures:
        add(p.callsgraph), add(p.calledbygraph)
    for p in gm.programs:
        add(p.callsgraph), add(p.usesgraph)
    for f in gm.sourcefiles:
        add(f.afferentgraph), add(f.efferentgraph)
    for b in gm.blockdata:
        add(b.usesgraph)
    for g in [getattr(gm, n, None) for n in ("usegraph", "typegraph", "callgraph", "filegraph")]:
        if g:
            add(g)
    return out


# ---------------------------------------------------------------------------- Coq terms

def rp_term(canon, text):
    a, c = canon.rpath(text)
    return f"(rp {coq_bool(a)} {coq_path(c)})"


def rcfg_term(canon, sc):
    o = sc["opts"]
    cli_out = (sc.get("cli") or {}).get("output_dir")
    opt = lambda k: coq_opt(o.get(k), lambda v: rp_term(canon, v))
    flag = lambda k, d: coq_bool(str(o.get(k, d)).lower() == "true")
    return ("{| r_out := %s; r_out_meta := %s; r_exclude_dir := %s; r_graph_dir := %s; r_src := %s; "
            "r_media := %s; r_css := %s; r_favicon := %s; r_mathjax := %s; r_page_dir := %s; "
            "r_incl_src := %s; r_graph := %s; r_search := %s; r_externalize := %s |}") % (
        rp_term(canon, cli_out or o["output_dir"]), rp_term(canon, o["output_dir"]),
        coq_list(rp_term(canon, x) for x in o.get("exclude_dir", [])), opt("graph_dir"),
        coq_list(rp_term(canon, x) for x in o["src_dir"]), opt("media_dir"), opt("css"), opt("favicon"),
        opt("mathjax_config"), opt("page_dir"),
        flag("incl_src", "true"), flag("graph", "true"), flag("search", "true"), flag("externalize", "false"))


def proj_term(canon, docs):
    if docs is None:
        return "{| p_docs := []; p_lists := []; p_srcfiles := []; p_graphs := [] |}", "[]", True
    ascii_ok = True
    dl = [(str(p.obj.get_dir()), str(p.obj.ident)) for p in docs.docs]
    ll = [str(p.out_page) for p in docs.lists]
    sf = [(canon.comps(os.path.normpath(str(f.path))), str(f.name)) for f in docs.project.allfiles] \
        if docs.data.get("incl_src") else []
    gn = graph_names(docs)
    # candidate pages: every page FORD built (its names are the components of its location, plus
    # the .md file name for a page that is not an index), and every ordered_subpage entry that the
    # loop of get_page_tree must skip -- the model decides again which of them become pages
    pages = []
    for p in docs.pagetree:
        n = p.obj
        loc = [c for c in pathlib.PurePosixPath(str(n.location)).parts]
        stem = str(n.filename.stem)
        is_index = stem == "index"
        entries = loc if is_index else loc + [stem + ".md"]
        cps = []
        for it in n.copy_subdir:
            a, c = canon.rpath(os.fspath(it))
            cps.append(f"(rp {coq_bool(a)} {coq_path(c)})")
        pages.append(f"(cd {coq_path(entries)} {coq_bool(is_index)} {coq_str(stem)} {coq_list(cps)} "
                     f"{coq_list(coq_str(str(f)) for f in n.files)})")
        if is_index:
            for e in n.ordered_subpages:
                e = str(e)
                if e and ("/" in e or e[0] == "." or e[-1] == "~"):
                    pages.append(f"(cd {coq_path(loc + [e])} false {coq_str('skipped')} [] [])")
    pt = ("{| p_docs := %s; p_lists := %s; p_srcfiles := %s; p_graphs := %s |}" % (
        coq_list(f"({coq_str(d)}, {coq_str(i)})" for d, i in dl), coq_list(coq_str(x) for x in ll),
        coq_list(f"({coq_path(c)}, {coq_str(n)})" for c, n in sf), coq_list(coq_str(x) for x in gn)))
    return pt, coq_list(pages), ascii_ok


KINDS = {"RmTree": 1, "Unlink": 1, "MkDir": 1, "MkDirParents": 1, "Write": 1, "Copy": 2, "CopyTree": 2,
         "Rename": 2}


def canon_ops(canon, ops):
    """tracer operations -> canonical list; the touches that ford.output.copytree applies to the
    copies it has just made are folded into the CopyTree"""
    out, last_ct = [], None
    for op in ops:
        kind, target = op[0], op[1]
        if kind == "Touch" and last_ct is not None and (target == last_ct or target.startswith(last_ct + "/")):
            continue
        last_ct = target if kind == "CopyTree" else None
        if kind in KINDS and KINDS[kind] == 1:
            out.append((kind, canon.comps(target)))
        elif kind in KINDS:
            out.append((kind, canon.comps(op[2]), canon.comps(target)))
        else:
            out.append(("Write", ("<stray>", kind) + canon.comps(target)))
    return out


def ops_term(ops):
    return coq_list("(" + " ".join([o[0]] + [coq_path(c) for c in o[1:]]) + ")" for o in ops)


def show_ops(ops):
    return [o[0] + " " + " ".join("/" + "/".join(c) for c in o[1:]) for o in ops]


def settings_paths(canon, settings):
    c = lambda p: canon.comps(os.fspath(p))
    return (c(settings.output_dir), None if settings.graph_dir is None else c(settings.graph_dir),
            [c(x) for x in settings.src_dir], [c(x) for x in settings.exclude_dir])


class Cases:
    """collects judge cases; listings shared between the cases of one sandbox go to [defs]"""

    def __init__(self):
        self.terms, self.info, self.defs, self.case_defs = [], [], [], []

    @staticmethod
    def discovery(sbx, pre, settings, docs):
        """candidates: regular files (or links to files) of the sandbox whose name ends in one of the
        configured source extensions; found: what the project object holds"""
        if settings is None or docs is None:
            return [], None
        exts = set(settings.extensions) | set(settings.fixed_extensions) | set(settings.extra_filetypes.keys())
        cands = [k for k, e in pre.items()
                 if k and (e[0] == "f" or (e[0] == "l" and e[5])) and "." in k[-1]
                 and k[-1].rsplit(".", 1)[1] in exts]
        found = [sbx.canon.comps(os.path.normpath(str(f.path))) for f in docs.project.allfiles]
        return cands, found

    def add(self, mode, sbx, ids, pre, post, settings_p, refused, ops, docs, base=None, info=None,
            settings=None):
        canon = sbx.canon
        pt, pages, _ = proj_term(canon, docs)
        pre_n, pre_m = node_entries(pre, ids, True), meta_entries(pre, ids)
        post_n, post_m = node_entries(post, ids, False), meta_entries(post, ids)
        if base is not None and base.get("pre_n") == pre_n and base.get("pre_m") == pre_m:
            pre_n_t, pre_m_t = base["name"] + "_n", base["name"] + "_m"
            post_m_t = coq_entries_shared(post_m, pre_m, pre_m_t)
        else:
            pre_n_t, pre_m_t = coq_entries(pre_n), coq_entries(pre_m)
            post_m_t = coq_entries(post_m)
        post_n_t = coq_entries(post_n) if mode == 0 else "[]"
        out, gd, srcs, excl = settings_p
        cands, found = self.discovery(sbx, pre, settings, docs)
        i = len(self.terms)
        # one Definition per listing: elaboration of one huge term is superlinear in its size
        mine = [f"Definition k{i}_pre_n : list (path * node) := {pre_n_t}.",
                f"Definition k{i}_pre_m : list (path * meta) := {pre_m_t}.",
                f"Definition k{i}_ops : list op := {ops_term(ops)}.",
                f"Definition k{i}_post_n : list (path * node) := {post_n_t}.",
                f"Definition k{i}_post_m : list (path * meta) := {post_m_t}.",
                f"Definition k{i}_pages : list cand := {pages}."]
        term = ("(Build_case %d %s %s %s\n  (%s)\n  (%s)\n  %s\n  %s pkgfs %s\n  %s %s %s %s %s\n  %s\n  %s %s\n  %s\n  %s)" % (
            mode, coq_list(f"({coq_path(a)}, {coq_path(b)})" for a, b in sbx.links()),
            coq_path(canon.comps(str(sbx.proj))), coq_path((PKG,)), rcfg_term(canon, sbx.sc), pt, f"k{i}_pages",
            f"k{i}_pre_n", f"k{i}_pre_m", coq_bool(refused), coq_path(out), coq_opt(gd, coq_path),
            coq_list(coq_path(x) for x in srcs), coq_list(coq_path(x) for x in excl),
            f"k{i}_ops", coq_list(coq_path(c) for c in cands),
            coq_opt(found, lambda fl: coq_list(coq_path(c) for c in fl)), f"k{i}_post_n", f"k{i}_post_m"))
        mine.append(f"Definition k{i} : case := {term}.")
        self.case_defs.append("\n".join(mine))
        term = f"k{i}"
        self.terms.append(term)
        self.info.append(info or {})
        return len(self.terms) - 1

    def share(self, name, pre, ids):
        pre_n, pre_m = node_entries(pre, ids, True), meta_entries(pre, ids)
        self.defs.append(f"Definition {name}_n : list (path * node) := {coq_entries(pre_n)}.")
        self.defs.append(f"Definition {name}_m : list (path * meta) := {coq_entries(pre_m)}.")
        return {"name": name, "pre_n": pre_n, "pre_m": pre_m}


def is_refusal(err):
    return bool(err) and err.startswith("ValueError:Source directory")


# ---------------------------------------------------------------------------- the layers of the check

def low_calls(t):
    """one entry per mutating call (a rename contributes two paths but is one call)"""
    out, last = [], None
    for rec in t.low:
        if rec[3] != last:
            out.append(rec[:3])
            last = rec[3]
    return out


def fault_runs(chk, cases, ids, rng, sbx, settings, docs, sp, nfaults, only=None):
    """an OSError, and a crash, injected at successive mutating file-system calls of the write-out"""
    sbx.build()
    base_pre = snapshot(sbx.sb)
    base = cases.share(f"pre{len(cases.defs)}", base_pre, ids)
    t0, err0 = rerun_writeout(sbx, settings, docs, None, None)
    total = t0.nlow
    if only is not None:
        points = [k for k in only if k < total]
    elif nfaults >= total:
        points = list(range(total))
    else:   # the first mutating call of operations spread over the run, plus random interior calls
        firsts, seen = [], set()
        for k, (idx, ev, p) in enumerate(low_calls(t0)):
            if idx not in seen:
                seen.add(idx)
                firsts.append(k)
        step = max(1, len(firsts) // max(1, nfaults // 2))
        points = set(firsts[::step][:nfaults // 2])
        while len(points) < nfaults:
            points.add(rng.randrange(total))
        points = sorted(points)
    chk.extra.setdefault("fault_points", []).append({"scenario": sbx.sc["name"], "mutating_calls": total,
                                                     "injected": len(points) * 2})
    for k in points:
        for mode, exc in ((2, OSError(5, "verif: injected I/O error")), (1, fstrace.Crash())):
            sbx.build()
            pre = snapshot(sbx.sb)
            t, err = rerun_writeout(sbx, settings, docs, k, exc)
            post = snapshot(sbx.sb)
            ops = canon_ops(sbx.canon, t.ops)
            cases.add(mode, sbx, ids, pre, post, sp, False, ops, docs, base=base,
                      info={"scenario": sbx.sc["name"], "fault_at_call": k, "fault": type(exc).__name__,
                            "error": err, "ops": show_ops(ops), "opts": sbx.sc["opts"],
                            "scenario_def": sbx.template})
            chk.count(("fault", sbx.sc["name"], len(cases.defs), k, mode), nontrivial=True)
            chk.extra["faults_injected"] = chk.extra.get("faults_injected", 0) + 1


def regression_scenarios():
    """the witnesses of the two repaired defects (known_findings.d/C19.json, fixed): a page's
    copy_subdir: ../../shared used to be copied to <project>/shared, ordered_subpage:
    sub/../../../note.md used to be written to <project>/note.html.  Ordinary inputs now: if a
    defect returns, the run is a failing input."""
    base = {"output_dir": "./doc", "src_dir": ["./src"], "page_dir": "./pages", "graph": "false",
            "search": "false", "incl_src": "false", "externalize": "false"}
    mk = lambda name, top, sub: {"name": name, "opts": dict(base), "links": [], "extra": {}, "dirs": [],
                                 "refuse": False, "topmeta": top, "submeta": sub, "fortran": None, "cli": {}}
    return [mk("regression-copy-subdir-escape", "copy_subdir: ../../shared\n", ""),
            mk("regression-copy-subdir-escape-from-subpage", "", "copy_subdir: ../../../shared\n    data\n"),
            mk("regression-ordered-subpage-escape", "ordered_subpage: sub/../../../note.md\n", ""),
            mk("regression-ordered-subpage-dotdot-and-nested",
               "ordered_subpage: ../../note.md\n    sub/a.md\n    sub\n", "")]


def exclusion_check(chk, rng):
    """output_dir below a source directory: the copies FORD leaves in <out>/src must not be read as
    sources by the next run (exclude_dir holds output_dir) -- named in the project file, and given
    on the command line only (parse_arguments appends the final output_dir to exclude_dir)"""
    for name, out, cli in (("below-src-twice", "./src/doc", {}),
                           ("below-src-twice-cli", "./doc", {"output_dir": "./src/cli_doc"})):
        sc = {"name": name, "opts": {"output_dir": out, "src_dir": ["./src"], "graph": "false",
                                     "search": "false", "incl_src": "true"},
              "links": [], "extra": {}, "dirs": [], "refuse": False, "topmeta": "", "submeta": "",
              "fortran": None, "cli": cli}
        sbx = Sandbox(rng, sc)
        try:
            sbx.build()
            names = []
            for _ in range(2):
                settings, docs, t, err, log = run_ford(sbx)
                names.append(sorted(str(f.path) for f in docs.project.allfiles) if docs is not None else err)
            chk.count(("exclusion", name), nontrivial=True)
            chk.extra.setdefault("second_run_sources", {})[name] = \
                [os.path.relpath(x, sbx.sb) for x in names[1]] if isinstance(names[1], list) else names[1]
            if names[0] != names[1]:
                chk.violation("failing-input", {"what": "a second run reads the output of the first as source files",
                                                "first": names[0], "second": names[1], "scenario": sc}, True)
        finally:
            sbx.close()


def common_defs(cases, pkgfs):
    listing = f"Definition pkgfs : list (path * node) := {coq_entries(pkgfs)}.\n" + "\n".join(cases.defs)
    return WORDS.defs() + "\n" + listing       # after every term has been rendered


def judge_all(chk, cases, ids, pkgfs, shard=6):
    """Check.coq_judge with per-shard definitions (each case brings its own listings)"""
    import re
    common = common_defs(cases, pkgfs)
    n = len(cases.terms)
    files = []
    for k, lo in enumerate(range(0, n, shard)):
        idx = list(range(lo, min(n, lo + shard)))
        f = chk.tmp / f"c19_cases_{k}.v"
        f.write_text(f"{IMPORTS}\nSet Printing Width 1000000.\nSet Printing Depth 1000000.\n{common}\n"
                     + "\n".join(cases.case_defs[i] for i in idx)
                     + f"\nDefinition cases : list case := {coq_list(cases.terms[i] for i in idx)}.\n"
                     "Eval vm_compute in (report (map judge cases)).\n")
        files.append((lo, f))

    def one(item):
        return core.run(["timeout", "900", "coqc", "-Q", "theories", "Ford", str(item[1])], cwd=core.COQ, timeout=1000)
    with ThreadPoolExecutor(max_workers=core.NCPU) as ex:
        outs = list(ex.map(one, files))
    res = {}
    for (lo, f), (rc, out) in zip(files, outs):
        if rc != 0 or "list (nat * nat)" not in out:
            chk.obligation("model-evaluation", False, out[-2000:])
            return None, common
        for m in re.finditer(r"\((\d+), (\d+)\)", out.split(": list (nat * nat)")[0]):
            res[lo + int(m.group(1))] = int(m.group(2))
    return res, common


def explain(chk, cases, idx, common):
    return chk.coq_eval(IMPORTS, f"explain k{idx}", defs=common + "\n" + cases.case_defs[idx])


def verdicts(chk, cases, res, defs):
    explained = 0
    for idx, code in sorted(res.items()):
        info = dict(cases.info[idx])
        if code & 2:
            chk.disagreements += 1
        if code & 3 == 0:
            continue
        if explained < 2:
            explained += 1
            info["model"] = explain(chk, cases, idx, defs)[-6000:]
        info.update({"code": code, "meaning": "bit0 model!=impl, bit1 impl violates confinement/refusal"})
        chk.violation("failing-input" if code & 2 else "broken-correspondence", info, bool(code & 2))


def run(chk):
    chk.build(["theories/Corr/C19.vo", "theories/Props/C19.vo"])
    chk.props("theories/Props/C19.v", THEOREMS)
    if chk.tier == "thorough":
        chk.coqchk(["Ford.Props.C19"])
    rng = chk.rng
    quick = chk.tier == "quick"
    timing = chk.extra.setdefault("timing_s", {})
    timing["build+props"] = round(time.time() - chk.t0, 1)
    tmark = [time.time()]

    def lap(name):
        timing[name] = round(time.time() - tmark[0], 1)
        tmark[0] = time.time()
    ids = Ids()
    cases = Cases()
    WORDS.names.clear()
    pkgfs = pkg_listing(ids)          # first: the copies of the package's assets get these content ids
    ids.freeze()

    def scenarios():
        return [S.gen_scenario(rng, "@SB@", pl, simple=pl[6]) for pl in S.placements("@SB@")]

    def run_sc(sc, **kw):
        try:
            return traced_scenario_in(chk, cases, ids, rng, Sandbox(rng, sc), **kw)
        except Exception:  # noqa  -- a harness failure on one scenario is reported, the others still run
            chk.obligation("harness:scenario " + sc["name"], False, traceback.format_exc()[-2000:])
            return None

    # (0) saved scenarios first
    for f in sorted((core.VERIF / "corpus" / "C19").glob("*.json")):
        sc = json.load(open(f))
        run_sc(sc, label="corpus")

    # (1) every placement (random options); fault enumeration on some of the runs that completed
    rounds = 1 if quick else 5
    fault_names = ["sibling-stale", "symlink-to-dir", "nested-missing-ancestors", "absolute",
                   "dotdot-outside-project", "below-src", "existing-file", "below-symlink"]
    done_fault = 0
    for r in range(rounds):
        chosen = rng.sample(fault_names, 2 if quick else 3)
        for sc in scenarios():
            want = (not sc["refuse"]) and sc["name"] in chosen
            # quick: 40 of the ~150 mutating calls of a write-out; thorough: every call for the first four, then 60
            budget = (40 if quick else (10 ** 6 if done_fault < 4 else 60)) if want else 0
            res = run_sc(sc, faults=budget)
            if want and res and res.get("faulted"):
                done_fault += 1
    # more (placement x options) combinations without faults
    free = [pl for pl in S.placements("@SB@") if not pl[6]]
    for _ in range(8 if quick else 60):
        run_sc(S.gen_scenario(rng, "@SB@", rng.choice(free)))
    lap("placements+faults")
    # (2) command-line override of output_dir
    for o in (["./cli_out", "../cli_outside"] if quick else ["./cli_out", "../cli_outside", "./src", "."]):
        sc = S.gen_scenario(rng, "@SB@", S.placements("@SB@")[0], simple=True)
        sc["name"] = "cli-override " + o
        sc["cli"] = {"output_dir": o}
        run_sc(sc)
    # (3) the witnesses of the repaired defects, as regression inputs
    for sc in regression_scenarios():
        run_sc(sc, label="regression")
    lap("cli+findings")
    # (4) untraced child-process runs
    subs = []
    pls = S.placements("@SB@")
    pick = [0, 3, 5, 8, 14, 15] if quick else list(range(len(pls)))
    for i in pick:
        sc = S.gen_scenario(rng, "@SB@", pls[i], simple=False)
        sc["pool"] = rng.random() < 0.5       # default process pool, else parallel: 0
        subs.append(sc)
    sub_boxes = [Sandbox(rng, sc) for sc in subs]
    subprocess_boxes(chk, cases, ids, sub_boxes)
    # (5) source discovery excludes the output directory
    exclusion_check(chk, rng)

    lap("subprocess+exclusion")
    res, defs = judge_all(chk, cases, ids, pkgfs)
    lap("coq-judge")
    if res is None:
        return
    chk.traces += len(cases.terms)
    verdicts(chk, cases, res, defs)
    chk.extra["cases_judged"] = len(cases.terms)
    chk.extra["codes"] = {str(c): sum(1 for v in res.values() if v == c) for c in sorted(set(res.values()))}


def traced_scenario_in(chk, cases, ids, rng, sbx, faults=0, label=None, only=None):
    sc = sbx.sc
    try:
        ids.new_sandbox()
        sbx.build()
        pre = snapshot(sbx.sb)
        settings, docs, t, err, log = run_ford(sbx)
        post = snapshot(sbx.sb)
        refused = is_refusal(err)
        if settings is None or not hasattr(settings, "directory"):
            chk.notes.append(f"scenario {sc['name']}: settings not loaded: {err}")
            chk.count(("unloadable", sc["name"]), nontrivial=False)
            chk.extra.setdefault("runs_failed_otherwise", []).append({"scenario": sc["name"], "error": str(err)[:300]})
            return None
        ops = canon_ops(sbx.canon, t.ops)
        sp = settings_paths(sbx.canon, settings)
        mode = 0 if (err is None or refused) else 2
        info = {"scenario": sc["name"], "opts": sc["opts"], "links": sc["links"], "error": err,
                "mode": mode, "ops": show_ops(ops), "topmeta": sc["topmeta"], "submeta": sc["submeta"],
                "cli": sc.get("cli"), "low_level_events": t.nlow, "log": log[-800:] if err else "",
                "scenario_def": sbx.template}
        cases.add(mode, sbx, ids, pre, post, sp, refused, ops, None if refused else docs, info=info,
                  settings=settings)
        topts = sbx.template["opts"]           # with @SB@ for the sandbox path: stable across runs
        chk.count(("run", sc["name"], tuple(sorted((k, str(v)) for k, v in topts.items())), sc["topmeta"],
                   sc["submeta"], str(sc.get("cli"))), nontrivial=True,
                  sample={"scenario": sc["name"], "output_dir": topts["output_dir"],
                          "graph_dir": topts.get("graph_dir"), "refused": refused, "error": err,
                          "operations": len(ops), "mutating_calls": t.nlow})
        dist = chk.extra.setdefault("option_distribution", {})
        for k in ("media_dir", "css", "favicon", "mathjax_config", "page_dir", "copy_subdir", "graph_dir",
                  "exclude_dir"):
            if k in topts:
                dist[k] = dist.get(k, 0) + 1
        for k in ("incl_src", "externalize", "search", "graph"):
            if str(topts.get(k, "")).lower() == "true":
                dist[k] = dist.get(k, 0) + 1
        if sc["topmeta"] or sc["submeta"]:
            dist["page-level copy_subdir/ordered_subpage"] = dist.get("page-level copy_subdir/ordered_subpage", 0) + 1
        if sc["links"]:
            dist["with symlinks"] = dist.get("with symlinks", 0) + 1
        if docs is not None and not refused:
            chk.extra["discovery_compared"] = chk.extra.get("discovery_compared", 0) + 1
        cnt = chk.extra.setdefault("scenario_counts", {})
        key = label or ("must-refuse" if sc["refuse"] else "placement")
        cnt[key] = cnt.get(key, 0) + 1
        if refused:
            chk.extra["refused"] = chk.extra.get("refused", 0) + 1
        if err is not None and not refused:
            chk.extra.setdefault("runs_failed_otherwise", []).append({"scenario": sc["name"], "error": err[:300]})
        faulted = False
        if faults and docs is not None and err is None:
            fault_runs(chk, cases, ids, rng, sbx, settings, docs, sp, faults, only=only)
            faulted = True
        return {"err": err, "faulted": faulted}
    finally:
        sbx.close()


def subprocess_boxes(chk, cases, ids, boxes):
    items = []
    for sbx in boxes:
        sbx.build()
        items.append((sbx, snapshot(sbx.sb)))

    def one(item):
        sbx, _ = item
        args = [sys.executable, "-m", "ford", "proj.md"]
        for k, v in (sbx.sc.get("cli") or {}).items():
            args += ["-o", v]
        env = chk.env()
        env["PYTHONDONTWRITEBYTECODE"] = "1"
        p = subprocess.run(args, cwd=sbx.proj, env=env, timeout=300, stdout=subprocess.PIPE,
                           stderr=subprocess.STDOUT, text=True, errors="replace")
        return p.returncode, p.stdout
    try:
        with ThreadPoolExecutor(max_workers=8) as ex:
            results = list(ex.map(one, items))
        for (sbx, pre), (rc, log) in zip(items, results):
            post = snapshot(sbx.sb)
            refused = "is a subdirectory of output directory" in log
            o = sbx.sc["opts"]
            real = lambda x: sbx.canon.comps(os.path.realpath(os.path.join(sbx.proj, x)))
            out_text = (sbx.sc.get("cli") or {}).get("output_dir") or o["output_dir"]
            excl = [real(x) for x in o.get("exclude_dir", [])] + [real(o["output_dir"])]
            if real(out_text) not in excl:      # parse_arguments appends the final output_dir
                excl.append(real(out_text))
            sp = (real(out_text), real(o["graph_dir"]) if o.get("graph_dir") else None,
                  [real(x) for x in o["src_dir"]], excl)
            ids.new_sandbox()
            cases.add(3, sbx, ids, pre, post, sp, refused, [], None,
                      info={"scenario": sbx.sc["name"], "subprocess": True, "rc": rc, "opts": o,
                            "cli": sbx.sc.get("cli"), "links": sbx.sc["links"], "log": log[-600:]})
            chk.count(("subprocess", sbx.sc["name"],
                       tuple(sorted((k, str(v)) for k, v in sbx.template["opts"].items()))), nontrivial=True)
            chk.extra["subprocess_runs"] = chk.extra.get("subprocess_runs", 0) + 1
            if rc != 0 and not refused:
                chk.extra.setdefault("runs_failed_otherwise", []).append(
                    {"scenario": sbx.sc["name"], "subprocess": True, "rc": rc, "log": log[-300:]})
    finally:
        for sbx, _ in items:
            sbx.close()


def replay(chk, rep):
    """re-run the recorded scenario (and the recorded fault position) on the working tree"""
    print("scenario:", rep.get("scenario"), "| kind:", rep.get("kind"), "| recorded code:", rep.get("code"))
    sc = rep.get("scenario_def")
    if not sc:
        print(json.dumps({k: v for k, v in rep.items() if k != "model"}, indent=1)[:4000])
        return 1
    chk.build(["theories/Corr/C19.vo"])
    ids, cases = Ids(), Cases()
    WORDS.names.clear()
    pkgfs = pkg_listing(ids)
    ids.freeze()
    k = rep.get("fault_at_call")
    traced_scenario_in(chk, cases, ids, chk.rng, Sandbox(chk.rng, sc), faults=0 if k is None else 1,
                       only=None if k is None else [k])
    res, common = judge_all(chk, cases, ids, pkgfs)
    if res is None:
        print("model evaluation failed")
        return 1
    bad = 0
    for idx, info in enumerate(cases.info):
        code = res.get(idx, 0)
        print(f"case {idx}: mode={info.get('mode', 'fault')} fault_at={info.get('fault_at_call')} "
              f"error={info.get('error')} judge code={code}")
        if code & 3:
            bad = 1
            for line in info.get("ops", []):
                print("   impl", line)
            print(explain(chk, cases, idx, common)[-6000:])
    shutil.rmtree(chk.tmp, ignore_errors=True)
    return bad


def finish(chk):
    return chk.finish(
        level_note="Coq proof over all configurations, projects, page trees, file systems and prefixes of the "
                   "operation sequence of the FsModel; the model is tied to FORD by traced real runs",
        trusted_base=["Coq 8.16.1 kernel (vm_compute for case evaluation and witnesses)",
                      "harness/impl/fstrace.py (audit hook + library wrappers), harness/props/c19.py, "
                      "harness/gen/c19_sandbox.py", "hand-written model Out/FsModel.v",
                      "the kernel resolves '..' below the resolved output directory lexically (no symlinks "
                      "inside what FORD creates)", "pathlib.Path.resolve modelled by a symlink table"],
        rule="one case = one real FORD run (or one write-out with an injected fault) in a sandbox; distinct = "
             "distinct (placement, option set, page metadata) or (scenario, fault position, fault kind)",
        checker_cmd="make theories/Props/C19.vo && coqc theories/Props/C19.v (Print Assumptions)",
        assumptions=["no preprocessor run, no process pool in traced runs (parallel: 0); child-process runs use "
                     "the default pool", "graphviz's dot writes only <file>.svg next to the file it is given",
                     "inputs (media, pages, css, ...) are not placed inside the output directory"])
