"""C05 — the site documents exactly the entities selected by the display options."""
import collections
import json
import re

from harness import core
from harness.gen import display as D
from harness.impl import fordrun as F

IMPORTS = "From Ford Require Import Base.Str Sem.Access Sem.Display Corr.C05."
CASE_T = "case"
THEOREMS = []
REGIONS = {1: "enum-never-filtered", 2: "common-never-filtered", 4: "namelist-never-filtered",
           8: "final-never-filtered", 16: "file-display-not-inherited", 32: "interface-doc-place"}
FORD_LISTS = ["modules", "submodules", "programs", "blockdata", "functions", "subroutines", "types", "interfaces",
              "absinterfaces", "variables", "enums", "common", "namelists", "modprocedures", "modfunctions",
              "modsubroutines", "boundprocs", "finalprocs", "args"]

# ---------------------------------------------------------------------------------------------- implementation


def ford_children(obj):
    import ford.sourceform as sf
    if isinstance(obj, sf.FortranModuleProcedureInterface):
        return [("args", a) for a in obj.procedure.args if not isinstance(a, str)]
    if isinstance(obj, (sf.FortranInterface, sf.FortranNamelist, sf.FortranVariable)):
        return []
    out = []
    for l in FORD_LISTS:
        if l == "args" and isinstance(obj, sf.FortranModuleProcedureImplementation):
            continue          # correlate() hands it the argument objects of its interface: not its own
        items = getattr(obj, l, None)
        if isinstance(items, list):
            ll = "procs" if isinstance(obj, sf.FortranSourceFile) and l in ("functions", "subroutines") else l
            out += [(ll, c) for c in items if not isinstance(c, str)]
    return out


def node_keys(files):
    """(list name, name FORD reports) -> id, for every node of the abstract project"""
    keys = {}
    for f in files:
        for n, path in D.walk(f):
            if not path:
                keys[("files", n["name"])] = n["id"]
                continue
            l = path[-1][0]
            if n["kind"] == "enum":
                first = D.kids(n, "variables")[0]
                keys[("enum-by-first", first["name"])] = n["id"]
            elif n["kind"] == "final":
                keys[(l, n["target"])] = n["id"]
            else:
                keys[(l, D.fname(n))] = n["id"]
    return keys


def ident(keys, l, obj):
    import ford.sourceform as sf
    if isinstance(obj, sf.FortranEnum):
        vs = [v for v in obj.variables if not isinstance(v, str)]
        return keys.get(("enum-by-first", vs[0].name)) if vs else None
    name = getattr(obj, "name", None)
    if (l, name) in keys:
        return keys[(l, name)]
    alt = {"functions": "modfunctions", "subroutines": "modsubroutines"}.get(l)      # before correlate()
    return keys.get((alt, name)) if alt else None


def walk_ford(keys, roots):
    """id -> (list name, object) for everything reachable from roots [(list name, object)] through the lists"""
    found = {}
    stack = list(roots)
    seen = set()
    while stack:
        l, obj = stack.pop()
        if id(obj) in seen:
            continue
        seen.add(id(obj))
        i = ident(keys, l, obj)
        if i is not None and i not in found:
            found[i] = (l, obj)
        if i is not None or l == "files":
            stack += ford_children(obj)
    return found


def run_ford(files, texts, cfg):
    """Project(...) on the rendered files, then correlate(): for every node of the abstract project
    (kept after pruning?, visible flag), plus the ids that get a page.  None = FORD raised."""
    keys = node_keys(files)
    with F.Work(texts) as w:
        try:
            p = F.parse_project(w.root, correlate=False, display=list(cfg["display"]),
                                proc_internals=cfg["proc_internals"], hide_undoc=cfg["hide_undoc"],
                                incl_src=cfg.get("incl_src", True), dbg=False)
            before = walk_ford(keys, [("files", f) for f in p.files])
            cwd = __import__("os").getcwd()
            __import__("os").chdir(w.root)
            try:
                with F.quiet():
                    p.correlate()
            finally:
                __import__("os").chdir(cwd)
        except Exception as e:  # noqa — an exception of the implementation is an output
            return ("EXC", f"{type(e).__name__}: {e}")
        after = walk_ford(keys, [("files", f) for f in p.files])
        # objects created by correlate() below entities that were pruned away (variables of common blocks)
        late = walk_ford(keys, list(before.values()))
        objs = {i: o for i, (l, o) in late.items()}
        objs.update({i: o for i, (l, o) in after.items()})
        objs.update({i: o for i, (l, o) in before.items()})
        out = {}
        perms = {}
        for i, o in objs.items():
            out[i] = (i in after, bool(getattr(o, "visible", False)))
            perms[i] = getattr(o, "permission", None)
        pages = []
        for lst in ("modules", "submodules", "programs", "blockdata", "procedures", "types", "absinterfaces",
                    "submodprocedures", "namelists"):
            for o in getattr(p, lst):
                for i, oo in objs.items():
                    if oo is o:
                        pages.append(i)
        return out, perms, sorted(set(pages))


# ---------------------------------------------------------------------------------------------- cases

def coq_case(files, cfg, impl, pages):
    """one case per file: (cfg, tree, [(id, kept, visible)], page ids)"""
    terms = []
    for f in files:
        ids = [n["id"] for n, _ in D.walk(f)]
        outs = core.coq_list(f"({i}, {core.coq_bool(impl[i][0])}, {core.coq_bool(impl[i][1])})" for i in ids if i in impl)
        pg = core.coq_list(str(i) for i in pages if i in set(ids))
        terms.append(f"({D.coq_cfg(cfg)}, {D.coq_node(f)}, {outs}, {pg})")
    return terms


def check_project(chk, files, texts, cfgs, what, stats):
    """run FORD under every configuration, judge every (configuration, file)"""
    terms, meta = [], []
    for cfg in cfgs:
        r = run_ford(files, texts, cfg)
        if r[0] == "EXC":
            chk.violation("failing-input", {"what": "FORD raised on a generated project", "error": r[1],
                                            "cfg": cfg, "files": texts}, True)
            continue
        impl, perms, pages = r
        allnodes = [n for f in files for n, _ in D.walk(f)]
        missing = [n["id"] for n in allnodes if n["id"] not in impl]
        badperm = [(n["name"], n["perm"], perms[n["id"]]) for n in allnodes
                   if n["id"] in perms and n["kind"] not in ("arg", "final", "file", "commonvar")
                   and perms[n["id"]] != n["perm"]]
        if missing or badperm:
            chk.obligation("generator-matches-ford", False,
                           f"nodes FORD does not have: {missing[:5]}; permissions that differ: {badperm[:5]}")
            stats["generator-mismatch"] += 1
            continue
        for t, f in zip(coq_case(files, cfg, impl, pages), files):
            terms.append(t)
            meta.append((cfg, f))
    res = chk.coq_judge(IMPORTS, CASE_T, "judge", terms, shard=60)
    if res is None:
        return
    chk.traces += len(terms)
    for idx, code in sorted(res.items()):
        cfg, f = meta[idx]
        reg = code >> 2
        payload = {"what": what, "cfg": cfg, "file": f["name"], "files": texts, "tree": f, "code": code,
                   "meaning": "bit0 model!=impl, bit1 impl differs from the Spec, bits>=2 region mask " + str(REGIONS)}
        if (code & 1 or (code & 2 and (reg == 0 or reg & 64))) and stats["diagnosed"] < 3:
            stats["diagnosed"] += 1
            payload["diagnosis"] = chk.coq_eval(IMPORTS, f"diagnose {terms[idx]}")
        if code & 2:
            chk.disagreements += 1
            if reg == 0 or reg & 64:
                stats["spec-violation-outside-regions"] += 1
                chk.violation("failing-input", payload, True)
            else:
                for bit, key in REGIONS.items():
                    if reg & bit:
                        stats["region:" + key] += 1
                        if not any(x["key"] == key and x.get("status", "open") == "open" for x in chk.findings):
                            chk.violation("failing-input", payload, True)
        if code & 1:
            stats["model-mismatch"] += 1
            if not (code & 2 and reg == 0):
                chk.violation("broken-correspondence", payload, False)



def all_cfgs(rng=None, n=None):
    cfgs = [{"display": d or ["public", "protected"], "proc_internals": pi, "hide_undoc": hu}
            for d in D.DISPLAYS for pi in (False, True) for hu in (False, True)]
    if n is not None and rng is not None and n < len(cfgs):
        cfgs = rng.sample(cfgs, n)
    return cfgs


def run(chk):
    chk.build(["theories/Corr/C05.vo"])
    rng = chk.rng
    stats = collections.Counter()
    quick = chk.tier == "quick"
    for k in range(20 if quick else 300):
        files = D.gen_project(rng)
        texts = D.render_project(files)
        cfgs = all_cfgs(rng, 6 if quick else 12)
        for cfg in cfgs:
            chk.count(("random", k, json.dumps(cfg, sort_keys=True)),
                      sample={"cfg": cfg, "files": texts} if k == 0 else None)
        check_project(chk, files, texts, cfgs, "random project", stats)
    chk.extra["distribution"] = dict(stats)


def replay(chk, rep):
    return 0


def finish(chk):
    return chk.finish(level_note="", trusted_base=[], rule="", checker_cmd="", assumptions=[])
