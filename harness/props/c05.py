"""C05 — the site documents exactly the entities selected by the display options."""
import collections
import json
import pathlib
import re

from harness import core
from harness.gen import display as D
from harness.impl import fordrun as F

IMPORTS = "From Ford Require Import Base.Str Sem.Access Sem.Display Corr.C05."
CASE_T = "case"
THEOREMS = ["C05_prune_exact", "C05_visible_sound", "C05_pages", "C05_display_inherit",
            "C05_constructor_permission_matters", "C05_fixed_enum", "C05_fixed_internals_enum", "C05_fixed_common",
            "C05_fixed_namelist", "C05_fixed_final", "C05_fixed_file_display", "C05_fixed_doc_place",
            "C05_fixed_module_modprocedure"]
REGIONS = {}      # no recorded finding is open; bit 64 = the tree has a shape FORD cannot produce
FORD_LISTS = ["modules", "submodules", "programs", "blockdata", "functions", "subroutines", "types", "interfaces",
              "absinterfaces", "variables", "enums", "common", "namelists", "modprocedures", "modfunctions",
              "modsubroutines", "boundprocs", "finalprocs", "args"]

# ---------------------------------------------------------------------------------------------- implementation


def ford_children(obj):
    import ford.sourceform as sf
    if isinstance(obj, sf.FortranModuleProcedureInterface):
        return [("args", a) for a in obj.procedure.args if not isinstance(a, str)]
    if isinstance(obj, (sf.FortranInterface, sf.FortranNamelist, sf.FortranVariable)):
        return []
    out = []
    for l in FORD_LISTS:
        if l == "args" and isinstance(obj, sf.FortranModuleProcedureImplementation):
            continue          # correlate() hands it the argument objects of its interface: not its own
        items = getattr(obj, l, None)
        if isinstance(items, list):
            ll = "procs" if isinstance(obj, sf.FortranSourceFile) and l in ("functions", "subroutines") else l
            out += [(ll, c) for c in items if not isinstance(c, str)]
    return out


def node_keys(files):
    """(list name, name FORD reports) -> id, for every node of the abstract project"""
    keys = {}
    for f in files:
        for n, path in D.walk(f):
            if not path:
                keys[("files", n["name"])] = n["id"]
                continue
            l = path[-1][0]
            if n["kind"] == "enum":
                first = D.kids(n, "variables")[0]
                keys[("enum-by-first", first["name"])] = n["id"]
            elif n["kind"] == "final":
                keys[(l, n["target"])] = n["id"]
            else:
                keys[(l, D.fname(n))] = n["id"]
    return keys


def ident(keys, l, obj):
    import ford.sourceform as sf
    if isinstance(obj, sf.FortranEnum):
        vs = [v for v in obj.variables if not isinstance(v, str)]
        return keys.get(("enum-by-first", vs[0].name)) if vs else None
    name = getattr(obj, "name", None)
    if (l, name) in keys:
        return keys[(l, name)]
    alt = {"functions": "modfunctions", "subroutines": "modsubroutines"}.get(l)      # before correlate()
    return keys.get((alt, name)) if alt else None


def walk_ford(keys, roots, known=None):
    """id -> (list name, object) for everything reachable from roots [(list name, object)] through the lists;
    known: {id(object): node id} of objects identified before (an enum is recognised by its first enumerator,
    which pruning may remove)"""
    found = {}
    stack = list(roots)
    seen = set()
    while stack:
        l, obj = stack.pop()
        if id(obj) in seen:
            continue
        seen.add(id(obj))
        i = (known or {}).get(id(obj))
        if i is None:
            i = ident(keys, l, obj)
        if i is not None and i not in found:
            found[i] = (l, obj)
        if i is not None or l == "files":
            stack += ford_children(obj)
    return found


def run_ford(files, texts, cfg):
    """Project(...) on the rendered files, then correlate(): for every node of the abstract project
    (kept after pruning?, visible flag), plus the ids that get a page.  None = FORD raised."""
    keys = node_keys(files)
    with F.Work(texts) as w:
        try:
            p = F.parse_project(w.root, correlate=False, display=list(cfg["display"]),
                                proc_internals=cfg["proc_internals"], hide_undoc=cfg["hide_undoc"],
                                incl_src=cfg.get("incl_src", True), dbg=False)
            before = walk_ford(keys, [("files", f) for f in p.files])
            cwd = __import__("os").getcwd()
            __import__("os").chdir(w.root)
            try:
                with F.quiet():
                    p.correlate()
            finally:
                __import__("os").chdir(cwd)
        except Exception as e:  # noqa — an exception of the implementation is an output
            return ("EXC", f"{type(e).__name__}: {e}")
        known = {id(o): i for i, (l, o) in before.items()}
        after = walk_ford(keys, [("files", f) for f in p.files], known)
        # objects created by correlate() below entities that were pruned away (variables of common blocks)
        late = walk_ford(keys, list(before.values()), known)
        objs = {i: o for i, (l, o) in late.items()}
        objs.update({i: o for i, (l, o) in after.items()})
        objs.update({i: o for i, (l, o) in before.items()})
        out = {}
        perms = {}
        for i, o in objs.items():
            out[i] = (i in after, bool(getattr(o, "visible", False)))
            perms[i] = getattr(o, "permission", None)
        pages = []
        for lst in ("modules", "submodules", "programs", "blockdata", "procedures", "types", "absinterfaces",
                    "submodprocedures", "namelists"):
            for o in getattr(p, lst):
                for i, oo in objs.items():
                    if oo is o:
                        pages.append(i)
        return out, perms, sorted(set(pages))


# ---------------------------------------------------------------------------------------------- cases

def coq_case(files, cfg, impl, pages):
    """one case per file: (cfg, tree, [(id, kept, visible)], page ids)"""
    terms = []
    for f in files:
        ids = [n["id"] for n, _ in D.walk(f)]
        outs = core.coq_list(f"({i}, {core.coq_bool(impl[i][0])}, {core.coq_bool(impl[i][1])})" for i in ids if i in impl)
        pg = core.coq_list(str(i) for i in pages if i in set(ids))
        terms.append(f"({D.coq_cfg(cfg)}, {D.coq_node(f)}, {outs}, {pg})")
    return terms


def check_project(chk, files, texts, cfgs, what, stats):
    """run FORD under every configuration, judge every (configuration, file)"""
    terms, meta = [], []
    for cfg in cfgs:
        r = run_ford(files, texts, cfg)
        if r[0] == "EXC":
            chk.violation("failing-input", {"what": "FORD raised on a generated project", "error": r[1],
                                            "cfg": cfg, "files": texts, "project": files}, True)
            continue
        impl, perms, pages = r
        allnodes = [n for f in files for n, _ in D.walk(f)]
        missing = [n["id"] for n in allnodes if n["id"] not in impl]
        if missing:
            chk.obligation("generator-matches-ford", False, f"nodes FORD does not have: {missing[:5]}")
            stats["generator-mismatch"] += 1
            continue
        # entity.permission as FORD computed it is the model's input; the Spec keeps the accessibility the
        # generator designed (Fortran's) — a difference is a C04 defect that C05 sees as leak / omission
        for n in allnodes:
            fp = perms.get(n["id"])
            n["fperm"] = fp if fp in D.CP and n["kind"] not in ("arg", "final", "file", "commonvar") else None
            if n["fperm"] and n["fperm"] != n["perm"]:
                stats["permission-differs-from-fortran"] += 1
        for t, f in zip(coq_case(files, cfg, impl, pages), files):
            terms.append(t)
            meta.append((cfg, f))
    res = chk.coq_judge(IMPORTS, CASE_T, "judge", terms, shard=60)
    if res is None:
        return
    chk.traces += len(terms)
    for idx, code in sorted(res.items()):
        cfg, f = meta[idx]
        reg = code >> 2
        payload = {"what": what, "cfg": cfg, "file": f["name"], "files": texts, "tree": f, "code": code,
                   "meaning": "bit0 model!=impl, bit1 impl differs from the Spec, bits>=2 region mask " + str(REGIONS)}
        if stats["diagnosed"] < 3:
            stats["diagnosed"] += 1
            payload["diagnosis"] = chk.coq_eval(IMPORTS, f"diagnose {terms[idx]}")
        if code & 2:
            chk.disagreements += 1
            stats["spec-violation"] += 1
            chk.violation("failing-input", payload, True)
        if code & 1:
            stats["model-mismatch"] += 1
            if not code & 2:
                chk.violation("broken-correspondence", payload, False)



# ---------------------------------------------------------------------------------------------- end to end

TRACER = re.compile(r"zq(\d+)w\d+")
PAGE_DIRS = ("proc", "type", "interface", "module", "program", "blockdata", "namelist")


def spec_values(chk, files, cfg):
    """(selected ids, {id: region mask}, ids with a page) of the Spec, evaluated in Coq"""
    c = D.coq_cfg(cfg)
    terms = [f"(selected {c} ({D.coq_node(f)}), regions {c} ({D.coq_node(f)}), spec_pages {c} ({D.coq_node(f)}))"
             for f in files]
    out = chk.coq_eval(IMPORTS, "[" + "; ".join(terms) + "]")
    if out.startswith("COQ-ERROR"):
        return None
    body = out.rsplit(":", 1)[0]
    sel, regs, pages = set(), {}, set()
    for s_, r_, p_ in re.findall(r"\(\[([\d; ]*)\],\s*\[((?:\(\d+, \d+\)(?:;\s*)?)*)\],\s*\[([\d; ]*)\]\)", body):
        sel |= {int(x) for x in s_.split(";") if x.strip()}
        pages |= {int(x) for x in p_.split(";") if x.strip()}
        for a, b in re.findall(r"\((\d+), (\d+)\)", r_):
            regs[int(a)] = int(b)
    return sel, regs, pages


def site_allowed(files, sel):
    """DESIGN §6 C05: the specific procedure behind a selected binding / generic interface (and its dummy
    arguments) is presented at that site"""
    ok = set()
    for f in files:
        for _, u in f["children"]:
            procs = {D.fname(c): c for l, c in u["children"] if l in ("functions", "subroutines")}
            ctors = {c["ctor_of"]: c for l, c in u["children"] if c["kind"] == "constructor"}
            for n, path in D.walk(u):
                names = []
                if n["id"] in sel and n["kind"] == "type" and n["name"] in ctors and len(path) == 1:
                    # the page of a type presents its constructor interface and the procedures behind it
                    ok.add(ctors[n["name"]]["id"])
                    names = ctors[n["name"]]["members"]
                if n["id"] in sel and n["kind"] in ("bound", "final"):
                    names = [n["target"]]
                elif n["id"] in sel and n["kind"] in ("generic", "constructor"):
                    names = n["members"]
                if n["id"] in sel and n["kind"] == "modproc":
                    # `module procedure x`: its dummy arguments are those declared (and documented) in the interface
                    ok |= {a["id"] for a in D.kids(n["implements"], "args")}
                for nm in names:
                    if nm in procs:
                        ok.add(procs[nm]["id"])
                        ok |= {a["id"] for a in D.kids(procs[nm], "args")}
    return ok


def end_to_end_one(chk, files, texts, cfg, stats, graph=False):
    """full FORD run; tracer words of unselected entities must not appear in any generated page nor in the
    search index; every page belongs to a selected entity; links point at existing pages"""
    sv = spec_values(chk, files, cfg)
    if sv is None:
        chk.obligation("spec-evaluation", False, "coq_eval failed")
        return
    sel, regs, spages = sv
    nodes = {n["id"]: (n, path) for f in files for n, path in D.walk(f)}
    allowed = sel | site_allowed(files, sel)
    # a selected namelist presents the variables it names on its page
    for i, (n, path) in nodes.items():
        if n["kind"] == "namelist" and i in sel:
            sib = {c["name"]: c["id"] for l, c in path[-1][1]["children"] if l == "variables"}
            allowed |= {sib[v] for v in n["vars"] if v in sib}
    with F.Work(texts) as w:
        opts = {"display": cfg["display"], "proc_internals": str(cfg["proc_internals"]).lower(),
                "hide_undoc": str(cfg["hide_undoc"]).lower(), "search": "true", "incl_src": "false",
                "graph": "true" if graph else "false"}
        data, log, err = F.full_run_inprocess(w.root, opts)
        if err:
            stats["e2e-run-failed"] += 1
            chk.violation("failing-input", {"what": "full FORD run failed on a generated project", "error": err,
                                            "cfg": cfg, "files": texts, "log": log[-1500:]}, True)
            return
        doc = w.root / "doc"
        found = collections.defaultdict(set)
        hrefs = collections.defaultdict(set)
        for pth in doc.rglob("*"):
            rel = pth.relative_to(doc)
            if not pth.is_file() or rel.parts[0] in ("src", "css", "js", "webfonts", "tipuesearch"):
                continue
            if pth.suffix not in (".html", ".json", ".js", ".svg"):
                continue
            text = pth.read_text(errors="replace")
            for m in TRACER.finditer(text):
                found[int(m.group(1))].add(str(rel))
            if pth.suffix == ".html":
                for m in re.finditer(r"""(?:xlink:)?href=["']([^"'#]+\.html)(?:#[^"']*)?["']""", text):
                    if not m.group(1).startswith("http"):
                        hrefs[str(rel)].add(m.group(1))
        page_files = {d: {p.name for p in (doc / d).glob("*.html")} for d in PAGE_DIRS}
        # (1) leakage
        for i, where in sorted(found.items()):
            stats["e2e-words-seen"] += 1
            if i in allowed or i not in nodes:
                continue
            chk.disagreements += 1
            n, path = nodes[i]
            stats["e2e-leak"] += 1
            chk.violation("failing-input", {"what": "documentation of an unselected entity appears in the output",
                                            "entity": n["name"], "kind_of_entity": n["kind"],
                                            "path": [(l, q["name"]) for l, q in path], "where": sorted(where),
                                            "cfg": cfg, "files": texts, "project": files}, True)
        # (2) every selected, documented entity whose parent has a page is described somewhere
        for i in sorted(sel):
            n, path = nodes[i]
            if not n["doc"] or n["kind"] == "file" or i in found:
                continue
            parent = path[-1][1]
            if parent["id"] in spages or parent["kind"] in ("module", "submodule", "program", "blockdata") \
                    or (parent["kind"] in ("function", "subroutine") and path[-2][1]["kind"] == "file"):
                stats["e2e-missing"] += 1
                chk.violation("failing-input", {"what": "a selected, documented entity is described nowhere",
                                                "entity": n["name"], "kind": n["kind"],
                                                "path": [(l, q["name"]) for l, q in path], "cfg": cfg,
                                                "files": texts, "project": files}, True)
        # (3) links (also those of graph nodes) point at pages that exist
        for page, targets in hrefs.items():
            for t in targets:
                tgt = (doc / page).parent / t
                if not tgt.resolve().exists():
                    parts = pathlib.PurePath(t).parts
                    if len(parts) >= 2 and parts[-2] in PAGE_DIRS:
                        stats["e2e-dangling"] += 1
                        chk.violation("failing-input", {"what": "a link points at the page of an entity that has "
                                                                "no page (unselected)", "page": page, "href": t,
                                                        "cfg": cfg, "files": texts, "project": files}, True)
        stats["e2e-pages"] += sum(len(v) for v in page_files.values())


def all_cfgs(rng=None, n=None):
    cfgs = [{"display": d or ["public", "protected"], "proc_internals": pi, "hide_undoc": hu}
            for d in D.DISPLAYS for pi in (False, True) for hu in (False, True)]
    if n is not None and rng is not None and n < len(cfgs):
        cfgs = rng.sample(cfgs, n)
    return cfgs


def exhaustive_cases():
    """the fixed program x project display (9) x one metadata override (file / module / type / procedure /
    submodule x 8 word sets, or none given) x proc_internals x hide_undoc"""
    out = []
    for level in (None, "file", "module", "type", "procedure", "submodule"):
        for meta in ([[]] if level is None else D.DISPLAYS[1:]):
            for cfg in all_cfgs():
                out.append((level, meta, cfg))
    return out


# ---------------------------------------------------------------------------------------------- findings

def _parse(src, **kw):
    with F.Work({"src/demo.f90": src}) as w:
        return F.parse_project(w.root, dbg=False, **kw)


FINDINGS = {
    "enum-never-filtered": lambda: bool(_parse(
        "module m\n  private\n  enum, bind(c)\n    !! e\n    enumerator :: a = 1\n  end enum\nend module m\n",
        display=["public"]).modules[0].enums),
    "common-never-filtered": lambda: bool(_parse(
        "module m\n  !! display: none\n  !! text\n  integer :: v\n  common /blk/ cx\n    !! c\nend module m\n",
        display=["public"]).modules[0].common),
    "namelist-never-filtered": lambda: bool(_parse(
        "module m\n  private\ncontains\n  subroutine helper()\n    integer :: lv\n      !! doc\n"
        "    namelist /nl/ lv\n  end subroutine helper\nend module m\n", display=["public"]).namelists),
    "final-never-filtered": lambda: bool(_parse(
        "module m\n  type t\n    !! display: none\n    !! text\n    integer :: c\n  contains\n    final :: fin\n"
        "  end type t\ncontains\n  subroutine fin(x)\n    type(t) :: x\n  end subroutine fin\nend module m\n",
        display=["public"]).modules[0].types[0].finalprocs),
    "file-display-not-inherited": lambda: not _parse(
        "!! display: private\n!! text\nmodule m\n  integer, private :: v\n    !! doc\nend module m\n",
        display=["public"]).modules[0].variables,
    "module-modprocedure-unfiltered": lambda: bool(_parse(
        "module m\n  private\n  interface\n    module subroutine s(a)\n      integer, intent(in) :: a\n"
        "    end subroutine s\n  end interface\ncontains\n  module procedure s\n    !! doc\n  end procedure s\n"
        "end module m\n", display=["public"]).modules[0].modprocedures),
    "interface-doc-place": lambda: not _parse(
        "module m\n  abstract interface\n    subroutine cb(x)\n      !! doc\n      integer :: x\n"
        "    end subroutine cb\n  end interface\nend module m\n", display=["public"], hide_undoc=True).modules[0].absinterfaces,
}


def replay_findings(chk):
    """no finding is open; the witnesses of the repaired defects must not fail again"""
    for key, still in FINDINGS.items():
        try:
            back = bool(still())
        except Exception as e:  # noqa
            back = False
        if back:
            chk.violation("failing-input", {"what": "a repaired defect is back: " + key}, True)


# ---------------------------------------------------------------------------------------------- protocol

def run(chk):
    chk.build(["theories/Corr/C05.vo", "theories/Props/C05.vo"])
    chk.props("theories/Props/C05.v", THEOREMS)
    rng = chk.rng
    stats = collections.Counter()
    quick = chk.tier == "quick"
    if not quick:
        chk.coqchk(["Ford.Props.C05"])

    # (0) saved corpus
    import random
    for k, c in enumerate(json.load(open(core.VERIF / "corpus" / "C05" / "cases.json"))["cases"]):
        files = D.gen_project(random.Random(c["seed"]))
        texts = D.render_project(files)
        for cfg in c["cfgs"]:
            chk.count(("corpus", c["seed"], json.dumps(cfg, sort_keys=True)))
        check_project(chk, files, texts, c["cfgs"], f"corpus project (seed {c['seed']})", stats)
        end_to_end_one(chk, files, texts, c["cfgs"][0], stats, graph=False) if k == 0 else None

    # (1) the fixed program under the product of options (sampled in the quick tier, complete in the thorough one)
    cases = exhaustive_cases()
    total = len(cases)
    if quick:
        cases = rng.sample(cases, 130)
    by_text = collections.defaultdict(list)
    for level, meta, cfg in cases:
        by_text[(level, tuple(meta))].append(cfg)
    for (level, meta), cfgs in by_text.items():
        files, levels = D.template_project()
        if level:
            levels[level]["display"] = list(meta)
            levels[level]["display_spell"] = [D.spell(rng, w) for w in meta]
        texts = D.render_project(files)
        for cfg in cfgs:
            chk.count(("product", level, meta, json.dumps(cfg, sort_keys=True)),
                      sample={"level": level, "meta": meta, "cfg": cfg, "files": texts})
        check_project(chk, files, texts, cfgs, f"fixed program, display {list(meta)} at {level}", stats)
    chk.extra["exhaustive"] = {"cases": total, "run": len(cases), "complete": len(cases) == total,
                               "domain": "fixed program x project display {8 subsets, none} x one metadata "
                                         "override at file/module/type/procedure/submodule level {8 word sets} or none x "
                                         "proc_internals x hide_undoc"}

    # (2) random projects (enums, common blocks, namelists, final procedures, submodules with module-procedure
    #     implementations, internal procedures, metadata at every level) under random configurations
    for k in range(16 if quick else 400):
        files = D.gen_project(rng)
        texts = D.render_project(files)
        cfgs = all_cfgs(rng, 6 if quick else 12)
        for cfg in cfgs:
            chk.count(("random", k, json.dumps(cfg, sort_keys=True)), nontrivial=True)
        check_project(chk, files, texts, cfgs, "random project", stats)

    # (2b) submodules with short- and long-form implementations of separate module procedures, namelists in
    #      them, under configurations that select the (private) contents of submodules
    sub_knobs = {"p_submodule": 1.0, "p_namelist": 0.8, "p_program": 0.1, "nfiles": 1}
    priv_cfgs = [c for c in all_cfgs() if "private" in c["display"]]
    for k in range(6 if quick else 120):
        files = D.gen_project(rng, sub_knobs)
        texts = D.render_project(files)
        cfgs = rng.sample(priv_cfgs, 3) + all_cfgs(rng, 2)
        for cfg in cfgs:
            chk.count(("submodule", k, json.dumps(cfg, sort_keys=True)), nontrivial=True)
        check_project(chk, files, texts, cfgs, "random project with submodules", stats)
        if k % 4 == 0:
            end_to_end_one(chk, files, texts, cfgs[0], stats, graph=False)

    # (3) end to end: tracer words, pages, links and graph nodes of full runs
    for k in range(8 if quick else 80):
        files = D.gen_project(rng)
        texts = D.render_project(files)
        cfg = rng.choice(all_cfgs())
        chk.count(("e2e", k, json.dumps(cfg, sort_keys=True)))
        end_to_end_one(chk, files, texts, cfg, stats, graph=(k % 4 == 0))
    chk.extra["distribution"] = dict(stats)

    # (4) recorded findings: are they still there?
    replay_findings(chk)


def replay(chk, rep):
    if "tree" in rep and "cfg" in rep:
        f, cfg, texts = rep["tree"], rep["cfg"], rep["files"]
        files = [f]
        r = run_ford(files, {k: v for k, v in texts.items()}, cfg)
        if r[0] == "EXC":
            print("FORD raised:", r[1])
            return 1
        impl, perms, pages = r
        for n, _ in D.walk(f):
            fp = perms.get(n["id"])
            n["fperm"] = fp if fp in D.CP and n["kind"] not in ("arg", "final", "file", "commonvar") else None
        chk.build(["theories/Corr/C05.vo"])
        term = coq_case(files, cfg, impl, pages)[0]
        res = chk.coq_judge(IMPORTS, CASE_T, "judge", [term])
        print(texts.get("src/" + f["name"], ""))
        print("cfg:", cfg)
        print("(model/impl differences, model pages, impl pages, spec differences with region):")
        print(chk.coq_eval(IMPORTS, f"diagnose {term}"))
        print("judge code:", res)
        return 1 if res else 0
    if "project" in rep and "cfg" in rep:
        chk.build(["theories/Corr/C05.vo"])
        stats = collections.Counter()
        end_to_end_one(chk, rep["project"], rep["files"], rep["cfg"], stats, graph=True)
        pend = getattr(chk, "_pending", [])
        for _, _, payload, _ in pend[:5]:
            print({k: v for k, v in payload.items() if k not in ("files", "project", "log")})
        print(dict(stats))
        return 1 if pend else 0
    print("nothing to replay in", sorted(rep))
    return 0


def finish(chk):
    return chk.finish(
        level_note="Coq proofs over all entity trees (any size, depth, configuration) about a model of FORD's display "
                   "inheritance, prune() and visible flags; model tied to ford.sourceform / Project.correlate by "
                   "differential runs; template-level half covered by the tracer-word search only",
        trusted_base=["Coq 8.16.1 kernel (vm_compute for cases and witnesses)",
                      "harness/gen/display.py (generator, renderer tree -> Fortran text), harness/props/c05.py",
                      "hand-written model and Spec in Sem/Display.v",
                      "entity.permission as FORD computes it is read from the implementation (a_perm); the accessibility "
                      "Fortran defines (a_acc) is fixed by the generator (default statement first, explicit keywords)",
                      "Jinja templates, tipue search: not modelled — searched end to end (incl_src: false)"],
        rule="distinct = distinct (text, configuration) of the option product, of a random project, or of a full run",
        checker_cmd="make theories/Props/C05.vo && coqc theories/Props/C05.v (Print Assumptions)",
        assumptions=["no EXTENDS, no USE association between the generated modules",
                     "the procedure behind a selected binding / generic interface counts as shown at that site "
                     "(DESIGN §6 C05)", "source listings (incl_src) are not documentation text"])
