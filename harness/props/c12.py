"""C12 — the output is a deterministic function of the inputs.

(a) model correspondence (model_correspondence): generated projects are run in-process through the whole of
    ford.main.  ford.fortran_project.find_all_files is replaced so that the set of source files is handed over
    in a chosen order; the real code sorts it, so every such run must parse the files in the order the model
    computes (isort path_leb: path components, not strings), walk the fixed phases (rank-ordered loops, list
    pages) in exactly the same sequence, and all of them must agree (bit1, the property; there is no known
    region any more).  The same orders are then run with the name `sorted` neutralised inside
    ford.fortran_project, which drives the pipeline through arbitrary enumerations.  In every run the model
    (Out/Project.v idents_enum over the segments measured on the first run) must reproduce the identifier of
    every entity, and the set-ordered phases (toposort of modules, toposorts of a scope's types, graph
    construction) may only ask for entities that an earlier by-file or fixed phase has asked for (bit0).
    Independently of the judge, the tracer records every FIRST request of an entity inside such a loop
    (projects with graph: true and proc_internals: true are traced too, without running dot): it is reported
    as a violation with the project as failing input.
    graph_emission: node order of every graph hop, child-edge order of every InheritedByGraph node, rows of
    the table that replaces an oversized graph, and ford.output.sort_by_name against the model.
(b) the property on real runs (e2e): `python -m ford` in subprocesses, several PYTHONHASHSEED values, parallel
    in {0, 2, 8}, output directory absent / stale from another project / from the same project, the same
    project moved to another directory, graphs and graph tables (graph_maxnodes) with equally labelled
    neighbours, same-seed repeats of projects with equally named types / inherited generic bindings / internal
    procedures (object ids vary from process to process); recursive byte comparison; ANY difference is a
    VIOLATION.
(c) output directory inside a source directory (stale_nested, forced in every run): src_dir: . with ./doc or
    `-o out2` below it, a page directory holding a Fortran file, incl_src false / true, `--exclude_dir` on the command
    line; output directory absent / left by the same project / left by another project with src/*.f90; plus
    find_all_files itself against Out/Project.v sources.  Any difference is a failing input.
    the process pool (pool): graph: true with graph_dir set, parallel in {0, 2, 3, 8} on generated projects whose
    number of graph tasks exceeds and is not a multiple of the worker counts; the full trees (doc/ and the graph
    directory) must equal those of parallel: 0; a missing or extra file is a failing input.
(d) findings: the one open finding is replayed (KNOWN-FINDING line); the witnesses of the fixed findings are
    regression inputs.
"""
import itertools
import os
import re
import time
from concurrent.futures import ThreadPoolExecutor

from harness import core
from harness.core import coq_str, coq_list
from harness.gen import program as G
from harness.gen import c12proj as P
from harness.impl import fordrun as F
from harness.impl import c12run as R

IMPORTS = "From Ford Require Import Base.Str Base.Order Out.Names Out.Project Corr.C12."
THEOREMS = ["C12_deterministic", "C12_file_order_irrelevant", "C12_set_order_irrelevant",
            "C12_ident_by_key", "C12_repeated_requests_irrelevant", "C12_sorted_is_canonical_any_order", "C12_location_irrelevant",
            "C12_former_witnesses_repaired", "C12_unsorted_refuted", "C12_free_sets_refuted",
            "C12_noclash_order_irrelevant", "C12_uses_sorted", "C12_uses_unsorted_refuted",
            "C12_graph_emission_sorted", "C12_child_edges_sorted", "C12_child_edges_unsorted_refuted",
            "C12_table_rows_sorted", "C12_table_rows_from_set_refuted", "C12_stale_output_irrelevant",
            "C12_sources_ignore_output", "C12_rerun_stale_irrelevant", "C12_sources_unexcluded_refuted",
            "C12_merge_refuted"]
CASE_T = "acase"
DATE = re.compile(rb" on \d{4}-\d\d-\d\dT[0-9:.+-]+ ")


# ----------------------------------------------------------------------------- (a) model correspondence

def fortran_files(files):
    """the files find_all_files selects (the generated projects enable *.inc as an extra file type when
    they contain such files)"""
    return sorted(f for f in files if f.endswith((".f90", ".F90", ".f", ".for", ".inc")))


def nat_list(l):
    return coq_list(str(x) for x in l)


def sparse(d):
    return coq_list(f"({k}, {nat_list(v)})" for k, v in sorted(d.items()))


def build_case(order0, runs):
    """-> (Coq term, problems) for one project traced under several enumeration orders"""
    problems = []
    ids, ents = {}, {}
    for r in runs:
        for key in r["final"]:
            ids.setdefault(key, len(ids) + 1)
        ents.update(r["ents"])
    for key, (d, n) in ents.items():
        if not (core.is_ascii(d) and core.is_ascii(n)):
            return None, ["non-ASCII name"]
    r0 = runs[0]
    for r in runs:
        if r["unknown"]:
            problems.append(f"requests outside every modelled loop: {r['unknown']}")
        if not R.phases_in_pipeline_order(r["seq"]):
            problems.append(f"phases were not walked in pipeline order: {r['seq']}")
        for (k, fkey) in r["segs"]:
            if fkey not in order0:
                problems.append(f"request in a by-file phase {k} on behalf of no source file ({fkey})")
    ents_t = coq_list(f"({ids[key]}, ({coq_str(d)}, {coq_str(n)}))" for key, (d, n) in ents.items())
    files_t = []
    for rel in order0:
        segs = {k: [ids[e] for e in v] for (k, fkey), v in r0["segs"].items() if fkey == rel}
        files_t.append(f"({coq_list(coq_str(c) for c in rel.split('/'))}, {sparse(segs)})")
    runs_t = []
    for r in runs:
        pi = [order0.index(x) for x in r["forced"] if x in order0]
        obs = [order0.index(x) for x in r["enum"] if x in order0]
        fixed = {k: [ids[e] for e in v] for k, v in r["fixed"].items()}
        idsets = {k: [ids[e] for e in v] for k, v in r["idsets"].items()}
        impl = coq_list(f"({ids[key]}, {coq_str(v)})" for key, v in r["final"].items())
        mode = "false" if r.get("unsorted") else "true"
        runs_t.append(f"(({mode}, {nat_list(pi)}, {nat_list(obs)}), {sparse(fixed)}, {sparse(idsets)}, {impl})")
    return f"({ents_t}, {coq_list(files_t)}, {coq_list(runs_t)})", problems


def perms_for(rng, n, tier):
    base = list(range(n))
    allp = [list(p) for p in itertools.permutations(base)][1:]
    if tier == "thorough" and n <= 4:
        return allp
    k = 2 if tier == "quick" else 30
    picks = [base[::-1]] if n > 1 else []
    rest = [p for p in allp if p not in picks]
    rng.shuffle(rest)
    return (picks + rest)[:k]


def collision_knobs(rng):
    pool = rng.choice([["x", "y", "init", "solve"], ["a", "A", "b"], ["alpha", "Alpha", "beta"]])
    return {"names": G.default_names(pool), "nfiles": rng.choice([2, 3, 4]),
            "dirs": rng.choice([["src"], ["src", "src/sub1"]]),
            "p_operator": 0.3, "p_generic": 0.6, "p_internal": 0.4}


def model_projects(chk, rng):
    n = 6 if chk.tier == "quick" else 16
    out = []
    # the refutation witness of Props/C12.v, as a real project, always first
    out.append(("witness", {"src/a.f90": "module ma\n  integer :: x\n    !! doc of x in a\nend module ma\n",
                            "src/b.f90": "module mb\n  integer :: x\n    !! doc of x in b\nend module mb\n"},
                {"clash": True}))
    # the former toposort witness: equally named modules in one level of the toposort
    out.append(("twins", dict(WIT_TWINS), {"clash": True, "modclash": True}))
    # sorted(paths) compares path components, not strings: A.f90 < a/b.f90 < a-b.f90 < a.f90
    out.append(("paths", {f"src/{p}.f90": f"module m{k}\n  integer :: x\n    !! doc of x\nend module m{k}\n"
                          for k, p in enumerate(["a-b", "a/b", "a", "A"])}, {"clash": True}))
    for i in range(n):
        files, meta = P.gen(rng, clash=(i % 3 != 2), modclash=(i % 3 == 1), multiuse=rng.random() < 0.5,
                            children=rng.random() < 0.5)
        out.append(("c12proj", files, meta))
    for i in range(n):
        out.append(("program", G.render_project(G.gen_project(rng, collision_knobs(rng))), {}))
    files, meta = P.gen(rng, nfiles=2, clash=True, extra=True)
    out.append(("c12proj-extra", files, meta))
    # identifiers that used to be assigned while a set of objects was sorted
    out.append(("renamed-parent", dict(WIT_TYPES), {"clash": True, "options": {}}))
    out.append(("inherited-generic", dict(WIT_GENERIC), {"clash": True, "options": {"graph": "true"}}))
    for i in range(2 if chk.tier == "quick" else 8):
        files, meta = P.gen_shapes(rng)
        out.append(("shapes", files, meta))
    for i in range(1 if chk.tier == "quick" else 4):
        files, meta = P.gen(rng, clash=True, multiuse=True, children=True)
        meta = dict(meta, options={"graph": "true", "proc_internals": "true"})
        out.append(("c12proj-graphs", files, meta))
    return out


def model_correspondence(chk, rng):
    import multiprocessing
    from concurrent.futures import ProcessPoolExecutor
    cases, info = [], []
    jobs = []
    for kind, files, meta in model_projects(chk, rng):
        order0 = fortran_files(files)
        opts = {"search": rng.choice(["true", "false"]), "incl_src": rng.choice(["true", "false"])}
        if meta.get("extra"):
            opts.update({"extra_filetypes": "inc !", "incl_src": "true"})
        opts.update(meta.get("options") or {})
        jobs.append((kind, files, meta, order0, opts, perms_for(rng, len(order0), chk.tier)))
    with ProcessPoolExecutor(max_workers=8, mp_context=multiprocessing.get_context("fork")) as ex:
        futs = [ex.submit(R.trace_project, files, order0, perms, opts)
                for kind, files, meta, order0, opts, perms in jobs]
        traced = [f.result() for f in futs]
    for (kind, files, meta, order0, opts, perms), runs in zip(jobs, traced):
        if runs[0]["err"]:
            chk.count(("model-invalid", tuple(order0)), nontrivial=False)
            chk.notes.append(f"FORD rejected a generated project ({kind}): {runs[0]['err']}")
            continue
        errs = {r["err"] for r in runs}
        if errs != {None}:
            chk.violation("failing-input", {"what": "FORD fails under one enumeration order and not under another",
                                            "errors": sorted(map(str, errs)), "files": files}, True)
            continue
        uncovered = sorted({u for r in runs for u in r.get("uncovered", [])})
        if uncovered:
            chk.violation("failing-input",
                          {"what": "an entity is asked for its identifier for the FIRST time inside a loop whose "
                                   "order comes from a set of objects hashed by id() (toposort of modules / of a "
                                   "scope's types, graph construction): equally named entities would be numbered "
                                   "in set order; the model assumes such loops only repeat requests",
                           "first_requests": [{"phase": u[0], "dir": u[1], "name": u[2], "kind": u[3], "file": u[4]}
                                              for u in uncovered[:12]],
                           "options": opts, "files": files}, True)
        term, problems = build_case(order0, runs)
        if term is None:
            continue
        nent = len(runs[0]["final"])
        chk.count(("model", kind, tuple(sorted(files.items()))), nontrivial=len(order0) > 1,
                  sample={"files": order0, "entities": nent, "options": opts,
                          "runs": [{"handed_over": r["forced"], "sort_neutralised": r["unsorted"],
                                    "parsed": r["enum"]} for r in runs][:4]})
        chk.extra.setdefault("model_runs", 0)
        chk.extra["model_runs"] += len(runs)
        if problems:
            chk.violation("broken-correspondence",
                          {"what": "the real pipeline does not have the loop structure of Out/Project.v",
                           "problems": problems[:5], "files": files}, False)
            continue
        cases.append(term)
        info.append((files, opts, runs, meta))
    res = chk.coq_judge(IMPORTS, CASE_T, "judge", cases, shard=4)
    if res is None:
        return
    chk.traces += sum(len(i[2]) for i in info)
    nclash = 0
    for idx, (files, opts, runs, meta) in enumerate(info):
        code = res.get(idx, 0)
        real = [r for r in runs if not r["unsorted"]]
        differs = any(r["final"] != real[0]["final"] for r in real[1:])
        spec = [{"forced": r["forced"], "unsorted": r["unsorted"]} for r in runs]
        if code & 2:
            chk.disagreements += 1
            nclash += 1
            chk.violation("failing-input",
                          {"what": "the real code assigns different identifiers when the set of source files is "
                                   "iterated in another order or from one run to the next",
                           "runs": spec, "parse_orders": [r["enum"] for r in runs], "options": opts,
                           "code": code, "files": files}, True)
        elif differs:
            chk.violation("broken-correspondence", {"what": "judge missed a difference", "files": files}, False)
        if code & 1:
            bad = chk.coq_eval(IMPORTS, f"bad_runs {cases[idx]}")
            chk.violation("broken-correspondence",
                          {"what": "a traced run differs from the model (parse order = sorted order of the paths; "
                                   "fixed phases identical in all real runs; id-set phases only repeat requests "
                                   "of earlier by-file phases; identifier of every entity)",
                           "code": code, "bad_runs": bad[-300:], "runs": spec,
                           "parse_orders": [r["enum"] for r in runs], "options": opts, "files": files}, False)
    chk.extra["model_projects_whose_real_runs_disagree"] = nclash


# ----------------------------------------------------------------------------- graph node emission

def graph_emission(chk, rng):
    import ford.graphs as fg
    cases, info = [], []
    nproj = 3 if chk.tier == "quick" else 12
    orig_flag = fg.graphviz_installed
    orig_add = fg.FortranGraph.add_to_graph
    log = []

    def add_to_graph(self, nodes, edges, nesting):
        given = [n.ident for n in nodes]
        got = []
        real = self.dot.node

        def rec(name, *a, **kw):
            got.append(name)
            return real(name, *a, **kw)
        self.dot.node = rec
        try:
            r = orig_add(self, nodes, edges, nesting)
        finally:
            del self.dot.node
        if r and len(given) > 0:
            log.append((self.ident, given, got))
        return r
    orig_node = fg.InheritedByGraph.add_node
    elog = []

    def add_node(self, hop_nodes, hop_edges, node, colour):
        n0 = len(hop_edges)
        given = [c.ident for c in node.children]
        r = orig_node(self, hop_nodes, hop_edges, node, colour)
        tails = [e["edge"]["tail_name"] for e in hop_edges[n0:] if e["edge"]["style"] == "solid"]
        if len(given) >= 2:
            elog.append((node.ident, given, tails))
        return r
    orig_table = fg.FortranGraph._make_graph_as_table
    tlog = []

    def make_table(self):
        given = [(n.ident, str(n.attribs["label"]), n.attribs.get("URL")) for n in self.hop_nodes]
        html = orig_table(self)
        rows = re.findall(r'class="node" bgcolor="[^"]*">(?:<a href="([^"]*)">)?([^<]*)', html)
        tlog.append((type(self).__name__, self.ident, given, rows))
        return html
    fg.graphviz_installed = False
    fg.FortranGraph.add_to_graph = add_to_graph
    fg.InheritedByGraph.add_node = add_node
    fg.FortranGraph._make_graph_as_table = make_table
    ecases, einfo = [], []
    tcases, tinfo = [], []
    try:
        for i in range(nproj + (2 if chk.tier == "quick" else 8)):
            if i < nproj:
                files, meta = P.gen(rng, nfiles=rng.choice([3, 4]), clash=(i % 2 == 0), multiuse=True, children=True)
                gopts = {"graph": "true", "search": "false"}
            else:
                files, meta = P.gen_table(rng)
                gopts = {"graph": "true", "search": "false", "graph_maxnodes": str(rng.choice([2, 3]))}
            with F.Work(files) as w:
                del log[:]
                del elog[:]
                del tlog[:]
                data, out, err = F.full_run_inprocess(w.root, gopts)
            if err:
                chk.notes.append(f"graph emission: FORD failed: {err}")
                continue
            seen = set()
            for cls, gid, given, rows in tlog:
                # graphs whose add_node walks its neighbours in sorted order (the type graphs walk dicts)
                if cls in ("InheritsGraph", "InheritedByGraph", "TypeGraph") or len(given) < 2:
                    continue
                tok = {}
                for ident, label, url in given:
                    tok.setdefault((url or "", label), []).append(ident)
                if any(len(v) > 1 for v in tok.values()) or (gid, tuple(rows)) in seen \
                        or len(rows) != len(given) or any((u, l) not in tok for u, l in rows):
                    continue
                seen.add((gid, tuple(rows)))
                impl = [tok.get((u, l), ["?"])[0] for u, l in rows]
                shuffled = [(i_, l) for i_, l, _ in given]
                rng.shuffle(shuffled)
                if not all(core.is_ascii(a) and core.is_ascii(b) for a, b in shuffled):
                    continue
                tcases.append("(" + coq_list(f"({coq_str(a)}, {coq_str(b)})" for a, b in shuffled) + ", "
                              + coq_list(map(coq_str, impl)) + ")")
                tinfo.append((gid, given, rows))
                chk.count(("table", gid, tuple(impl)),
                          nontrivial=len({l.lower() for _, l in shuffled}) < len(shuffled),
                          sample={"table_of": gid, "neighbours_in_set_order": [g[:2] for g in given],
                                  "rows": impl})
            for parent, given, tails in elog:
                if (parent, tuple(tails)) in seen or not all(map(core.is_ascii, given + tails + [parent])):
                    continue
                seen.add((parent, tuple(tails)))
                shuffled = list(given)
                rng.shuffle(shuffled)
                ecases.append(f"({coq_str(parent)}, {coq_list(map(coq_str, shuffled))}, "
                              f"{coq_list(map(coq_str, tails))})")
                einfo.append((parent, given, tails))
                chk.count(("edges", parent, tuple(tails)),
                          sample={"inherited_by": parent, "children_set_order": given, "edge_tails": tails})
            for ident, given, got in log:
                if len(given) < 2 or (tuple(given), tuple(got)) in seen or not all(map(core.is_ascii, given + got)):
                    continue
                seen.add((tuple(given), tuple(got)))
                shuffled = list(given)
                rng.shuffle(shuffled)
                cases.append(f"({coq_list(map(coq_str, shuffled))}, {coq_list(map(coq_str, got))})")
                info.append((ident, shuffled, got))
                chk.count(("emit", tuple(got)), sample={"graph": ident, "set_order": given, "emitted": got})
    finally:
        fg.graphviz_installed = orig_flag
        fg.FortranGraph.add_to_graph = orig_add
        fg.InheritedByGraph.add_node = orig_node
        fg.FortranGraph._make_graph_as_table = orig_table
    tres = chk.coq_judge(IMPORTS, "list (str * str) * list str", "judge_table", tcases)
    if tres is not None:
        chk.traces += len(tcases)
        chk.extra["graph_table_cases"] = len(tcases)
        for idx, code in sorted(tres.items())[:3]:
            gid, given, rows = tinfo[idx]
            chk.violation("failing-input",
                          {"what": "the rows of the table that replaces an oversized graph are not the stable "
                                   "label-sort of the identifier-ordered neighbours (equally labelled neighbours "
                                   "must not come out in set order)", "graph": gid,
                           "neighbours_in_set_order": given, "rows": rows, "code": code}, True)
    uses_filter(chk, rng)
    eres = chk.coq_judge(IMPORTS, "str * list str * list str", "judge_edges", ecases)
    if eres is not None:
        chk.traces += len(ecases)
        chk.extra["inheritedby_edge_cases"] = len(ecases)
        for idx, code in sorted(eres.items())[:3]:
            parent, given, tails = einfo[idx]
            chk.violation("failing-input" if code & 2 else "broken-correspondence",
                          {"what": "the child edges of an 'inherited by' graph are not emitted in sorted order",
                           "type": parent, "children_in_set_order": given, "edge_tails": tails, "code": code},
                          bool(code & 2))
    res = chk.coq_judge(IMPORTS, "list str * list str", "judge_emit", cases)
    if res is None:
        return
    chk.traces += len(cases)
    for idx, code in sorted(res.items())[:3]:
        ident, given, got = info[idx]
        chk.violation("failing-input" if code & 2 else "broken-correspondence",
                      {"what": "graph nodes are not emitted in sorted identifier order", "graph": ident,
                       "nodes": given, "emitted": got, "code": code}, bool(code & 2))


def uses_filter(chk, rng):
    """ford.output.sort_by_name (the "Uses" list is rendered through it) against Out/Project.v shown_uses"""
    import ford.output as fo
    f = getattr(fo, "sort_by_name", None)
    used = 'obj.uses | sort_by_name' in (core.REPO / "ford" / "templates" / "macros.html").read_text()
    if f is None or not used:
        chk.violation("broken-correspondence",
                      {"what": "the model renders the \"Uses\" list through ford.output.sort_by_name "
                               "(templates/macros.html use_list), which this tree does not have",
                       "filter_defined": f is not None, "template_uses_it": used}, False)
        return

    class Stub:
        def __init__(self, name):
            self.name = name
    pool = ["ma", "Ma", "MA", "mb", "MB", "iso_c_binding", "ISO_FORTRAN_ENV", "m_1", "m1", "M", "z", "a", "A",
            "omp_lib", "m", "mod~2", "Z9", "_x"]
    cases, info = [], []
    for _ in range(40 if chk.tier == "quick" else 400):
        names = rng.sample(pool, rng.choice([2, 3, 4, 6]))
        items = {(n if rng.random() < 0.4 else Stub(n)) for n in names}       # a set, as self.uses is
        try:
            got = [getattr(x, "name", x) for x in f(items)]
        except Exception as e:  # noqa
            got = ["EXC:" + type(e).__name__]
        given = list(names)
        rng.shuffle(given)
        cases.append(f"({coq_list(map(coq_str, given))}, {coq_list(map(coq_str, got))})")
        info.append((given, got))
        chk.count(("uses", tuple(sorted(names))), sample={"uses": given, "rendered_order": got})
    res = chk.coq_judge(IMPORTS, "list str * list str", "judge_uses", cases)
    if res is None:
        return
    chk.traces += len(cases)
    for idx, code in sorted(res.items())[:2]:
        given, got = info[idx]
        chk.violation("failing-input", {"what": "sort_by_name does not return the (lower-cased name, name) order",
                                        "names": given, "returned": got, "code": code}, True)


# ----------------------------------------------------------------------------- (b) real runs

def mask(tree, opts=None):
    """the creation timestamp is masked only when the project enables it explicitly"""
    if not opts or opts.get("print_creation_date") != "true":
        return tree
    return {p: (DATE.sub(b" on <DATE> ", d) if p.endswith(".html") else d) for p, d in tree.items()}


def applicable(meta, opts, same_seed):
    """the open recorded findings a difference between two runs may be due to: none is left"""
    return set()


def e2e_plan(chk, rng):
    """-> list of (name, files, meta, options, [run specs]); a run spec is (label, seed, extra options, stale)"""
    quick = chk.tier == "quick"
    plan = []
    flags = [dict(), dict(clash=True), dict(multiuse=True), dict(clash=True, modclash=True, multiuse=True),
             dict(), dict(clash=True, multiuse=True), dict(extra=True), dict(modclash=True)]
    if not quick:
        flags = flags * 4 + [dict(children=True), dict(clash=True, children=True, multiuse=True)] * 2
    for i, fl in enumerate(flags):
        files, meta = P.gen(rng, nfiles=rng.choice([2, 3, 4] if quick else [2, 3, 4, 5]), **fl)
        opts = {"search": "true" if i % 2 else "false", "incl_src": rng.choice(["true", "false"]),
                "externalize": "true" if i % 3 == 0 else "false"}
        if i == 0:
            opts["print_creation_date"] = "true"
        if meta.get("extra"):
            opts.update({"extra_filetypes": "inc !", "incl_src": "true"})
        s0 = rng.randrange(1000)
        seeds = [s0] + [rng.randrange(1000) for _ in range(2 if quick else 5)]
        runs = [("seed", s, {}, None) for s in seeds]
        runs += [("parallel", s0, {"parallel": str(p)}, None) for p in (0, 2, 8)]
        runs += [("stale-other", s0, {}, "other"), ("stale-same", s0, {}, "same")]
        runs += [("location", s0, {}, None), ("location", seeds[1], {}, None)]
        plan.append((f"p{i}", files, meta, opts, runs))
    # graphs (dot): few runs, they are slow
    for i in range(1 if quick else 4):
        files, meta = P.gen(rng, nfiles=2 if quick else 3, children=True, multiuse=(i % 2 == 1))
        opts = {"graph": "true", "search": "false"}
        s0 = rng.randrange(1000)
        runs = [("seed", s0, {}, None), ("seed", s0 + 1, {}, None), ("seed", s0 + 2, {}, None),
                ("parallel", s0, {"parallel": "0"}, None), ("parallel", s0, {"parallel": "2"}, None),
                ("location", s0 + 3, {}, None)]
        plan.append((f"g{i}", files, meta, opts, runs))
    # identifiers formerly assigned in set order: types through a renamed import, inherited generic bindings,
    # internal procedures (graph: true, proc_internals: true); object ids vary from run to run, not with the seed
    for i in range(2 if quick else 6):
        files, meta = P.gen_shapes(rng)
        opts = dict(meta["options"])
        s0 = rng.randrange(1000)
        runs = [("seed", s0, {}, None)] * (4 if quick else 6) + [("seed", s0 + 1, {}, None), ("location", s0, {}, None)]
        plan.append((f"s{i}", files, meta, opts, runs))
    # graphs that fall back to the HTML table (graph_maxnodes), equally labelled neighbours
    for i in range(1 if quick else 4):
        files, meta = P.gen_table(rng)
        opts = {"graph": "true", "search": "false", "graph_maxnodes": str(rng.choice([2, 3]))}
        s0 = rng.randrange(1000)
        runs = [("seed", s0 + k, {}, None) for k in range(4 if quick else 6)] + [("location", s0 + 9, {}, None)]
        plan.append((f"t{i}", files, meta, opts, runs))
    return plan


MOVED = "zz else where/Deep-er/0"


def e2e(chk, rng):
    plan = e2e_plan(chk, rng)
    other = P.other_project(rng)
    rc0, _, other_tree, _ = R.subprocess_run(other, {}, 1)
    measure = 2 if chk.tier == "quick" else 6

    def one(entry):
        idx, (name, files, meta, opts, runs) = entry
        res, orders = [], None
        with F.Work() as w:
            pd = R.ProjectDir(w.root, name, files)
            moved = R.ProjectDir(w.root / MOVED, name, files)     # the same project somewhere else
            for (label, seed, extra, stale) in runs:
                o = dict(opts)
                o.update(extra)
                t = time.time()
                where = moved if label == "location" else pd
                rc, out, tree, _ = where.run(o, seed, stale=(other_tree if stale == "other" else stale))
                res.append((rc, out, tree, time.time() - t))
            if idx < measure:
                orders = {s: R.enumeration_order(pd.root, s) for s in sorted({r[1] for r in runs})}
        return res, orders
    with ThreadPoolExecutor(max_workers=8) as ex:
        per_project = list(ex.map(one, enumerate(plan)))
    results = [r for res, _ in per_project for r in res]
    jobs = results
    for (name, *_), (_, orders) in zip(plan, per_project):
        if orders:
            chk.extra.setdefault("enumeration_order_by_seed", []).append({"project": name, "orders": orders})
    chk.extra["e2e_runs"] = len(jobs)
    chk.extra["e2e_mean_run_s"] = round(sum(r[3] for r in results) / max(1, len(results)), 2)
    it = iter(results)
    explained = {}
    for name, files, meta, opts, runs in plan:
        rs = [next(it) for _ in runs]
        base_rc, base_out, base_tree, _ = rs[0]
        base_tree = mask(base_tree, opts)
        s0 = runs[0][1]
        if base_rc != 0:
            chk.count(("e2e-invalid", name), nontrivial=False)
            chk.notes.append(f"e2e {name}: FORD failed on a generated project: {base_out[-300:]}")
            continue
        for (label, seed, extra, stale), (rc, out, tree, _) in zip(runs[1:], rs[1:]):
            same_seed = seed == s0
            o = dict(opts)
            o.update(extra)
            chk.count(("e2e", name, label, seed, tuple(sorted(extra.items())), stale),
                      sample={"project": sorted(files), "flags": meta, "options": o, "run": label, "seed": seed})
            if rc != 0:
                chk.violation("failing-input", {"what": "a run fails where the reference run succeeds",
                                                "run": label, "seed": seed, "options": o, "log": out[-1500:],
                                                "files": files}, True)
                continue
            cl = R.classify(base_tree, mask(tree, opts), applicable(meta, o, same_seed))
            if cl is None:
                continue
            chk.disagreements += 1
            why, detail = cl
            if why is None or not all(chk.known(k, False) for k in why):
                chk.violation("failing-input",
                              {"what": "two runs on the same project and options differ in a way no recorded "
                                       "finding explains", "run": label, "seeds": [s0, seed], "options": o,
                               "reference_options": opts, "stale": stale, "flags": meta,
                               "applicable_findings": sorted(applicable(meta, o, same_seed)),
                               "first_difference": detail, "explained_by": why, "files": files},
                              True)
            else:
                for k in why:
                    explained[k] = explained.get(k, 0) + 1
    chk.extra["e2e_differences_by_finding"] = explained


# ----------------------------------------------------------------------------- recorded findings

WIT_ANCHORS = {"src/a.f90": "module ma\n  integer :: x\n    !! doc of x in a\nend module ma\n",
               "src/b.f90": "module mb\n  integer :: x\n    !! doc of x in b\nend module mb\n",
               "src/c.f90": "module mc\n  integer :: x\n    !! doc of x in c\nend module mc\n"}
WIT_USES = {"src/a.f90": "module ma\nend module ma\n", "src/b.f90": "module mb\nend module mb\n",
            "src/d.f90": "module md\nend module md\n",
            "src/c.f90": "module mc\n  use ma\n  use mb\n  use md\nend module mc\n"}
WIT_FOUR = {f"src/{c}.f90": f"module m{c}\n  integer :: v{c}\n    !! doc of v{c}\nend module m{c}\n" for c in "abcd"}
WIT_TWINS = {f"src/{nm}{k}.f90": f"module {nm}\n  integer :: x{nm}{k}\nend module {nm}\n"
             for nm in "mnpq" for k in "ab"}
WIT_KIDS = {"src/a.f90": "module ma\n  type :: base\n    integer :: i\n  end type\n"
                         + "".join(f"  type, extends(base) :: c{k}\n    integer :: j{k}\n  end type\n" for k in range(1, 5))
                         + "end module ma\n"}


WIT_TYPES = {"src/a.f90": "module a\n  type :: t\n    integer :: i\n  end type t\nend module a\n",
             "src/b.f90": "module b\n  use a, only: at => t\n  type :: t\n    integer :: j\n  end type t\n"
                          "  type, extends(at) :: child\n    integer :: k\n  end type child\nend module b\n"}
WIT_GENERIC = {"src/m.f90": "module m\n  type :: base\n  contains\n    procedure :: show_a\n    procedure :: show_b\n"
                            "    generic :: show => show_a, show_b\n  end type base\n"
                            + "".join(f"  type, extends(base) :: c{k}\n  end type c{k}\n" for k in (1, 2, 3))
                            + "contains\n  subroutine show_a(self)\n    class(base) :: self\n  end subroutine show_a\n"
                              "  subroutine show_b(self, n)\n    class(base) :: self\n    integer :: n\n"
                              "  end subroutine show_b\nend module m\n"}
WIT_TABLE = {"src/base.f90": "module base\ncontains\n  subroutine helper()\n  end subroutine helper\nend module base\n",
             **{f"src/m{k}.f90": f"module m{k}\n  use base\ncontains\n  subroutine init()\n    call helper()\n"
                                 f"  end subroutine init\nend module m{k}\n" for k in range(1, 6)}}


def differ(files, opts, seeds, attempts):
    """several runs of one project in one directory -> (are all output trees byte-identical?, a sample difference)"""
    trees = R.subprocess_runs(files, [(opts, s, None) for s in seeds][:attempts])
    ok = [t[2] for t in trees if t[0] == 0]
    if len(ok) < len(trees) or len(ok) < 2:
        bad = [t for t in trees if t[0] != 0]
        return False, ("a run failed", "exit code %d" % bad[0][0], [bad[0][1][-300:]])
    for t in ok[1:]:
        cl = R.classify(ok[0], t)
        if cl is not None:
            return False, cl[1]
    return True, None


def findings(chk, rng):
    """the witnesses of the fixed findings are regression inputs: any difference between the output trees of
    repeated runs is a VIOLATION with that input.  The one open finding (graph_dir + process pool) is replayed
    and prints its KNOWN-FINDING line while it persists."""
    quick = chk.tier == "quick"
    checks = [
        # key, project, options, seeds, fixed by
        ("uses-set-order", WIT_USES, {}, [3] * 8, "the Uses repair"),
        ("toposort-id-order", WIT_TWINS, {}, [3] * 8, "the toposort repair"),
        ("file-order-anchors", WIT_ANCHORS, {"search": "false"}, list(range(1, 9)), "80d6c91"),
        ("file-order-search-db", WIT_FOUR, {"search": "true"}, list(range(1, 7)), "80d6c91"),
        ("file-order-modules-json", WIT_FOUR, {"externalize": "true"}, list(range(1, 7)), "80d6c91"),
        ("inheritedby-children-order", WIT_KIDS, {"graph": "true"}, list(range(1, 6)), "c3c7c8e"),
        ("type-toposort-id-order", WIT_TYPES, {}, [3] * 8, "the type-toposort repair"),
        ("graph-all-id-order", WIT_GENERIC, {"graph": "true"}, [3] * 8, "the graph_all repair"),
        ("graph-table-rows (never a defect of /repo: seeded change)", WIT_TABLE,
         {"graph": "true", "graph_maxnodes": "3"}, list(range(1, 6)), None),
    ]
    with ThreadPoolExecutor(max_workers=8) as ex:
        outcomes = list(ex.map(lambda c: differ(c[1], c[2], c[3], 5 if quick else 8), checks))
        pool_run = ex.submit(R.subprocess_run, WIT_KIDS,
                             {"graph": "true", "graph_dir": "./graphs", "parallel": "2"}, 1)
        rc, out, tree, _ = pool_run.result()
    for (key, files, opts, seeds, fixed_by), (same, detail) in zip(checks, outcomes):
        chk.count(("finding", key), sample={"witness_of": key, "fixed_by": fixed_by, "runs_identical": same,
                                            "first_difference": detail})
        if not same:
            chk.violation("failing-input",
                          {"what": f"regression: repeated runs of the witness of {key}"
                                   + (f" (fixed by {fixed_by})" if fixed_by else "") + " give different output trees",
                           "seeds": [seeds[0], seeds[-1]], "options": opts, "first_difference": detail,
                           "files": files}, True)
    # graph_dir + process pool
    crashed = rc != 0 and "pickle" in out
    chk.count(("finding", "graph-dir-parallel-pickle"), sample={"rc": rc, "log_tail": out[-200:]})
    if rc != 0 and not crashed:
        chk.violation("failing-input", {"what": "graph_dir with parallel=2 fails in an unrecorded way",
                                        "log": out[-1500:]}, True)
    if not chk.known("graph-dir-parallel-pickle", crashed) and crashed:
        chk.violation("failing-input", {"what": "graph_dir with parallel=2 crashes", "log": out[-1500:]}, True)
    if not crashed and rc == 0:
        rc0, out0, tree0, _ = R.subprocess_run(WIT_KIDS, {"graph": "true", "graph_dir": "./graphs", "parallel": "0"}, 1)
        cl = R.classify(mask(tree0), mask(tree), set())
        if cl is not None:
            chk.violation("failing-input", {"what": "parallel=2 and parallel=0 write different trees",
                                            "first_difference": cl[1]}, True)


# ----------------------------------------------------------------------------- output directory inside a source directory

def nested_project(rng):
    """src_dir: . with the output directory below it (the default ./doc, or -o out2); a static page directory that
    holds a Fortran file (copied to <out>/page/), sources in the root and in a subdirectory"""
    a, b = rng.sample(["alpha", "beta", "gamma", "delta", "kappa"], 2)
    return {f"{a}.f90": f"module {a}\n  integer :: v_{a}\n    !! doc of v_{a}\nend module {a}\n",
            f"lib/{b}.f90": f"module {b}\n  use {a}\ncontains\n  subroutine s_{b}()\n    !! does {b}\n  end subroutine s_{b}\n"
                            f"end module {b}\n",
            "pages/index.md": "---\ntitle: Notes\n---\n\nSome notes, see example.f90.\n",
            "pages/example.f90": "program example\n  !! the example of the notes\nend program example\n"}


def stale_nested(chk, rng):
    """'regardless of what an earlier run left in the output directory', where it matters most: the output
    directory lies INSIDE a source directory, so only its exclusion from the source search keeps the files an earlier
    run left there (copied sources, page attachments) from being documented.  Every variant: output directory
    absent / left by the same project / left by another project (with src/*.f90); trees must be byte-identical."""
    files = nested_project(rng)
    other = R.subprocess_run(P.other_project(rng), {"incl_src": "true"}, 1)[2]
    base = {"src_dir": ".", "page_dir": "./pages", "search": "false"}
    variants = [
        ("incl_src false", dict(base, incl_src="false"), (), "doc"),
        ("incl_src true", dict(base, incl_src="true"), (), "doc"),
        ("-o out2", dict(base, incl_src="false"), ("-o", "out2"), "out2"),
        ("--exclude_dir", dict(base, incl_src="true"), ("--exclude_dir", "./no_such_dir"), "doc"),
    ]

    def one(v):
        name, opts, cli, out = v
        res = []
        with F.Work() as w:
            pd = R.ProjectDir(w.root, "nested", files)
            for stale in (None, "same", other, "same"):
                res.append(pd.run(opts, 4, stale=stale, extra_args=cli, out=out)[:3])
        return res
    with ThreadPoolExecutor(max_workers=4) as ex:
        results = list(ex.map(one, variants))
    kinds = ["absent", "left by the same project", "left by another project (with src/*.f90)",
             "left by the same project, second time"]
    for (name, opts, cli, out), res in zip(variants, results):
        rc0, log0, tree0 = res[0]
        if rc0 != 0:
            chk.violation("failing-input", {"what": f"FORD fails on the nested-output project ({name})",
                                            "log": log0[-1500:], "options": opts, "cli": list(cli),
                                            "files": files}, True)
            continue
        for kind, (rc, log, tree) in list(zip(kinds, res))[1:]:
            chk.count(("nested", name, kind), sample={"variant": name, "output_directory": kind,
                                                      "files_written": len(tree), "reference": len(tree0)})
            cl = None if rc == rc0 else (None, ("exit code", f"{rc0} vs {rc}", [log[-300:]]))
            cl = cl or R.classify(tree0, tree)
            if cl is not None:
                chk.disagreements += 1
                chk.violation("failing-input",
                              {"what": "the output depends on what an earlier run left in the output directory "
                                       f"(output directory inside the source directory, {name}; directory {kind})",
                               "run": "nested", "variant": name, "options": opts, "cli": list(cli), "out": out,
                               "stale": kind, "first_difference": cl[1],
                               "only_in_rerun": sorted(set(tree) - set(tree0))[:10], "files": files}, True)
                break
    chk.extra["nested_output_runs"] = sum(len(r) for r in results)
    # the same premise at the level of find_all_files (Out/Project.v sources: the output directory is excluded
    # by the settings themselves, whatever the options): what it returns must not depend on the output directory
    import pathlib
    import ford.fortran_project as fp
    from ford.settings import ProjectSettings
    scases, sinfo = [], []
    for incl in (True, False):
        with F.Work(files) as w:
            def found():
                st = ProjectSettings(src_dir=[w.root], output_dir=w.root / "doc", incl_src=incl, preprocess=False)
                st.fpp_extensions = []
                cwd = os.getcwd()
                os.chdir(w.root)
                try:
                    with F.quiet():
                        return sorted(os.path.relpath(p, w.root) for p in fp.find_all_files(st))
                finally:
                    os.chdir(cwd)
            before = found()
            for rel, text in (("doc/src/left.f90", "module zz_left\nend module zz_left\n"),
                              ("doc/page/example.f90", "program example\nend program example\n")):
                (w.root / rel).parent.mkdir(parents=True, exist_ok=True)
                (w.root / rel).write_text(text)
            after = found()
            allf = sorted(os.path.relpath(p, w.root) for p in pathlib.Path(w.root).rglob("*.f90"))
        comps = lambda rel: coq_list(coq_str(c) for c in rel.split("/"))  # noqa: E731
        scases.append(f"({coq_list(map(comps, allf))}, [], [[{coq_str('doc')}]], {coq_list(map(comps, after))})")
        sinfo.append((incl, allf, after))
        chk.count(("nested-sources", incl), sample={"incl_src": incl, "sources": before, "with_stale_output": after})
        if before != after:
            chk.violation("failing-input",
                          {"what": "find_all_files returns files of the output directory: the set of source files "
                                   "depends on what an earlier run left there", "incl_src": incl,
                           "sources_without_output_directory": before, "sources_with_stale_output_directory": after,
                           "files": files}, True)
    sres = chk.coq_judge(IMPORTS, "list (list str) * list str * list (list str) * list (list str)", "judge_sources",
                         scases)
    if sres is not None:
        chk.traces += len(scases)
        for idx, code in sorted(sres.items()):
            incl, allf, after = sinfo[idx]
            chk.violation("failing-input",
                          {"what": "find_all_files differs from the model (files below the source directory that are "
                                   "not below an excluded directory, the output directory being excluded)",
                           "incl_src": incl, "fortran_files": allf, "find_all_files": after, "files": files}, True)


# ----------------------------------------------------------------------------- the process pool

PARALLEL = ("0", "2", "3", "8")


def graph_tasks(files):
    """the number of tasks GraphManager.output_graphs hands to the pool (one per registered entity), estimated on
    an in-process parse: it must exceed the number of workers and leave a remainder to exercise every worker count"""
    try:
        with F.Work(files) as w:
            p = F.parse_project(w.root, graph=True)
            return sum(len(getattr(p, a)) for a in ("modules", "submodules", "types", "procedures",
                                                     "submodprocedures", "programs", "files", "blockdata"))
    except Exception:  # noqa
        return None


def pool(chk, rng):
    """'regardless of the number of worker processes': graph: true with graph_dir set, parallel in {0, 2, 3, 8};
    the FULL trees (doc/ and the graph directory) must be byte-identical to those of parallel: 0 - a missing or
    extra file is a failing input"""
    quick = chk.tier == "quick"
    projects = []
    want = 3 if quick else 8
    tries = 0
    while len(projects) < want and tries < 40:
        tries += 1
        if tries % 3 == 0:
            files, meta = P.gen_shapes(rng)
        else:
            files, meta = P.gen(rng, nfiles=rng.choice([3, 4, 5]), clash=rng.random() < 0.5, multiuse=True,
                                children=rng.random() < 0.5)
        n = graph_tasks(files)
        # more tasks than any worker count, and a remainder for each of 2, 3, 8 (prefer; accept others late)
        good = n is not None and n > 8 and n % 2 and n % 3 and n % 8
        if good or (tries > 25 and n and n > 8):
            projects.append((files, meta, n))
    chk.extra["pool_projects_graph_tasks"] = [n for _, _, n in projects]

    def one(entry):
        files, meta, n = entry
        opts = {"graph": "true", "graph_dir": "./graphs", "search": "false", "proc_internals": "true"}
        out = []
        with F.Work() as w:
            pd = R.ProjectDir(w.root, "p", files)
            for par in PARALLEL:
                o = dict(opts, parallel=par)
                rc, log, tree, extra = pd.run(o, 5, keep=("graphs",))
                out.append((par, o, rc, log, tree, extra["graphs"]))
        return out
    with ThreadPoolExecutor(max_workers=4) as ex:
        results = list(ex.map(one, projects))
    nruns = 0
    for (files, meta, n), runs in zip(projects, results):
        par0, o0, rc0, log0, tree0, gr0 = runs[0]
        if rc0 != 0:
            chk.notes.append(f"pool: FORD failed with parallel 0: {log0[-300:]}")
            chk.count(("pool-invalid", n), nontrivial=False)
            continue
        for par, o, rc, log, tree, gr in runs[1:]:
            nruns += 1
            chk.count(("pool", tuple(sorted(files)), par),
                      sample={"project": sorted(files), "graph_tasks": n, "parallel": par,
                              "files_in_graph_dir": len(gr), "files_in_graph_dir_parallel_0": len(gr0)})
            payload = {"run": "pool", "seeds": [5, 5], "options": o, "reference_options": o0, "graph_tasks": n,
                       "flags": meta, "files": files}
            if rc != 0:
                chk.violation("failing-input", dict(payload, what=f"parallel: {par} fails where parallel: 0 succeeds",
                                                    log=log[-1500:]), True)
                continue
            for name, a, b in (("the graph directory", gr0, gr), ("doc/", tree0, tree)):
                cl = R.classify(a, b)
                if cl is not None:
                    chk.disagreements += 1
                    chk.violation("failing-input",
                                  dict(payload, what=f"parallel: {par} and parallel: 0 write different trees "
                                                     f"({name}): the output depends on the number of worker processes",
                                       tree=name, first_difference=cl[1],
                                       only_with_parallel_0=sorted(set(a) - set(b))[:10],
                                       only_with_this_parallel=sorted(set(b) - set(a))[:10]), True)
                    break
    chk.extra["pool_runs"] = nruns


def run(chk):
    chk.build(["theories/Corr/C12.vo", "theories/Props/C12.vo"])
    chk.props("theories/Props/C12.v", THEOREMS)
    if chk.tier == "thorough":
        chk.coqchk(["Ford.Props.C12"])
    rng = chk.rng
    t = time.time()
    model_correspondence(chk, rng)
    chk.extra["t_model_s"] = round(time.time() - t, 1)
    t = time.time()
    graph_emission(chk, rng)
    chk.extra["t_emit_s"] = round(time.time() - t, 1)
    t = time.time()
    e2e(chk, rng)
    chk.extra["t_e2e_s"] = round(time.time() - t, 1)
    t = time.time()
    stale_nested(chk, rng)
    pool(chk, rng)
    chk.extra["t_pool_s"] = round(time.time() - t, 1)
    t = time.time()
    findings(chk, rng)
    chk.extra["t_findings_s"] = round(time.time() - t, 1)
    if chk.notes:
        chk.extra["notes"] = chk.notes[:10]


def replay(chk, rep):
    files = rep.get("files")
    if not files:
        print("nothing to replay:", rep.get("what") or rep.get("broken"))
        return 0
    opts = rep.get("options") or {}
    if "runs" in rep:
        chk.build(["theories/Corr/C12.vo"])
        order0 = fortran_files(files)
        runs = [R.traced_run(files, r["forced"], opts, unsorted=r["unsorted"]) for r in rep["runs"]]
        for r in runs:
            print("handed over", r["forced"], "sort neutralised" if r["unsorted"] else "real sort",
                  "-> parsed", r["enum"], "err", r["err"])
        term, problems = build_case(order0, runs)
        print("problems:", problems)
        res = chk.coq_judge(IMPORTS, CASE_T, "judge", [term]) if term else None
        print("judge code:", res, "(bit0 model!=impl, bit1 real runs disagree, >>2 region: 1 = an entity of a "
              "set-ordered phase competes for its name)")
        code = (res or {}).get(0, 0)
        bad = res is None or bool(problems) or bool(code & 1) or (bool(code & 2) and code >> 2 == 0)
        return 1 if bad else 0
    if rep.get("run") == "nested":
        other = R.subprocess_run(P.other_project(None), {"incl_src": "true"}, 1)[2]
        with F.Work() as w:
            pd = R.ProjectDir(w.root, "nested", files)
            res = [pd.run(opts, 4, stale=s, extra_args=tuple(rep.get("cli") or ()), out=rep.get("out") or "doc")
                   for s in (None, "same", other, "same")]
        diffs = [R.classify(res[0][2], r[2]) for r in res[1:]]
        print("exit codes:", [r[0] for r in res])
        print("differences from the first run:", ["none" if d is None else d[1][:2] for d in diffs])
        return 1 if any(d is not None for d in diffs) or len({r[0] for r in res}) > 1 else 0
    seeds = rep.get("seeds") or [1, 2]
    stale = rep.get("stale")
    if stale == "other":
        stale = R.subprocess_run(P.other_project(None), {}, 1)[2]
    keep = ("graphs",) if "graph_dir" in opts else ()
    with F.Work() as w:
        pd = R.ProjectDir(w.root, "p", files)
        ref = pd.run(rep.get("reference_options") or opts, seeds[0], keep=keep)
        where = R.ProjectDir(w.root / MOVED, "p", files) if rep.get("run") == "location" else pd
        oth = where.run(opts, seeds[1], stale=stale, keep=keep)
    cl = R.classify(mask(ref[2], opts), mask(oth[2], opts), set(rep.get("applicable_findings") or []))
    if cl is None and keep:
        cl = R.classify(ref[3]["graphs"], oth[3]["graphs"])
    print("return codes:", ref[0], oth[0])
    print("difference:", "none" if cl is None else cl)
    return 1 if (cl is not None and cl[0] is None) or ref[0] != oth[0] else 0


def finish(chk):
    return chk.finish(
        level_note="Coq proof over all file lists, permutations and request sequences of the pipeline model "
                   "(Out/Project.v on top of the NameSelector model Out/Names.v); model tied to FORD by traced "
                   "in-process runs (set of files handed over in forced orders; real sort and neutralised sort); "
                   "the property itself searched on real `python -m ford` runs (hash seeds x parallel x "
                   "output-directory states x project location x graphs / graph tables) with a byte comparison "
                   "that accepts no difference",
        trusted_base=["Coq 8.16.1 kernel (vm_compute for cases and witnesses)",
                      "harness/props/c12.py, harness/impl/c12run.py (instrumentation, tree comparison, "
                      "classification), harness/gen/c12proj.py",
                      "hand-written models Out/Project.v, Out/Names.v, Base/Order.v",
                      "per-file request segments are measured on one traced run and the model predicts every "
                      "other run; arbitrary enumerations are reached by neutralising the name `sorted` inside "
                      "ford.fortran_project (its only use there is Project.__init__'s loop)",
                      "process pool, graphviz, Jinja, markdown: covered by the byte comparison only"],
        rule="(a) one case = one generated project traced under several forced enumeration orders (distinct = "
             "distinct project text); (b) one evaluation = one pair (reference run, other run) of real FORD "
             "runs, distinct by project, run kind, seed, options; plus graph hops and the witnesses of the "
             "recorded findings",
        checker_cmd="make theories/Props/C12.vo && coqc theories/Props/C12.v (Print Assumptions)",
        assumptions=["7-bit names", "what one file's entities request inside one loop does not depend on the "
                     "other files (checked on every traced run)",
                     "the order of the rank-ordered loops, of graph_all's collecting loop and of the list pages is a "
                     "function of the identifiers already assigned (fixed phases: checked to be the same sequence "
                     "in all real traced runs)",
                     "loops ordered by sets of objects only repeat requests (checked: a first request there is a "
                     "violation)",
                     "equally named modules are never USEd in the generated projects"])
