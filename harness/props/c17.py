"""C17 — static pages mirror the page directory, in the documented order."""
import html
import itertools
import os
import pathlib
import posixpath
import re
import types

from harness import core
from harness.core import coq_str, coq_list
from harness.impl import fordrun as F

IMPORTS = "From Ford Require Import Base.Str Out.PageTree Corr.C17."
CASE_T = "case"
THEOREMS = [
    "C17_sort_sorted", "C17_sort_permutation",
    "C17_order", "C17_order_documented",
    "C17_mirror", "C17_pages_nodup",
    "C17_bad_page_isolated", "C17_bad_page_isolated_tree",
    "C17_pages_written", "C17_files_copied_beside",
    "C17_copy_subdir_copied", "C17_copy_subdir_every_page", "C17_copy_subdirs_spec", "C17_copy_subdir_skip",
    "C17_nothing_else_copied",
]

MD_NAMES = ["a.md", "b.md", "c.md", "B.md", "z.md", "intro.md"]
DOTTED = ["v1.2.md", "a.b.md", "b.x.md"]
OTHER = ["f.txt", "img.png", "a.html", "README", "notes.MD", "x.md.txt", "data"]
HIDDEN = [".hid.md", ".git", "old.md~", "x~", ".md"]
DIRS = ["sub", "images", "media", "a", "docs.md", "zed"]
HDIRS = [".d", "bak~"]
MISSING = ["zz.md", "nodir", "index.html"]


# ----------------------------------------------------------------------------- abstract trees
def F_(n, titled=True, ordered=(), cp=(), style=0):
    return {"k": "f", "n": n, "titled": titled, "ord": list(ordered), "cp": list(cp), "style": style}


def D_(n, es):
    return {"k": "d", "n": n, "es": list(es)}


def gen_dir(rng, depth, knobs):
    """entries of one directory"""
    es = []
    used = set()

    def fresh(pool):
        cand = [x for x in pool if x not in used]
        if not cand:
            return None
        x = rng.choice(cand)
        used.add(x)
        return x
    nmax = knobs.get("nmax", 4)
    n = rng.choice(list(range(nmax + 1)) + [nmax, max(1, nmax - 1)])
    for _ in range(n):
        r = rng.random()
        if r < 0.36:
            pool = MD_NAMES if rng.random() > knobs.get("p_dotted", 0.12) else DOTTED
            nm = fresh(pool)
            if nm:
                es.append(F_(nm, titled=rng.random() > knobs.get("p_untitled", 0.2), style=rng.randrange(4)))
        elif r < 0.48:
            nm = fresh(OTHER)
            if nm:
                es.append(F_(nm, titled=rng.random() < 0.5))
        elif r < 0.56 and knobs.get("hidden", True):
            nm = fresh(HIDDEN)
            if nm:
                es.append(F_(nm, titled=rng.random() < 0.7))
        elif depth > 0:
            nm = fresh(DIRS if rng.random() > 0.08 or not knobs.get("hidden", True) else HDIRS)
            if nm:
                es.append(D_(nm, gen_dir(rng, depth - 1, knobs)))
    if rng.random() < knobs.get("p_index", 0.85):
        names = [e["n"] for e in es]
        dirs = [e["n"] for e in es if e["k"] == "d"]
        below = [c["n"] for e in es if e["k"] == "d" for c in e["es"] if c["k"] == "d"]
        ordered = []
        if names and rng.random() < 0.55:
            k = rng.randint(1, min(4, len(names)))
            ordered = rng.sample(names, k)
            if rng.random() < 0.15:
                ordered.insert(rng.randrange(len(ordered) + 1), "index.md")
            if rng.random() < 0.15:
                ordered.insert(rng.randrange(len(ordered) + 1), rng.choice(ordered))
            if rng.random() < knobs.get("p_missing", 0.06):
                ordered.insert(rng.randrange(len(ordered) + 1), rng.choice(MISSING))
        elif rng.random() < knobs.get("p_missing", 0.06) / 2:
            ordered = [rng.choice(MISSING + [""])]
        cp = []
        if rng.random() < knobs.get("p_copy", 0.35):
            pool = dirs + dirs + below * knobs.get("gp_weight", 1) + ["nodir"] + [x for x in names if x not in dirs][:1]
            if pool:
                cp = list(dict.fromkeys(rng.choice(pool) for _ in range(rng.randint(1, 2))))
        elif rng.random() < knobs.get("p_empty_copy", 0.15):
            cp = [""]                       # a bare `copy_subdir:` line: "copy nothing here"
        es.insert(rng.randrange(len(es) + 1),
                  F_("index.md", titled=rng.random() > knobs.get("p_untitled_index", 0.08), ordered=ordered, cp=cp,
                     style=rng.randrange(4)))
    # a few non-index pages carry list metadata of their own (copy_subdir is honoured for every page)
    dirs = [e["n"] for e in es if e["k"] == "d"]
    for e in es:
        if e["k"] == "f" and e["n"] != "index.md" and e["n"].endswith(".md") and \
                rng.random() < knobs.get("p_leaf_meta", 0.2):
            if rng.random() < 0.2:
                e["cp"] = [""]
            elif dirs and rng.random() < 0.85:
                e["cp"] = [rng.choice(dirs)]
            else:
                e["ord"] = [rng.choice(MD_NAMES)]
    rng.shuffle(es)
    return es


def clean_knobs():
    """trees outside every region and without error cases: used where the statement is tested directly"""
    return {"p_dotted": 0.0, "p_missing": 0.0, "p_copy": 0.0, "p_untitled_index": 0.05}


NON_ASCII = "\u00e9\u00fc\u00f1\u00df"      # valid in latin-1, cp1252 and utf-8
ENCODINGS = ["latin-1", "cp1252", "utf-8"]


def render_file(rel, e, body="", na=""):
    """text of one file; every file names its own relative path so that copies can be traced.  [na]: non-ASCII
    text put into the title and the body of every Markdown file"""
    src = f"SRC:{rel}"
    if na:
        body = f"Text {na} of {rel}.\n\n" + body
    if not e["n"].endswith(".md") and not e["n"].endswith(".md~"):
        return src + "\n"
    meta = []
    for x in e["ord"]:
        meta.append(f"ordered_subpage: {x}")
    for x in e["cp"]:
        meta.append(f"copy_subdir: {x}")
    if e["titled"]:
        tt = f"T:{rel}" + (f" {na}" if na else "")
        t = [f"title: {tt}", f"Title:   {tt}  ", f"TITLE: {tt}", f"title: {tt}"][e["style"] % 4]
        pos = 0 if e["style"] < 2 else len(meta)
        meta.insert(pos, t)
        if e["style"] == 3:
            meta.insert(0, "author: someone")
        return "\n".join(meta) + "\n\n" + src + "\n\n" + body
    if e["style"] % 4 == 0 and not meta:
        return src + "\n\nno metadata at all\n" + body
    if e["style"] % 4 == 1:
        meta.append("author: nobody")
    if not meta:
        meta.append("date: today")
    return "\n".join(meta) + "\n\n" + src + "\n" + body


def files_of(es, prefix=""):
    """(relpath, entry) of every file; directories listed with entry None"""
    for e in es:
        rel = prefix + e["n"]
        if e["k"] == "f":
            yield rel, e
        else:
            yield rel + "/", None
            yield from files_of(e["es"], rel + "/")


def build(root, es, bodies=None, enc=None):
    """enc: None = plain ASCII files; else every Markdown file carries non-ASCII text in that encoding"""
    root.mkdir(parents=True, exist_ok=True)
    for rel, e in files_of(es):
        p = root / rel
        if e is None:
            p.mkdir(parents=True, exist_ok=True)
        else:
            p.parent.mkdir(parents=True, exist_ok=True)
            p.write_bytes(render_file(rel, e, (bodies or {}).get(rel, ""), NON_ASCII if enc else "")
                          .encode(enc or "ascii"))


# ----------------------------------------------------------------------------- Coq terms
def path_term(rel):
    parts = [x for x in rel.split("/") if x]
    return coq_list(coq_str(x) for x in parts)


def entry_term(e):
    if e["k"] == "f":
        return (f"File {coq_str(e['n'])} {core.coq_bool(e['titled'])} {coq_list(coq_str(x) for x in e['ord'])} "
                f"{coq_list(coq_str(x) for x in e['cp'])}")
    return f"Dir {coq_str(e['n'])} {coq_list(entry_term(x) for x in e['es'])}"


def node_term(n):
    return (f"Node {coq_str(n['name'])} {coq_str(n['file'])} {coq_list(coq_str(x) for x in n['loc'])} "
            f"{coq_list(coq_str(x) for x in n['ordered'])} {coq_list(coq_str(x) for x in n['copy'])} "
            f"{coq_list(coq_str(x) for x in n['files'])} {coq_list('(' + node_term(x) + ')' for x in n['subs'])}")


def res_term(r):
    if r == "None":
        return "RNone"
    if isinstance(r, str):
        return "RErr"
    return f"(RNode ({node_term(r)}))"


def files_term(fl):
    return coq_list(f"({path_term(p)}, {kind} {path_term(src)})" for p, kind, src in fl)


def case_term(proj, es, res, fl):
    return (f"(({coq_list(coq_str(x) for x in proj)}, {coq_list(entry_term(e) for e in es)}), "
            f"({res_term(res)}, {files_term(fl)}))")


# ----------------------------------------------------------------------------- implementation
def node_dict(n):
    title = n.title
    src = title[2:].split(" ")[0] if title.startswith("T:") else "?" + title
    file = src.rsplit("/", 1)[-1]
    loc = list(pathlib.PurePosixPath(str(n.location)).parts)
    if loc == ["."]:
        loc = []
    name = file if file != "index.md" else (loc[-1] if loc else "")
    return {"name": name, "file": file, "loc": loc, "ordered": list(n.ordered_subpages),
            "copy": [str(x) for x in n.copy_subdir], "files": [str(x) for x in n.files],
            "subs": [node_dict(c) for c in n.subpages], "path": str(n.path), "src": src, "title": title}


def classify(text):
    """origin of one written file"""
    if text.startswith("<!--PAGE-->"):
        t = text[len("<!--PAGE-->"):]
        return "Page", (t[2:].split(" ")[0] if t.startswith("T:") else "?" + t)
    if "<html" in text[:400].lower() or text.lstrip().lower().startswith("<!doctype"):
        m = re.search(r"<h1>\s*T:([^<]*?)\s*</h1>", text)
        return "Page", (html.unescape(m.group(1)).split(" ")[0] if m else "?")
    m = re.search(r"^SRC:(.*)$", text, flags=re.M)
    return "Copy", (m.group(1) if m else "?")


def list_out(pagedir):
    out = []
    if not pagedir.is_dir():
        return out
    for p in sorted(pagedir.rglob("*")):
        if p.is_file():
            kind, src = classify(p.read_text(errors="replace"))
            out.append((str(p.relative_to(pagedir)), kind, src))
    return out


def impl_direct(es, proj, enc=None):
    """get_page_tree + PagetreePage.writeout of every node (the template is replaced by a marker)"""
    from ford.pagetree import get_page_tree
    from ford._markdown import MetaMarkdown
    from ford.output import PagetreePage

    class P(PagetreePage):
        def render(self, data, proj, obj):
            return "<!--PAGE-->" + obj.title

    with F.Work() as w:
        pages = w.root / "pages"
        build(pages, es, None, enc)
        out = w.root / "doc"
        out.mkdir()
        with F.quiet() as buf:
            try:
                node = get_page_tree(pages, list(proj), out, MetaMarkdown(), encoding=enc or "utf-8")
            except Exception as e:  # noqa
                return "EXC:" + type(e).__name__, [], buf.getvalue()
            if node is None:
                return "None", [], buf.getvalue()
            data = {"output_dir": out, "relative": True, "page_dir": pages}
            stub = types.SimpleNamespace(settings=types.SimpleNamespace(project_url=str(out)))
            try:
                for item in node:
                    P(data, stub, item).writeout()
            except Exception as e:  # noqa
                return "EXC-WRITE:" + type(e).__name__, [], buf.getvalue()
        return node_dict(node), list_out(out / "page"), buf.getvalue()


def ascii_ok(es):
    return all(core.is_ascii(rel) for rel, _ in files_of(es))


# ----------------------------------------------------------------------------- bounded-exhaustive family
def exhaustive_family():
    """all trees of a small family: top directory with/without index, every subset of four kinds of
    entry, two sub-directories with one of six contents, five ordered_subpage and three copy_subdir
    choices for the top index and three copy_subdir choices for sub/index.md (absent, an empty line, a name),
    each under two project-level copy_subdir lists; yields (project list, tree)"""
    T = lambda n, **k: F_(n, True, **k)  # noqa
    inner = [
        None,
        [],
        [T("index.md")],
        [T("index.md"), T("p.md")],
        [F_("index.md", False), T("p.md")],
        [T("index.md"), T("p.md"), F_("pic.png"), D_("images", [T("index.md"), T("q.md")])],
    ]
    tops = list(itertools.product([0, 1], repeat=4))
    ords = [[], ["b.md", "a.md"], ["sub", "f.txt", "sub"], ["zz.md"], ["images", "index.md", ".h.md", "a.md"]]
    cps = [[], ["images"], ["sub", "nodir"], [""]]
    for proj, bits, s_in, i_in, o, c, sc in itertools.product([[], ["images"]], tops, inner, inner[:4], ords, cps,
                                                              [[], ["images"], [""]]):
        es = []
        present = {"index.md", ".h.md", "zz.md"} | ({"a.md"} if bits[0] else set()) | ({"b.md"} if bits[1] else set()) \
            | ({"f.txt"} if bits[2] else set()) | ({"sub"} if s_in is not None else set()) \
            | ({"images"} if i_in is not None else set())
        o = [x for x in o if x in present]
        if bits[0]:
            es.append(T("a.md"))
        if bits[1]:
            es.append(F_("b.md", False))
        if bits[2]:
            es.append(F_("f.txt"))
        if bits[3]:
            es.append(T(".h.md"))
        if s_in is not None:
            sub = [dict(e) for e in s_in]
            for e in sub:
                if e["n"] == "index.md":
                    e["cp"] = list(sc)
            es.append(D_("sub", sub))
        elif sc:
            continue
        if i_in is not None:
            es.append(D_("images", i_in))
        es.append(T("index.md", ordered=o, cp=c))
        yield proj, es


# ----------------------------------------------------------------------------- end-to-end
LINK_RE = re.compile(r"""<(a|img|link|script)\b[^>]*?\b(href|src)\s*=\s*(?:"([^"]*)"|'([^']*)')""", re.I)


def spec_pages_py(es, prefix="", proj=()):
    """trees without dotted... any names, without missing ordered entries: (src, out) of every page, in
    documented order; a directory named by copy_subdir of its own directory's index.md (else by the project
    list) is only copied"""
    idx = [e for e in es if e["k"] == "f" and e["n"] == "index.md"]
    if not idx or not idx[0]["titled"]:
        return []
    out = [(prefix + "index.md", prefix + "index.html")]
    names = sorted(e["n"] for e in es)
    ordered = [x for x in dict.fromkeys(idx[0]["ord"]) if x != "index.md"]
    order = ordered + [x for x in names if x not in ordered]
    copy = idx[0]["cp"] or list(proj)
    by = {e["n"]: e for e in es}
    for n in order:
        if n == "index.md" or n.startswith(".") or n.endswith("~") or n not in by:
            continue
        e = by[n]
        if e["k"] == "d":
            if n not in copy:
                out += spec_pages_py(e["es"], prefix + n + "/", proj)
        elif n.endswith(".md") and len(n) > 3 and e["titled"]:
            out.append((prefix + n, prefix + n[:-3] + ".html"))
    return out


def dir_entries(es, d):
    for part in [x for x in d.split("/") if x]:
        es = next(x for x in es if x["k"] == "d" and x["n"] == part)["es"]
    return es


def has_titled_index(es):
    return any(x["k"] == "f" and x["n"] == "index.md" and x["titled"] for x in es)


def add_asset_copies(rng, es, above=()):
    """let some index.md name pure asset directories (no index.md inside, name not used one level below)"""
    idx = next((x for x in es if x["k"] == "f" and x["n"] == "index.md"), None)
    dirs = [x for x in es if x["k"] == "d"]
    below = {c["n"] for x in dirs for c in x["es"] if c["k"] == "d"}
    mine = []
    if idx is not None and rng.random() < 0.5:
        mine = [x["n"] for x in dirs if not any(c["n"] == "index.md" for c in x["es"]) and x["n"] not in below
                and rng.random() < 0.7]
        idx["cp"] = mine
    for x in dirs:
        if x["n"] not in above:
            add_asset_copies(rng, x["es"], tuple(mine))


def add_overrides(rng, es):
    """under a project-level list: some pages opt out with a bare `copy_subdir:` line"""
    for e in es:
        if e["k"] == "d":
            add_overrides(rng, e["es"])
        elif e["n"].endswith(".md") and not e["cp"] and rng.random() < 0.3:
            e["cp"] = [""]


def make_bodies(rng, pages):
    """page bodies with links whose label says where they must lead (relative to the output root)"""
    bodies = {}
    outs = [o for _, o in pages]
    for src, out in pages:
        lines = []
        here = posixpath.dirname(out)
        for tgt in rng.sample(outs, min(3, len(outs))):
            rel = posixpath.relpath(tgt, here or ".")
            lines.append(f"[L:page/{tgt}]({rel})")
        for tgt in rng.sample(outs, min(2, len(outs))):
            lines.append(f"[L:page/{tgt}](|page|/{tgt})")
        lines.append("[L:media/pic.png](|media|/pic.png)")
        lines.append("![L:media/pic.png](|media|/pic.png)")
        lines.append("[L:index.html](|url|/index.html)")
        lines.append("[L:module/ma.html](|url|/module/ma.html)")
        lines.append("ENT [[ma]] TNE")
        bodies[src] = "\n\n".join(lines) + "\n"
    return bodies


def check_links(doc, rel_file, text):
    """every local link of a written page resolves to an existing file below doc; labelled links and
    images lead exactly where the label says.  Returns a list of problems."""
    probs = []
    here = (doc / "page" / rel_file).parent
    for m in LINK_RE.finditer(text):
        url = html.unescape(m.group(3) if m.group(3) is not None else m.group(4))
        if re.match(r"^[a-zA-Z][a-zA-Z0-9+.-]*:", url) or url.startswith("#") or url.startswith("//") or url == "":
            continue
        path = url.split("#")[0].split("?")[0]
        if path == "":
            continue
        tgt = pathlib.Path(os.path.normpath(os.path.join(here, path)))
        if not tgt.exists():
            probs.append(f"{rel_file}: link '{url}' leads to nothing")
        elif doc.resolve() not in tgt.resolve().parents and tgt.resolve() != doc.resolve():
            probs.append(f"{rel_file}: link '{url}' leaves the output directory")
    for m in re.finditer(r'<a\s+href="([^"]*)"[^>]*>L:([^<]*)</a>', text):
        tgt = pathlib.Path(os.path.normpath(os.path.join(here, html.unescape(m.group(1)))))
        if tgt != pathlib.Path(os.path.normpath(doc / m.group(2))):
            probs.append(f"{rel_file}: link labelled {m.group(2)} leads to {m.group(1)}")
    for m in re.finditer(r'<img\s+alt="L:([^"]*)"\s+src="([^"]*)"', text):
        tgt = pathlib.Path(os.path.normpath(os.path.join(here, html.unescape(m.group(2)))))
        if tgt != pathlib.Path(os.path.normpath(doc / m.group(1))):
            probs.append(f"{rel_file}: image labelled {m.group(1)} has src {m.group(2)}")
    m = re.search(r"ENT (.*?) TNE", text, flags=re.S)
    if m and "L:" in text:
        a = re.search(r'<a\s+href="([^"]*)"', m.group(1))
        if not a:
            probs.append(f"{rel_file}: [[ma]] did not become a link")
        else:
            tgt = pathlib.Path(os.path.normpath(os.path.join(here, html.unescape(a.group(1)))))
            if tgt != pathlib.Path(os.path.normpath(doc / "module" / "ma.html")):
                probs.append(f"{rel_file}: [[ma]] leads to {a.group(1)}")
    return probs


def nav_targets(doc, rel_file, text):
    """the sidebar: targets (relative to doc/page) of the navigation links, in order"""
    m = re.search(r'id="sidebar-toc">(.*?)<div class="col-9" id=\'text\'>', text, flags=re.S)
    if not m:
        return None
    here = (doc / "page" / rel_file).parent
    out = []
    for a in re.finditer(r'<a class="nav-link[^"]*" href="([^"]*)"', m.group(1)):
        tgt = os.path.normpath(os.path.join(here, html.unescape(a.group(1))))
        out.append(os.path.relpath(tgt, doc / "page"))
    return out


def breadcrumb_targets(doc, rel_file, text):
    m = re.search(r'<ol class="breadcrumb[^"]*">(.*?)</ol>', text, flags=re.S)
    here = (doc / "page" / rel_file).parent
    out = []
    for a in re.finditer(r"<a href='([^']*)'", m.group(1) if m else ""):
        tgt = os.path.normpath(os.path.join(here, html.unescape(a.group(1))))
        out.append(os.path.relpath(tgt, doc / "page"))
    return out


def full_run(es, bodies, options=None, enc=None):
    """a whole FORD run with page_dir; returns (node dict or str, files below doc/page, log, err, work)"""
    import ford
    captured = {}
    orig = ford.get_page_tree

    def spy(*a, **k):
        r = orig(*a, **k)
        captured["tree"] = r
        return r
    w = F.Work({"src/a.f90": "module ma\n  !! A module.\n  integer :: x\nend module ma\n", "media/pic.png": "PNG\n"})
    build(w.root / "pages", es, bodies, enc)
    opts = {"page_dir": "./pages", "media_dir": "./media"}
    if enc:
        opts["encoding"] = enc
    opts.update(options or {})
    ford.get_page_tree = spy
    try:
        data, log, err = F.full_run_inprocess(w.root, opts)
    finally:
        ford.get_page_tree = orig
    if "tree" not in captured:
        res = "EXC:" + (err or "?").split(":")[0]
    elif captured["tree"] is None:
        res = "None"
    else:
        res = node_dict(captured["tree"])
    return res, list_out(w.root / "doc" / "page"), log, err, w


def preorder(n):
    yield n
    for c in n["subs"]:
        yield from preorder(c)


def e2e_problems(es, bodies, pages, res, w, stats=None, proj=(), enc=None):
    """the statement, tested directly on the output of a full run over a clean tree"""
    stats = stats if stats is not None else {"links_checked": 0, "max_depth": 0}
    doc = w.root / "doc"
    probs = []
    # the pages the statement demands, at the mirrored paths, in the documented order
    want = [o for _, o in pages]
    got = [n["path"] for n in preorder(res)] if isinstance(res, dict) else []
    if want != got:
        probs.append(f"pages/order: expected {want}, node tree has {got}")
    for src, out in pages:
        f = doc / "page" / out
        if not f.is_file():
            probs.append(f"page {out} for {src} is missing")
            continue
        text = f.read_text(errors="replace")
        if f"<h1>T:{src}{' ' + NON_ASCII if enc else ''}</h1>" not in text:
            probs.append(f"page {out} is not the rendering of {src}"
                         + (f" (title with the text {NON_ASCII!r} written in {enc})" if enc else ""))
        if enc and f"Text {NON_ASCII} of {src}." not in text:
            probs.append(f"page {out}: the body text {NON_ASCII!r} (written in {enc}) is not shown as such")
        probs += check_links(doc, out, text)
        stats["links_checked"] += len(LINK_RE.findall(text))
        nav = nav_targets(doc, out, text)
        if len(want) > 1 and nav != want:
            probs.append(f"{out}: navigation lists {nav}, expected {want}")
        stats["max_depth"] = max(stats["max_depth"], out.count("/"))
        # breadcrumb: the index pages of the enclosing directories, outermost first
        parts = posixpath.dirname(out).split("/") if posixpath.dirname(out) else []
        chain = ["index.html"] + ["/".join(parts[:i + 1]) + "/index.html" for i in range(len(parts))]
        if out.endswith("index.html"):
            chain = chain[:-1]
        if breadcrumb_targets(doc, out, text) != chain:
            probs.append(f"{out}: breadcrumb {breadcrumb_targets(doc, out, text)}, expected {chain}")
    # copy_subdir of every written page: directories without pages of their own (all of them for an
    # index.md) are completely present beside the page
    for src, out in pages:
        d = posixpath.dirname(src)
        here = dir_entries(es, d)
        me = next(x for x in here if x["k"] == "f" and x["n"] == posixpath.basename(src))
        for item in (me["cp"] or list(proj)):
            tgt = next((x for x in here if x["k"] == "d" and x["n"] == item), None)
            if tgt is None or "/" in item:
                continue
            if not src.endswith("index.md") and has_titled_index(tgt["es"]):
                continue
            for rel, e in files_of(tgt["es"], (d + "/" if d else "") + item + "/"):
                if e is not None and rel not in want:
                    f = doc / "page" / rel
                    if not f.is_file() or f.read_bytes() != render_file(rel, e, bodies.get(rel, ""), NON_ASCII if enc else "") \
                            .encode(enc or "ascii"):
                        probs.append(f"{rel} (copy_subdir: {item} of {src}) was not copied")
    # other files copied beside the pages of their directory
    for rel, e in files_of(es):
        if e is None:
            continue
        d = posixpath.dirname(rel)
        n = e["n"]
        if (d + "/index.html" if d else "index.html") not in want:
            continue
        if n.endswith(".md") or n.startswith(".") or n.endswith("~") or rel in want:
            continue
        f = doc / "page" / rel
        if not f.is_file() or f.read_text() != f"SRC:{rel}\n":
            probs.append(f"file {rel} was not copied beside its pages")
    return probs


def end_to_end(chk, rng, nproj):
    cases, infos = [], []
    stats = {"runs": 0, "pages": 0, "links_checked": 0, "max_depth": 0, "with_project_copy_subdir": 0,
             "encodings": {}}
    for k in range(nproj):
        es = None
        proj = [rng.choice(["media", "images"])] if k % 2 else []
        for _ in range(50):
            es = gen_dir(rng, 3, dict(clean_knobs(), nmax=4, p_index=0.95, hidden=(k % 2 == 0), p_dotted=0.15,
                                      p_copy=0.2))
            if len(spec_pages_py(es, proj=proj)) >= 3:
                break
        add_asset_copies(rng, es)
        if proj:
            add_overrides(rng, es)
        pages = spec_pages_py(es, proj=proj)
        bodies = make_bodies(rng, pages)
        enc = ENCODINGS[k % 3] if k % 4 else None
        res, fl, log, err, w = full_run(es, bodies, {"copy_subdir": proj[0]} if proj else None, enc)
        try:
            stats["encodings"][str(enc)] = stats["encodings"].get(str(enc), 0) + 1
            stats["runs"] += 1
            stats["pages"] += len(pages)
            stats["with_project_copy_subdir"] += bool(proj)
            chk.count(("e2e", tuple(sorted(r for r, _ in files_of(es)))), nontrivial=len(pages) > 1,
                      sample={"e2e_files": sorted(r for r, _ in files_of(es)), "pages": [o for _, o in pages]})
            if err:
                chk.violation("failing-input", {"what": "FORD failed on a valid page directory", "error": err,
                                                "log": log[-1500:], "tree": es, "bodies": bodies, "proj": proj,
                                                "encoding": enc}, True)
                continue
            probs = e2e_problems(es, bodies, pages, res, w, stats, proj, enc)
            if probs:
                chk.violation("failing-input", {"what": "static pages of a full FORD run", "problems": probs[:10],
                                                "tree": es, "bodies": bodies, "proj": proj, "encoding": enc}, True)
            if ascii_ok(es):
                cases.append(case_term(proj, es, res, fl))
                infos.append((proj, es, res, fl, enc))
        finally:
            w.__exit__()
    chk.extra["end_to_end"] = stats
    return cases, infos


# ----------------------------------------------------------------------------- known findings
W_GP = [F_("index.md", True, cp=["images"]),
        D_("sub", [F_("index.md", True, cp=["other"]), D_("images", [F_("index.md"), F_("p.md")]),
                   D_("other", [F_("o.txt")])])]
W_DOT = [F_("index.md"), F_("v1.2.md"), F_("v1.md")]


def regressions(chk):
    """the witnesses of the three repaired defects: a defect that returns is a failing input"""
    res, fl, _ = impl_direct(W_GP, [])
    paths = [n["path"] for n in preorder(res)] if isinstance(res, dict) else res
    if not isinstance(res, dict) or "sub/images/p.html" not in paths:
        chk.violation("failing-input", {"what": "regression: a sub-directory is skipped because the copy_subdir list "
                                                "one level further up names it", "tree": W_GP, "pages": paths}, True)
    res, fl, _ = impl_direct(W_DOT, [])
    paths = [n["path"] for n in preorder(res)] if isinstance(res, dict) else res
    if not isinstance(res, dict) or sorted(paths) != ["index.html", "v1.2.html", "v1.html"]:
        chk.violation("failing-input", {"what": "regression: v1.2.md is not written to v1.2.html", "tree": W_DOT,
                                        "pages": paths}, True)
    es = [F_("index.md"), D_("sub", [F_("index.md"), D_("media", [F_("m.txt")])])]
    res, fl, log, err, w = full_run(es, {}, {"copy_subdir": "media"})
    w.__exit__()
    if err or "sub/media/m.txt" not in [p for p, _, _ in fl]:
        chk.violation("failing-input", {"what": "regression: the project-level copy_subdir option copies nothing in "
                                                "a full run", "tree": es, "proj": ["media"], "error": err,
                                        "files": [p for p, _, _ in fl]}, True)


# ----------------------------------------------------------------------------- the check
CORPUS = [
    ([], W_GP), ([], W_DOT),
    ([], [F_("index.md", True, cp=["images"]), D_("images", [F_("index.md"), F_("p.md"), F_("a.png")])]),
    ([], [F_("index.md", True, ordered=["zz.md"]), F_("a.md")]),
    ([], [F_("index.md", True, ordered=[""]), F_("a.md")]),
    ([], [F_("index.md", True, ordered=["b.md", "index.md", "b.md", ".h.md"]), F_("a.md"), F_("b.md"), F_(".h.md"),
          F_("c.md~"), F_("B.md"), F_("f.txt"), F_("n.md", False), F_("z.md")]),
    ([], [F_("index.md"), D_("sub", [F_("index.md", False), F_("p.md")]), F_("t.md")]),
    (["media"], [F_("index.md"), D_("sub", [F_("index.md"), D_("media", [F_("index.md"), F_("m.txt")])]),
                 D_("media", [F_("x.png")])]),
    ([], [F_("index.md"), F_("a.md", True, cp=["sub"]), D_("sub", [F_("index.md"), F_("q.md")]),
          F_("z.md", True, cp=["sub"])]),
    ([], [F_("index.md", True, cp=["sub"]), D_("sub", [F_("index.md", True, cp=["in"]), D_("in", [F_("i.txt")])])]),
    ([], [F_("a.md")]),
    ([], [F_("index.md"), F_("a.md", True, cp=["assets"]), F_("b.md", True, cp=["assets", "nodir"]),
          D_("assets", [F_("pic.png"), D_("deep", [F_(".keep")])]),
          D_("sub", [F_("index.md"), F_("c.md", True, cp=["img"]), D_("img", [F_("x.png")])])]),
    (["media"], [F_("index.md"), F_("a.md"), D_("media", [F_("m.png")]),
                 D_("sub", [F_("index.md"), F_("b.md"), D_("media", [F_("n.png")])])]),
    ([], [F_("index.md"), F_("a.html"), F_("a.md"), D_("docs.md", [F_("index.md"), F_("x.md")])]),
    (["media"], [F_("index.md"), D_("media", [F_("top.png")]),
                 D_("t1", [F_("index.md", True, cp=[""]), D_("media", [F_("index.md"), F_("p.md"), F_("x.png")])]),
                 D_("t2", [F_("index.md", True, cp=[""]), D_("media", [F_("y.png")]), F_("q.md", True, cp=[""])]),
                 D_("t3", [F_("index.md"), D_("media", [F_("index.md"), F_("r.md")])]),
                 D_("t4", [F_("index.md", True, cp=["img"]), D_("media", [F_("z.png")]), D_("img", [F_("i.png")]),
                           F_("s.md", True, cp=[""]), F_("u.md")])]),
]


def evaluate(chk, cases, infos, what):
    """run the judge; classify"""
    res = chk.coq_judge(IMPORTS, CASE_T, "judge", cases, shard=120)
    if res is None:
        return
    chk.traces += len(cases)
    for idx, code in sorted(res.items()):
        proj, es, ires, fl, enc = infos[idx]
        payload = {"what": what, "proj": proj, "tree": es, "impl_tree": ires, "impl_files": fl, "code": code,
                   "encoding": enc,
                   "meaning": "bit0 model!=impl, bit1 impl violates the Spec"}
        chk.disagreements += 1
        if code & 2:
            chk.violation("failing-input", payload, True)
        elif code & 1:
            chk.violation("broken-correspondence", payload, False)


def saved_corpus():
    """corpus/C17/*.json: {"proj": [...], "tree": [...]} — minimised past failures, run first"""
    import json
    out = []
    for f in sorted((core.VERIF / "corpus" / "C17").glob("*.json")):
        j = json.load(open(f))
        out.append((j.get("proj", []), j["tree"]))
    return out


def run(chk):
    chk.build(["theories/Corr/C17.vo", "theories/Props/C17.vo"])
    chk.props("theories/Props/C17.v", THEOREMS)
    rng = chk.rng
    quick = chk.tier == "quick"
    inputs = saved_corpus() + list(CORPUS)
    fam = list(exhaustive_family())
    chk.extra["exhaustive_family_size"] = len(fam)
    if quick:
        inputs += rng.sample(fam, 300)
    else:
        inputs += fam
        chk.extra["exhaustive"] = "family of %d trees (see exhaustive_family) enumerated completely" % len(fam)
    nrand = 520 if quick else 9000
    for i in range(nrand):
        knobs = {"nmax": rng.choice([2, 3, 4, 4, 5]), "gp_weight": rng.choice([1, 3])}
        if i % 5 == 0:
            knobs.update(clean_knobs())
        es = gen_dir(rng, rng.choice([1, 2, 3, 3]), knobs)
        if not any(e["n"] == "index.md" for e in es) and rng.random() < 0.8:
            es.append(F_("index.md"))
        proj = rng.choice([[], [], ["media"], ["images", "sub"], ["a"], ["zed", "images"], ["sub"]])
        inputs.append((proj, es))
    cases, infos = [], []
    dist = {"err": 0, "none": 0, "tree": 0, "depth": {}, "pages": 0, "encodings": {}}
    for i, (proj, es) in enumerate(inputs):
        if not ascii_ok(es):
            continue
        # every third directory carries non-ASCII text and is read with the `encoding` option
        enc = ENCODINGS[(i // 3) % 3] if i % 3 == 2 else None
        dist["encodings"][str(enc)] = dist["encodings"].get(str(enc), 0) + 1
        ires, fl, log = impl_direct(es, proj, enc)
        if isinstance(ires, str) and ires.startswith("EXC-WRITE"):
            chk.violation("failing-input", {"what": "writing the pages failed", "tree": es, "impl": ires,
                                            "encoding": enc}, True)
            continue
        if enc and isinstance(ires, dict):
            bad = [n["title"] for n in preorder(ires) if n["title"] != f"T:{n['src']} {NON_ASCII}"]
            if bad:
                chk.violation("failing-input", {"what": f"page titles written in {enc} are not decoded as such",
                                                "titles": bad[:5], "tree": es, "proj": proj, "encoding": enc}, True)
        npages = len(list(preorder(ires))) if isinstance(ires, dict) else 0
        depth = max((len(n["loc"]) for n in preorder(ires)), default=0) if isinstance(ires, dict) else 0
        dist["err" if isinstance(ires, str) and ires != "None" else "none" if ires == "None" else "tree"] += 1
        dist["depth"][depth] = dist["depth"].get(depth, 0) + 1
        dist["pages"] += npages
        chk.count(("tree", case_term(proj, es, "None", [])), nontrivial=npages > 1,
                  sample={"files": sorted(r for r, _ in files_of(es)),
                          "pages": [n["path"] for n in preorder(ires)] if isinstance(ires, dict) else ires})
        cases.append(case_term(proj, es, ires, fl))
        infos.append((proj, es, ires, fl, enc))
    chk.extra["generator_distribution"] = dist
    evaluate(chk, cases, infos, "get_page_tree + PagetreePage.writeout on a generated page directory")
    e2e_cases, e2e_infos = end_to_end(chk, rng, 22 if quick else 200)
    evaluate(chk, e2e_cases, e2e_infos, "page tree and page/ files of a full FORD run")
    regressions(chk)
    if not quick:
        chk.coqchk(["Ford.Props.C17"])


def replay(chk, rep):
    try:
        return _replay(chk, rep)
    finally:
        import shutil
        shutil.rmtree(chk.tmp, ignore_errors=True)


def _replay(chk, rep):
    if "tree" not in rep:
        print("nothing to replay:", rep.get("kind"), rep.get("broken"))
        return 1
    es, proj = rep["tree"], rep.get("proj", [])
    if "bodies" in rep:
        proj = rep.get("proj") or []
        res, fl, log, err, w = full_run(es, rep["bodies"], {"copy_subdir": proj[0]} if proj else None,
                                        rep.get("encoding"))
        try:
            probs = [f"FORD failed: {err}"] if err else e2e_problems(es, rep["bodies"], spec_pages_py(es, proj=proj),
                                                                      res, w, None, proj, rep.get("encoding"))
        finally:
            w.__exit__()
        print("full run:", err, "pages:", [n["path"] for n in preorder(res)] if isinstance(res, dict) else res)
        print("problems now:", probs[:10])
        return 1 if probs else 0
    ires, fl, log = impl_direct(es, proj, rep.get("encoding"))
    print("impl tree:", [n["path"] for n in preorder(ires)] if isinstance(ires, dict) else ires)
    print("impl files:", fl)
    chk.build(["theories/Corr/C17.vo"])
    res = chk.coq_judge(IMPORTS, CASE_T, "judge", [case_term(proj, es, ires, fl)])
    print("judge code:", res)
    return 1 if res and any(c & 3 for c in res.values()) else 0


def finish(chk):
    return chk.finish(
        level_note="Coq proofs over all directory trees (nested induction) about the get_page_tree / page "
                   "write-out model; model tied to ford.pagetree / ford.output.PagetreePage by differential runs "
                   "on generated page directories and on full FORD runs",
        trusted_base=["Coq 8.16.1 kernel (vm_compute for case evaluation and witnesses)",
                      "hand-written model Out/PageTree.v", "harness/props/c17.py generators, renderer of page "
                      "directories, adapters, HTML link walker",
                      "7-bit file names without '/', metadata given as repeated 'key: value' lines; page titles and bodies may carry "
                      "non-ASCII text (every third directory, written in latin-1 / cp1252 / utf-8 and read with the `encoding` option)"],
        rule="page directories (depth<=3, <=5 entries per directory) with index/no index, titled/untitled, "
             "hidden/backup, non-Markdown files, ordered_subpage valid/partial/duplicated/missing, copy_subdir; "
             "distinct = distinct (project list, tree) with at least two pages; plus full FORD runs with a link walker",
        checker_cmd="make theories/Props/C17.vo && coqc theories/Props/C17.v (Print Assumptions)",
        assumptions=["python-markdown / Jinja2 / pathlib are not modelled; the alias, relative-link and navigation "
                     "half of the property is tested end-to-end only",
                     "an ordered_subpage entry naming nothing may stop the run with an error (accepted by the Spec)",
                     "a directory named by copy_subdir of its own directory's index.md (else by the project list) "
                     "is only copied, also when it has an index.md of its own"])
