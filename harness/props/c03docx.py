"""Temporary stand-alone driver for the documentation-text half of C03 (./check C03docx).
The registered check is c03.py, which calls c03doc.THEOREMS / c03doc.run_part."""
from harness.props import c03doc


def _adopt_findings(chk):
    """the findings of this half are recorded under property C03 (known_findings.d/C03.json)"""
    import json
    from harness import core
    f = core.VERIF / "known_findings.d" / "C03.json"
    if f.exists():
        chk.findings = [x for x in json.load(open(f))["findings"] if x["property"] == "C03"]


def run(chk):
    _adopt_findings(chk)
    chk.build(c03doc.BUILD_TARGETS)
    chk.props(c03doc.PROPS_FILE, c03doc.THEOREMS)
    c03doc.run_part(chk)


def replay(chk, rep):
    _adopt_findings(chk)
    return c03doc.replay(chk, rep)


def finish(chk):
    return chk.finish(level_note=c03doc.LEVEL_NOTE, trusted_base=c03doc.TRUSTED_BASE, rule=c03doc.RULE,
                      checker_cmd=c03doc.CHECKER_CMD, assumptions=c03doc.ASSUMPTIONS)
