"""Temporary stand-alone driver for the documentation-text half of C03 (./check C03docx).
The registered check is c03.py, which calls c03doc.THEOREMS / c03doc.run_part."""
from harness.props import c03doc


def run(chk):
    chk.build(c03doc.BUILD_TARGETS)
    chk.props(c03doc.PROPS_FILE, c03doc.THEOREMS)
    c03doc.run_part(chk)


def replay(chk, rep):
    return c03doc.replay(chk, rep)


def finish(chk):
    return chk.finish(level_note=c03doc.LEVEL_NOTE, trusted_base=c03doc.TRUSTED_BASE, rule=c03doc.RULE,
                      checker_cmd=c03doc.CHECKER_CMD, assumptions=c03doc.ASSUMPTIONS)
