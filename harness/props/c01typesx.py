"""Stand-alone driver for the declaration layer of C01 (./check C01typesx).  With C01T_WIP=1 the Coq
files are taken from coq/wip (development); otherwise from coq/theories."""
import os

from harness import core
from harness.props import c01types as M

WIP = bool(os.environ.get("C01T_WIP"))
FLAGS = ["-Q", "wip/Base", "Ford.Base", "-Q", "wip/Sem", "Ford.Sem", "-Q", "wip/Corr", "Ford.Corr", "-Q", "wip/Props", "Ford.Props"]


def _wrap_run():
    orig = core.run

    def run(cmd, *a, **k):
        if WIP and "coqc" in cmd:
            i = cmd.index("coqc")
            cmd = cmd[:i + 1] + FLAGS + cmd[i + 1:]
        return orig(cmd, *a, **k)
    core.run = run


def run(chk):
    chk.pid_findings = "C01"
    # the findings of this part are recorded under property C01
    import json
    allf = []
    d = core.VERIF / "known_findings.d" / "C01.json"
    if d.exists():
        allf = json.load(open(d))["findings"]
    chk.findings = [f for f in allf if f["property"] == "C01"]
    if WIP:
        _wrap_run()
    else:
        chk.build(M.BUILD_TARGETS)
        chk.props(M.PROPS_FILE, M.THEOREMS)
    M.run_part(chk)


def replay(chk, rep):
    chk.build(M.BUILD_TARGETS[:1])
    r = M.replay_part(chk, rep)
    return 0 if r is None else r


def finish(chk):
    return chk.finish(level_note="declaration layer of C01 (stand-alone driver)", trusted_base=["see C01"],
                      rule="parse_type strings, declarations in random spellings, small units",
                      checker_cmd="make theories/Props/C01types.vo", assumptions=[])
