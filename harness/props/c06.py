"""C06 — USE association imports exactly the accessible names."""
import itertools
import json
import time

from harness import core
from harness.gen import c06gen as G
from harness.impl import c06impl as I

IMPORTS = "From Ford Require Import Base.Str Sem.UseAssoc Corr.C06."
THEOREMS = ["C06_full", "C06_fixed_intrinsic_nature", "C06_project_module_first", "C06_intrinsic_never_project",
            "C06_example_special", "C06_fixed_rename", "C06_fixed_rename_across_statements",
            "C06_fixed_private_reexport", "C06_fixed_only_empty", "C06_fixed_only_dup",
            "C06_order_independent", "C06_toposort_is_topo",
            "C06_private_never_imported", "C06_spec_private_never_accessible", "C06_fuel_enough",
            "C06_example_hypotheses", "C06_nested_full", "C06_nested_fixed_rename",
            "C06_nested_fixed_absbody", "C06_nested_fixed_genbody", "C06_nested_example"]


# ----------------------------------------------------------------------------- fixed cases
def mod(name, default="public", decls=(), access=(), uses=(), unit="module", calls=()):
    ds = []
    for n, k, p in decls:
        ds.append({"name": n, "kind": k, "perm": p, "how": "default" if p == default else
                   ("attr" if k in ("var", "type") else "stmt"), "ref": None, "function": False})
    return {"name": name, "unit": unit, "default": default, "explicit_default": default == "private",
            "decls": ds, "access": [list(a) for a in access], "uses": list(uses), "calls": list(calls)}


def use(t, only=None, renames=(), prefix=""):
    return {"target": t, "only": None if only is None else [list(x) for x in only],
            "renames": [list(x) for x in renames], "prefix": prefix}


def ref_var(name, what, target):
    return {"name": name, "kind": "type" if what == "extends" else "var", "perm": "public", "how": "default",
            "ref": {"what": what, "id": target}, "function": False}


EXPORTER = mod("ma", "public", [("foo", "var", "public"), ("hid", "var", "private"), ("ta1", "type", "public"),
                                ("pa1", "proc", "public"), ("ga1", "generic", "public"), ("ga1s", "proc", "private"),
                                ("ia1", "abs", "public"), ("tp1", "type", "private"), ("wa1", "var", "protected")])


def witness_rename():
    return [EXPORTER, mod("mb", uses=[use("ma", None, [("bar", "foo")])])]


def witness_across():
    return [EXPORTER, mod("mb", uses=[use("ma"), use("ma", [("bar", "foo")])])]


def witness_private():
    return [EXPORTER, mod("mb", access=[("foo", False)], uses=[use("ma")]), mod("mc", uses=[use("mb")])]


def witness_only_empty():
    return [EXPORTER, mod("mb", uses=[use("ma", [])])]


def witness_only_dup():
    return [EXPORTER, mod("mb", uses=[use("ma", [("foo", "foo"), ("bar", "foo")])])]


def witness_intrinsic_nature():
    """module iso_fortran_env of the project; mb: use, intrinsic :: iso_fortran_env"""
    return [mod("iso_fortran_env", "public", [("foo", "var", "public")]),
            mod("mb", uses=[use("iso_fortran_env", prefix="intrinsic")]),
            mod("mc", uses=[use("iso_fortran_env")]),
            dict(mod("bdat", unit="blockdata", uses=[use("iso_fortran_env", prefix="intrinsic"), use("mc")]),
                 decls=[{"name": "vy0", "kind": "var", "perm": "public", "how": "default", "ref": None, "function": False}])]


WITNESSES = [witness_rename, witness_across, witness_private, witness_only_empty, witness_only_dup,
             witness_intrinsic_nature]


def exhaustive_layer():
    """exporter with every entity kind x accessibility; a middle module using it in every USE form,
    with both defaults and every access statement for one imported name; a user of the middle
    module; a program that references one name of every class through the chain"""
    forms = {
        "plain": [use("ma")],
        "prefix_colon": [use("ma", prefix="::")],
        "non_intrinsic": [use("ma", prefix="non_intrinsic")],
        "only": [use("ma", [("foo", "foo"), ("ta1", "ta1"), ("pa1", "pa1"), ("ga1", "ga1"), ("ia1", "ia1")])],
        "only_rename": [use("ma", [("foo", "foo"), ("tl", "ta1"), ("pl", "pa1"), ("gl", "ga1"), ("il", "ia1")])],
        "only_private": [use("ma", [("hid", "hid"), ("tp1", "tp1"), ("ga1s", "ga1s"), ("wa1", "wa1")])],
        "only_upper": [use("MA", [("FOO", "FOO"), ("TL", "Ta1")], prefix="non_intrinsic")],
        "two_only": [use("ma", [("foo", "foo")]), use("ma", [("tl", "ta1"), ("ia1", "ia1")])],
        "plain_and_only": [use("ma"), use("ma", [("foo", "foo")])],
        "with_intrinsic": [use("iso_fortran_env", prefix="intrinsic"), use("ma", [("pa1", "pa1")]),
                           use("iso_c_binding", [("c_int", "c_int")], prefix="intrinsic")],
        "rename": [use("ma", None, [("tl", "ta1"), ("fl", "foo")])],
        "only_empty": [use("ma", [])],
        "only_dup": [use("ma", [("ta1", "ta1"), ("tl", "ta1")])],
        "plain_and_only_rename": [use("ma"), use("ma", [("tl", "ta1")])],
    }
    out = []
    for fname, us in forms.items():
        for default in ("public", "private"):
            for access in ([], [("foo", True), ("ta1", True)], [("foo", False)], [("tl", True), ("pa1", True)],
                           [("ia1", False), ("ga1", True)]):
                mb = mod("mb", default, [("vb1", "var", "public"), ("tb1", "type", "private")], access, us)
                mc = mod("mc", "public", [("pc1", "proc", "public")], [], [use("mb")])
                prog = mod("main", unit="program", uses=[use("mc", [(n, n) for n in ("foo", "ta1", "tl", "ia1", "il")]
                                                             + [("vv", "vb1")])], calls=["pc1"])
                prog["decls"] = [ref_var("vz1", "type", "ta1"), ref_var("vz2", "type", "tl"),
                                 ref_var("vz3", "procptr", "ia1"), ref_var("vz4", "procptr", "il"),
                                 ref_var("tz1", "extends", "ta1")]
                out.append((f"exh:{fname}:{default}:{access}", [EXPORTER, mb, mc, prog]))
    return out


def special_layer():
    """project modules named like the link objects FORD always has (settings.INTRINSIC_MODS) or gets
    from the `extra_mods` option: the exporter of the exhaustive layer, of the nested layer, of the
    several-USE layer and of the shadowing layer under each such name -- every USE form, from module
    scope and from nested scopes, re-exported through mb / mc; a USE statement names the project's
    module (Fortran 2018 14.2.2: a statement without module nature, or NON_INTRINSIC, accesses the
    nonintrinsic module of that name)"""
    out = []
    names = G.SPECIAL_NAMES
    k = 0
    exh = [(l, u) for l, u in exhaustive_layer()
           if l.split(":")[2] == "public" and l.split(":")[3] in ("[]", "[('foo', False)]") or l.split(":")[3] == "[('foo', True), ('ta1', True)]"]
    for label, units in exh:
        if label.split(":")[1] == "with_intrinsic":
            continue
        k += 1
        out.append((f"special:{names[k % len(names)]}:{label}", G.rename_modules(units, {"ma": names[k % len(names)]})))
    for src, old in ((nested_layer(), ("za", "zf")), (multi_use_layer(), ("ma", "mb")), (shadow_layer(), None)):
        for label, units in src:
            k += 1
            mods = [u["name"].lower() for u in units if u["unit"] == "module"]
            # the module every other one draws from, and sometimes the re-exporting one as well
            used = [m for m in mods if any(x["target"].lower() == m for u in units for x in G.all_uses(u))]
            mapping = {}
            for j, m in enumerate(used[:2] if k % 3 == 0 else used[:1]):
                mapping[m] = names[(k + 4 * j) % len(names)]
            out.append((f"special:{'+'.join(mapping.values())}:{label}", G.rename_modules(units, mapping)))
    # `use, intrinsic ::` next to a project module of the same name
    for n in ("iso_fortran_env", "mpi"):
        ex = G.rename_modules([EXPORTER], {"ma": n})[0]
        mb = mod("mb", uses=[use(n, prefix="non_intrinsic")])
        mc = mod("mc", uses=[use("mb"), use("iso_c_binding", prefix="intrinsic")])
        prog = mod("main", unit="program", uses=[use("mc", [("foo", "foo"), ("ta1", "ta1")])])
        prog["decls"] = [ref_var("vz1", "type", "ta1")]
        out.append((f"special:{n}:non_intrinsic_and_other_intrinsic", [ex, mb, mc, prog]))
    return out


def intrinsic_clash_cases():
    """`use, intrinsic :: iso_fortran_env` in a project that has a module iso_fortran_env of its own:
    the statement designates the intrinsic module (Fortran 2018 14.2.2), nothing of the project's
    module is accessible through it"""
    out = []
    for n in ("iso_fortran_env", "iso_c_binding"):
        ex = G.rename_modules([EXPORTER], {"ma": n})[0]
        mb = mod("mb", uses=[use(n, prefix="intrinsic")])
        mc = mod("mc", uses=[use("mb")])
        out.append((f"intrinsic_clash:{n}:plain", [ex, mb, mc]))
        mb2 = mod("mb", uses=[use(n.upper(), [("foo", "foo"), ("tl", "ta1")], prefix="intrinsic")])
        out.append((f"intrinsic_clash:{n}:only", [ex, mb2, mod("mc", uses=[use("mb")])]))
        mm = mod("mm", "public")
        mm["decls"].append(nested_decl(nd("p", "routine", [use(n, prefix="intrinsic")], [("type", "ta1")]), "proc"))
        out.append((f"intrinsic_clash:{n}:nested", [ex, mm]))
    return out


def nd(name, kind, uses=(), refs=(), children=()):
    return {"name": name, "kind": kind, "uses": list(uses), "children": list(children),
            "refs": [{"what": w, "id": i, "var": f"w{name}{k}"} for k, (w, i) in enumerate(refs, 1)]}


def nested_decl(node, kind):
    return {"name": node["name"], "kind": kind, "perm": "public", "how": "default", "ref": None, "function": False,
            "node": node}


NESTED_ZA = mod("za", "public", [("ta", "type", "public"), ("pa", "proc", "public"), ("ia", "abs", "public"),
                                 ("tq", "type", "private")])


def nested_module(form, us, refs_type=("ta",), refs_call=("pa",), refs_abs=("ia",)):
    """module mm whose only USE statements sit in a nested scope of the given form"""
    tr = [("type", n) for n in refs_type] + [("procptr", n) for n in refs_abs]
    full = tr + [("call", n) for n in refs_call]
    mm = mod("mm", "public")
    if form == "modproc":
        mm["decls"].append(nested_decl(nd("p", "routine", us, full), "proc"))
    elif form == "internal":
        mm["decls"].append(nested_decl(nd("p", "routine", [], [], [nd("q", "routine", us, full)]), "proc"))
    elif form == "ifbody_mod":
        mm["decls"].append(nested_decl(nd("ext", "ifbody", us, tr), "iface"))
    elif form == "ifbody_proc":
        mm["decls"].append(nested_decl(nd("p", "routine", [], [], [nd("ext", "ifbody", us, tr)]), "proc"))
    elif form == "internal_ifbody":
        mm["decls"].append(nested_decl(nd("p", "routine", [], [], [nd("q", "routine", [], [], [nd("ext", "ifbody", us, tr)])]), "proc"))
    elif form == "host_chain":
        # the USE is in the module procedure, the references in its internal procedure
        mm["decls"].append(nested_decl(nd("p", "routine", us, [], [nd("q", "routine", [], full)]), "proc"))
    elif form == "absint_mod":
        mm["decls"].append(nested_decl(nd("cb", "absbody", us, tr), "abs"))
    elif form == "absint_proc":
        mm["decls"].append(nested_decl(nd("p", "routine", [], [], [nd("cb", "absbody", us, tr)]), "proc"))
    elif form == "generic_body":
        d = {"name": "gg", "kind": "generic", "perm": "public", "how": "default", "ref": None, "function": False,
             "body": nd("ext", "genbody", us, tr)}
        mm["decls"] += [d, {"name": "ext", "kind": "proc", "perm": "public", "how": "default", "ref": None,
                            "function": False, "in_generic": "gg"}]
    else:
        raise ValueError(form)
    return mm


NESTED_FORMS = ["modproc", "internal", "ifbody_mod", "ifbody_proc", "internal_ifbody", "host_chain",
                "absint_mod", "absint_proc", "generic_body"]


def nested_layer():
    """the USE statement that creates the ordering dependency sits only in a nested scope of mm; the used
    module zf re-exports za's entities (plainly, through ONLY, renamed, through a further module)"""
    out = []
    chains = {
        "plain": ([mod("zf", uses=[use("za")])], [use("zf")], ("ta",), ("pa",), ("ia",)),
        "only": ([mod("zf", "private", access=[("ta", True), ("pa", True), ("ia", True)], uses=[use("za")])],
                 [use("zf", [("ta", "ta"), ("pa", "pa"), ("ia", "ia")])], ("ta",), ("pa",), ("ia",)),
        "renamed": ([mod("zf", uses=[use("za", [("tf", "ta"), ("pf", "pa"), ("jf", "ia")])])],
                    [use("zf", [("tl", "tf"), ("pf", "pf"), ("jf", "jf")], prefix="non_intrinsic")], ("tl",), ("pf",), ("jf",)),
        "two_hops": ([mod("zf", uses=[use("zg")]), mod("zg", uses=[use("za", [("ta", "ta"), ("pa", "pa"), ("ia", "ia")])])],
                     [use("zf")], ("ta",), ("pa",), ("ia",)),
        "direct": ([], [use("za", [("ta", "ta"), ("pa", "pa"), ("ia", "ia")])], ("ta",), ("pa",), ("ia",)),
        "private_not": ([mod("zf", uses=[use("za")])], [use("zf")], ("ta", "tq"), ("pa",), ("ia",)),
    }
    for form in NESTED_FORMS:
        for cname, (mids, us, rt, rc, ra) in chains.items():
            out.append((f"nested:{form}:{cname}", [nested_module(form, us, rt, rc, ra)] + mids + [NESTED_ZA]))
    return out


def multi_use_layer():
    """several USE statements of one module in one scope -- at module level (the local names re-exported
    and referenced two modules further down) and in nested scopes (the local names referenced there).
    Fortran: the associations of the statements add up (a rename also hides the remote name from a
    statement without ONLY of the same scope)."""
    combos = {
        "plain_then_only_rename": [use("ma"), use("ma", [("tl", "ta1"), ("pl", "pa1"), ("il", "ia1")])],
        "only_rename_then_plain": [use("ma", [("tl", "ta1"), ("pl", "pa1"), ("il", "ia1")]), use("ma")],
        "plain_then_rename": [use("ma"), use("ma", None, [("tl", "ta1")])],
        "rename_then_plain": [use("ma", None, [("tl", "ta1"), ("pl", "pa1")]), use("ma", prefix="::")],
        "two_only": [use("ma", [("foo", "foo"), ("pa1", "pa1")]), use("ma", [("tl", "ta1"), ("ia1", "ia1")])],
        "two_only_same_entity": [use("ma", [("ta1", "ta1"), ("pa1", "pa1")]), use("ma", [("tl", "ta1"), ("pl", "pa1"), ("il", "ia1")])],
        "plain_twice": [use("ma"), use("MA", prefix="non_intrinsic")],
        "plain_then_only": [use("ma"), use("ma", [("foo", "foo"), ("ta1", "ta1")])],
        "only_plain_only_rename": [use("ma", [("foo", "foo")]), use("ma"), use("ma", [("il", "ia1"), ("tl", "ta1")])],
        "only_rename_twice": [use("ma", [("tl", "ta1")]), use("ma", [("t2", "ta1"), ("pl", "pa1"), ("il", "ia1")])],
    }
    names_t, names_p, names_i = ("ta1", "tl", "t2"), ("pa1", "pl"), ("ia1", "il")
    out = []
    for cname, us in combos.items():
        # (a) module scope: mb re-exports, mc takes the names through ONLY, the program references them
        for default in ("public", "private"):
            acc = [(n, True) for n in ("tl", "t2", "pl", "il", "ta1", "pa1", "ia1", "foo")] if default == "private" else []
            mb = mod("mb", default, [("vb1", "var", "public")], acc, us)
            mb["decls"] += [dict(ref_var("vbt", "type", "tl"), perm=default), dict(ref_var("vbu", "type", "ta1"), perm=default)]
            mc = mod("mc", "public", [], [], [use("mb", [(n, n) for n in names_t + names_p + names_i + ("foo",)])])
            prog = mod("main", unit="program", uses=[use("mc")], calls=list(names_p))
            prog["decls"] = [ref_var(f"vz{k}", "type", n) for k, n in enumerate(names_t)] + \
                            [ref_var(f"vy{k}", "procptr", n) for k, n in enumerate(names_i)]
            out.append((f"multi:{cname}:module:{default}", [EXPORTER, mb, mc, prog]))
        # (b) the same statements in nested scopes of a module that has no USE of its own
        refs = [("type", n) for n in names_t] + [("procptr", n) for n in names_i] + [("call", n) for n in names_p]
        body_refs = [r for r in refs if r[0] != "call"]
        for form in ("modproc", "internal", "ifbody_mod", "host_chain"):
            mm = mod("mm", "public")
            if form == "modproc":
                mm["decls"].append(nested_decl(nd("p", "routine", us, refs), "proc"))
            elif form == "internal":
                mm["decls"].append(nested_decl(nd("p", "routine", [], [], [nd("q", "routine", us, refs)]), "proc"))
            elif form == "ifbody_mod":
                mm["decls"].append(nested_decl(nd("ext", "ifbody", us, body_refs), "iface"))
            else:
                # the first statement in the module procedure, the others in its internal procedure
                mm["decls"].append(nested_decl(nd("p", "routine", us[:1], [], [nd("q", "routine", us[1:], refs)]), "proc"))
            out.append((f"multi:{cname}:{form}", [mm, EXPORTER]))
    return out


def rename_chain_layer():
    """rename lists without ONLY whose clauses depend on each other: the local name of one clause is the
    name another clause of the same statement renames away -- chains (x1 => x2, old => x1), swaps and
    3-rotations, both clause orders, for types, procedures and variables (and all at once).  The renames of
    one statement are simultaneous (Fortran 2018 14.2.2): every local name denotes the entity its clause
    names.  (a) module mb uses mg that way and is a facade: mc uses mb, the program uses mc and references
    every name; (b) the same statement in a module procedure / an internal procedure of a module without
    USE statements of its own"""
    kinds = [("t", "type"), ("p", "proc"), ("v", "var")]
    mg = mod("mg", "public", [(f"{k}{i}", kind, "public") for k, kind in kinds for i in (1, 2, 3)]
             + [("i1", "abs", "public"), ("i2", "abs", "public")])

    def patterns(k):
        a, b, c = f"{k}1", f"{k}2", f"{k}3"
        return {
            "chain": [(a, b), (f"{k}old", a)],                 # x1 => x2, xold => x1
            "chain_rev": [(f"{k}old", a), (a, b)],
            "chain3": [(a, b), (b, c), (f"{k}old", a)],
            "swap": [(a, b), (b, a)],
            "swap_rev": [(b, a), (a, b)],
            "rot": [(a, b), (b, c), (c, a)],
            "rot_other_order": [(c, a), (a, b), (b, c)],
        }
    out = []
    pnames = list(patterns("t"))
    for pname in pnames:
        groups = {k: patterns(k)[pname] for k, _ in kinds}
        groups["all"] = [cl for k, _ in kinds for cl in patterns(k)[pname]] + [("i1", "i2"), ("i2", "i1")]
        for gname, clauses in groups.items():
            us = [use("mg", None, clauses, prefix="non_intrinsic" if gname == "p" else "")]
            locals_ = [l for l, _ in clauses]
            everything = sorted({f"{k}{i}" for k, _ in kinds for i in (1, 2, 3)} | set(locals_) | {"i1", "i2"})
            tnames = [n for n in everything if n.startswith("t")]
            calls = [n for n in everything if n.startswith("p")]
            inames = [n for n in everything if n.startswith("i")]
            if gname in ("all", "t") or pname in ("chain", "swap", "rot"):
                mb = mod("mb", "public", [("vb1", "var", "public")], [], us)
                mc = mod("mc", "public", [], [], [use("mb")])
                prog = mod("main", unit="program", uses=[use("mc")], calls=calls)
                prog["decls"] = [ref_var(f"vz{j}", "type", n) for j, n in enumerate(tnames)] + \
                                [ref_var(f"vy{j}", "procptr", n) for j, n in enumerate(inames)]
                out.append((f"renchain:{pname}:{gname}:facade", [mg, mb, mc, prog]))
            if gname == "all":
                refs = [("type", n) for n in tnames] + [("procptr", n) for n in inames] + [("call", n) for n in calls]
                for form in ("modproc", "internal"):
                    mm = mod("mm", "public")
                    if form == "modproc":
                        mm["decls"].append(nested_decl(nd("p", "routine", us, refs), "proc"))
                    else:
                        mm["decls"].append(nested_decl(nd("p", "routine", [], [], [nd("q", "routine", us, refs)]), "proc"))
                    out.append((f"renchain:{pname}:{form}", [mm, mg]))
    return out


def shared_statement_layer():
    """two scopes with the identical non-ONLY statement `use mg` (or `use mg, tz => t3`), each with a further
    USE of mg that renames -- different names in the two scopes.  What the shared statement gives a scope
    depends on the names the scope's other statements rename (Fortran 2018 14.2.2): scope A hides x1, scope B
    hides x2.  The scopes are two modules (every file order), or two module procedures / a module procedure
    and an internal procedure of another one in one module; types, procedures and variables"""
    kinds = [("t", "type"), ("p", "proc"), ("v", "var")]
    mg = mod("mg", "public", [(f"{k}{i}", kind, "public") for k, kind in kinds for i in (1, 2, 3)])
    out = []
    for sname, shared in (("plain", lambda: use("mg")), ("rename", lambda: use("mg", None, [("tz", "t3")])),
                          ("colon", lambda: use("mg", prefix="::"))):
        for cname, comp in (("only", lambda i: use("mg", [(f"{k}q{i}", f"{k}{i}") for k, _ in kinds])),
                            ("rename", lambda i: use("mg", None, [(f"{k}q{i}", f"{k}{i}") for k, _ in kinds]))):
            if sname != "plain" and cname != "only":
                continue
            for first in (True, False):         # the shared statement before / after the companion
                ua = [shared(), comp(1)] if first else [comp(1), shared()]
                ub = [shared(), comp(2)] if first else [comp(2), shared()]
                tag = f"shared:{sname}:{cname}:{'first' if first else 'last'}"
                names_t = ["t1", "t2", "t3", "tq1", "tq2", "tz"]
                names_p = ["p1", "p2", "p3", "pq1", "pq2"]
                mb, mc = mod("mb", uses=ua), mod("mc", uses=ub)
                mb["decls"] = [ref_var(f"vb{j}", "type", n) for j, n in enumerate(names_t)]
                mc["decls"] = [ref_var(f"vc{j}", "type", n) for j, n in enumerate(names_t)]
                md = mod("md", uses=[use("mc")])
                out.append((tag + ":modules", [mg, mb, mc, md], "all"))
                refs = [("type", n) for n in names_t] + [("call", n) for n in names_p]
                mm = mod("mm", "public")
                mm["decls"].append(nested_decl(nd("pa", "routine", ua, refs), "proc"))
                mm["decls"].append(nested_decl(nd("pb", "routine", ub, refs), "proc"))
                out.append((tag + ":two_modprocs", [mm, mg], 2))
                mm2 = mod("mm", "public")
                mm2["decls"].append(nested_decl(nd("pa", "routine", [], [], [nd("qa", "routine", ub, refs)]), "proc"))
                mm2["decls"].append(nested_decl(nd("pb", "routine", ua, refs), "proc"))
                out.append((tag + ":internal_and_modproc", [mm2, mg], 2))
    return out


def shadow_layer():
    """a nested scope whose USE brings in names that its host also has -- declared in the host module, or
    imported by the host from a third module -- plainly, through ONLY, and through ONLY with a rename whose
    local name is the host's name; all four classes (type, procedure, abstract interface, variable).
    Fortran (19.4, 19.5.1.4): in the nested scope the name denotes the used module's entity."""
    names = [("ta", "type"), ("pa", "proc"), ("ia", "abs"), ("va", "var")]
    za = mod("za", "public", [(n, k, "public") for n, k in names])
    zb = mod("zb", "public", [(n, k, "public") for n, k in names] + [("tb", "type", "public"), ("pb", "proc", "public"),
                                                                      ("ib", "abs", "public"), ("vb", "var", "public")])
    uses = {
        "plain": [use("zb")],
        "only": [use("zb", [(n, n) for n, _ in names])],
        "only_rename": [use("zb", [("ta", "tb"), ("pa", "pb"), ("ia", "ib"), ("va", "vb")], prefix="non_intrinsic")],
        "only_mixed": [use("zb", [("ta", "ta"), ("pa", "pb")]), use("zb", [("ia", "ib"), ("va", "va")])],
    }
    refs = [("type", "ta"), ("procptr", "ia"), ("call", "pa")]
    body_refs = [("type", "ta"), ("procptr", "ia")]
    out = []
    for hname, host in (("host_declares", "own"), ("host_imports", "use"), ("host_imports_only", "only")):
        for uname, us in uses.items():
            for form in ("modproc", "internal", "host_chain", "ifbody_mod", "ifbody_proc"):
                mm = mod("mm", "public")
                if host == "own":
                    mm["decls"] += mod("x", "public", [(n, k, "public") for n, k in names])["decls"]
                elif host == "use":
                    mm["uses"] = [use("za")]
                else:
                    mm["uses"] = [use("za", [(n, n) for n, _ in names])]
                mm["decls"] += [dict(ref_var("vmt", "type", "ta"), perm="public"), dict(ref_var("vmi", "procptr", "ia"), perm="public")]
                if form == "modproc":
                    mm["decls"].append(nested_decl(nd("p", "routine", us, refs), "proc"))
                elif form == "internal":
                    mm["decls"].append(nested_decl(nd("p", "routine", [], refs, [nd("q", "routine", us, refs)]), "proc"))
                elif form == "host_chain":
                    # the USE sits in the module procedure: its internal procedure inherits the hiding
                    mm["decls"].append(nested_decl(nd("p", "routine", us, [], [nd("q", "routine", [], refs)]), "proc"))
                elif form == "ifbody_mod":
                    mm["decls"].append(nested_decl(nd("ext", "ifbody", us, body_refs), "iface"))
                else:
                    mm["decls"].append(nested_decl(nd("p", "routine", [], refs, [nd("ext", "ifbody", us, body_refs)]), "proc"))
                out.append((f"shadow:{hname}:{uname}:{form}", [mm, za, zb]))
    return out


def witness_absbody():
    return [nested_module("absint_mod", [use("za")], ("ta",), (), ()), NESTED_ZA]


def witness_genbody():
    return [nested_module("generic_body", [use("zf")], ("ta",), (), ()), mod("zf", uses=[use("za")]), NESTED_ZA]


def cyclic_cases():
    a = mod("ma", decls=[("va1", "var", "public")], uses=[use("mb")])
    b = mod("mb", decls=[("vb1", "var", "public")], uses=[use("ma")])
    c = mod("mc", uses=[use("mb"), use("mc")])
    return [("cycle2", [a, b]), ("cycle2+self", [a, b, c]),
            ("selfuse", [mod("ma", decls=[("va1", "var", "public")], uses=[use("ma")])])]


# ----------------------------------------------------------------------------- running
class Runner:
    def __init__(self, chk):
        self.chk = chk
        self.cases = []          # (label, units, groups)
        self.nruns = 0
        self.nhtml = 0
        self.nhtml_refs = 0

    def add(self, label, units, orders, nontrivial=True, html=False):
        files, where = G.render_files(units)
        groups = {}
        extra_refs = []
        if html:
            extra_refs = I.html_refs(units, files)
            self.nhtml += 1
            if isinstance(extra_refs, str):
                self.chk.violation("failing-input", {"what": "full run: " + extra_refs, "files": files}, True)
                extra_refs = []
            self.nhtml_refs += len(extra_refs)
        for order in orders:
            obs, log, problems = I.observe(units, files, where, list(order))
            self.nruns += 1
            if isinstance(obs, str):
                if obs != "EXC:CircularDependencyError":
                    self.chk.violation("failing-input", {"what": "Project.correlate raised " + obs, "detail": problems,
                                                         "files": files, "file_order": list(order)}, True)
                    continue
                key, obs = "EXC", None
            else:
                if problems:
                    self.chk.violation("failing-input", {"what": "observation does not fit the abstract program",
                                                         "problems": problems[:10], "files": files,
                                                         "file_order": list(order)}, True)
                    continue
                # references read from the generated HTML go through the same judge
                obs["refs"] = obs["refs"] + [r for r in extra_refs if r not in obs["refs"]]
                key = json.dumps(obs, sort_keys=True)
            groups.setdefault(key, (obs, []))[1].append(([n.lower() for n in order], log or []))
        glist = list(groups.values())
        if len(glist) > 1:
            # the tables depend on the order in which the files were read: the statement's
            # "regardless of the order" half fails on the implementation, whatever the model says
            self.chk.violation("failing-input", {"what": "name tables depend on the file order",
                                                 "files": files,
                                                 "orders": [g[1][0][0] for g in glist]}, True)
        self.cases.append((label, units, glist, files))
        unit_names = {u["name"].lower() for u in units}
        nontrivial = nontrivial and any(x["target"].lower() in unit_names for u in units for x in u["uses"])
        self.chk.count(("graph", json.dumps(units, sort_keys=True)), nontrivial=nontrivial,
                       sample={"label": label, "units": [u["name"] for u in units],
                               "uses": [[G.render_use(x) for x in u["uses"]] for u in units],
                               "file_orders": len(orders)})

    def judge(self):
        chk = self.chk
        terms = [G.coq_case(units, groups) for _, units, groups, _ in self.cases if groups]
        idx = [k for k, c in enumerate(self.cases) if c[2]]
        res = chk.coq_judge(IMPORTS, "case", "judge", terms, shard=max(8, len(terms) // 16 + 1))
        stats = {"not_legal_spec_skipped": 0, "model_mismatch": 0, "spec_violation": 0,
                 "model_differs_from_spec": 0}
        if res is None:
            return stats
        chk.traces += self.nruns
        stats["legal_agreeing_with_spec"] = len(terms) - len(res)
        for j, code in sorted(res.items(), key=lambda jc: (not (jc[1] & 2), jc[0])):
            label, units, groups, files = self.cases[idx[j]]
            deviates = (code >> 8) & 1          # impl differs from the Spec somewhere
            if (code >> 7) & 1:
                stats["not_legal_spec_skipped"] += 1
            payload = {"label": label, "units": units, "files": files, "code": code,
                       "meaning": "bit0 model!=impl; bit1 impl differs from the Spec at a name / reference where the model "
                                  "agrees with the Spec; bits>=2: 32 not legal, 64 impl differs from the Spec somewhere",
                       "observed": groups[0][0], "runs": [g[1][:3] for g in groups],
                       "file_orders": [m[0] for g in groups for m in g[1][:3]]}
            if code & 2:
                chk.disagreements += 1
                stats["spec_violation"] += 1
                chk.violation("failing-input", payload, True)
            elif deviates:
                # the implementation and the model both differ from the Spec on a legal program: no
                # recorded defect is left that could explain it (C06_full / C06_nested_full)
                chk.disagreements += 1
                stats["model_differs_from_spec"] += 1
                chk.violation("failing-input", payload, True)
            if code & 1:
                stats["model_mismatch"] += 1
                if not code & 2:
                    chk.violation("broken-correspondence", payload, False)
        return stats


def distribution(all_units):
    d = {"modules_per_graph": {}, "use_forms": {}, "entity_kinds": {}, "max_chain_depth": {}, "default_private_modules": 0,
         "access_statements_on_imports": 0, "references": 0, "use_statements": 0}
    for units in all_units:
        mods = [u for u in units if u["unit"] == "module"]
        d["modules_per_graph"][len(mods)] = d["modules_per_graph"].get(len(mods), 0) + 1
        special = [u["name"].lower() for u in mods if u["name"].lower() in G.SPECIAL_NAMES]
        d["block_data_units"] = d.get("block_data_units", 0) + sum(1 for u in units if u["unit"] == "blockdata")
        d["project_modules_named_like_intrinsic_or_extra_mods"] = d.get("project_modules_named_like_intrinsic_or_extra_mods", 0) + len(special)
        d["use_statements_of_such_modules"] = d.get("use_statements_of_such_modules", 0) + sum(
            1 for u in units for x in G.all_uses(u) if x["target"].lower() in special)
        names = {u["name"].lower(): u for u in mods}
        depth = {}

        def dep(n, seen=()):
            if n in depth:
                return depth[n]
            if n in seen:
                return 0
            ts = [x["target"].lower() for x in names[n]["uses"] if x["target"].lower() in names]
            depth[n] = 1 + max([dep(t, seen + (n,)) for t in ts], default=0)
            return depth[n]
        md = max([dep(n) for n in names], default=0)
        d["max_chain_depth"][md] = d["max_chain_depth"].get(md, 0) + 1
        for u in units:
            for path, kinds, nd_ in G.nested_nodes(u):
                ks = [k for k in kinds if k != "genblock"]
                key = "/".join(ks)
                d.setdefault("nested_scopes", {})
                d["nested_scopes"][key] = d["nested_scopes"].get(key, 0) + 1
                d["nested_use_statements"] = d.get("nested_use_statements", 0) + len(nd_["uses"])
                d["references"] += len(nd_["refs"])
                shallow = {x["target"].lower() for x in u["uses"]}
                d["nested_use_of_module_not_used_shallower"] = d.get("nested_use_of_module_not_used_shallower", 0) + sum(
                    1 for x in nd_["uses"] if x["target"].lower() in names and x["target"].lower() not in shallow)
            d["default_private_modules"] += u["unit"] == "module" and u["default"] == "private"
            d["access_statements_on_imports"] += len(u["access"])
            d["references"] += sum(1 for x in u["decls"] if x.get("ref")) + len(u["calls"])
            for x in u["decls"]:
                d["entity_kinds"][x["kind"]] = d["entity_kinds"].get(x["kind"], 0) + 1
            targets = [x["target"].lower() for x in u["uses"]]
            for x in u["uses"]:
                d["use_statements"] += 1
                if x["only"] is None:
                    form = "rename" if x["renames"] else "plain"
                elif not x["only"]:
                    form = "only-empty"
                else:
                    ren = any(l != r for l, r in x["only"])
                    pl = any(l == r for l, r in x["only"])
                    form = "only+rename" if ren and pl else ("only-renames" if ren else "only")
                forms = [form]
                if x["prefix"] in ("intrinsic", "non_intrinsic", "::"):
                    forms.append("prefix:" + x["prefix"])
                if targets.count(x["target"].lower()) > 1:
                    forms.append("several-uses-of-one-module")
                if x["target"].lower() not in names:
                    forms.append("module-not-in-project")
                for f in forms:
                    d["use_forms"][f] = d["use_forms"].get(f, 0) + 1
    return d


def file_orders(rng, units, how):
    names = [u["name"] for u in units]
    if how == "all":
        return list(itertools.permutations(names))
    out = [tuple(names), tuple(reversed(names))]
    for _ in range(max(0, how - 2)):
        p = names[:]
        rng.shuffle(p)
        out.append(tuple(p))
    return list(dict.fromkeys(out))[:max(how, 1)]


def run(chk):
    chk.build(["theories/Corr/C06.vo", "theories/Props/C06.vo"])
    chk.props("theories/Props/C06.v", THEOREMS)
    rng = chk.rng
    quick = chk.tier == "quick"
    if not quick:
        chk.coqchk(["Ford.Props.C06"])
    R = Runner(chk)
    t0 = time.time()
    # 1. corpus: the recorded witnesses and saved cases
    for w in WITNESSES + [witness_absbody, witness_genbody]:
        R.add("witness:" + w.__name__, w(), file_orders(rng, w(), 2))
    for f in sorted((core.VERIF / "corpus" / "C06").glob("*.json")):
        units = json.load(open(f))["units"]
        R.add("corpus:" + f.name, units, file_orders(rng, units, 2))
    # 2. bounded-exhaustive layer over USE forms x default x access statements
    exh = exhaustive_layer()
    html_pick = set(rng.sample(range(len(exh)), 5 if quick else 40))
    for k, (label, units) in enumerate(exh):
        R.add(label, units, file_orders(rng, units, 1 if quick else 3), html=k in html_pick)
    # 2b. USE statements only in nested scopes (module / internal procedures, interface bodies) of a
    #     module, the used module re-exporting from further modules: every file order
    for label, units in nested_layer():
        R.add(label, units, file_orders(rng, units, "all" if len(units) <= 3 or not quick else 3))
    # 2b'. a nested USE that hides names of the host scope
    for label, units in shadow_layer():
        R.add(label, units, file_orders(rng, units, 1 if quick else 3))
    # 2c. several USE statements of one module in one scope
    for label, units in multi_use_layer():
        R.add(label, units, file_orders(rng, units, 1 if quick else 3))
    # 2c'. rename lists whose clauses depend on each other (chains, swaps, rotations)
    for label, units in rename_chain_layer():
        R.add(label, units, file_orders(rng, units, 1 if quick else 3))
    # 2c''. two scopes share a non-ONLY statement text, their companion renames differ
    for label, units, how in shared_statement_layer():
        R.add(label, units, file_orders(rng, units, how if (how != "all" or not quick) else 6))
    # 2d. project modules named like intrinsic / extra modules
    special = special_layer()
    if quick:
        special = [special[i] for i in sorted(rng.sample(range(len(special)), 70))]
    for label, units in special + intrinsic_clash_cases():
        R.add(label, units, file_orders(rng, units, 1 if quick else 3))
    # 3. random DAGs (mostly legal), two file orders each
    n_random = 240 if quick else 4000
    for k in range(n_random):
        knobs = {"regions": rng.random() < 0.25, "p_clash": 0.3 if rng.random() < 0.15 else 0.0,
                 "p_nested": 0.6 if rng.random() < 0.4 else 0.0, "p_special": 0.35, "p_blockdata": 0.2, "p_shared": 0.2}
        units = G.gen_graph(rng, knobs)
        R.add(f"random:{k}", units, file_orders(rng, units, 2 if quick else 4),
              html=any(u["unit"] == "program" and any(d.get("ref") for d in u["decls"]) for u in units)
              and rng.random() < (0.08 if quick else 0.05))
    # 4. every permutation of the file order
    plan = [(5, 3), (4, 6), (3, 8)] if quick else [(5, 12), (4, 30), (3, 30)]
    for nfiles, count in plan:
        for k in range(count):
            units = G.gen_graph(rng, {"nmod": nfiles - 1, "program": True, "shape": rng.choice(["chain", "diamond", "random"]),
                                      "regions": False})
            R.add(f"perm{nfiles}:{k}", units, file_orders(rng, units, "all"))
    # 5. malformed: cycles, self use
    for label, units in cyclic_cases():
        R.add("malformed:" + label, units, file_orders(rng, units, 2), nontrivial=False)
    t1 = time.time()
    stats = R.judge()
    stats["distribution"] = distribution([c[1] for c in R.cases])
    chk.extra["c06"] = {"ford_runs": R.nruns, "cases": len(R.cases), "full_runs_html": R.nhtml,
                        "html_references_checked": R.nhtml_refs, "impl_s": round(t1 - t0, 1),
                        "judge_s": round(time.time() - t1, 1), **stats}
    # 6. repaired findings: replay each witness on the implementation
    replay_findings(chk)


def replay_findings(chk):
    """the witnesses of the repaired defects (fixed: entries in known_findings.d/C06.json): regression
    inputs, a failing input if one of them returns"""
    def tabs(units):
        files, where = G.render_files(units)
        obs, _, _ = I.observe(units, files, where, [u["name"] for u in units])
        return {o["name"]: o for o in obs["units"]} if isinstance(obs, dict) else {}

    def back(what, units, t):
        chk.violation("failing-input", {"what": what, "units": units, "files": G.render_files(units)[0],
                                        "variables_seen": {n: o["all"][3] for n, o in t.items()}}, True)
    t = tabs(witness_intrinsic_nature())
    if not t or "foo" in dict(t["mb"]["all"][3]) or "foo" not in dict(t["mc"]["all"][3]):
        back("`use, intrinsic :: iso_fortran_env` is matched with the project's module iso_fortran_env (or the "
             "statement without module nature is not)", witness_intrinsic_nature(), t)
    t = tabs(witness_rename())
    keys = dict(t["mb"]["all"][3]) if t else {}
    if not t or "bar" not in keys or "foo" in keys:
        back("`use ma, bar => foo`: the rename without ONLY is ignored (bar missing or foo still visible)",
             witness_rename(), t)
    t = tabs(witness_across())
    keys = dict(t["mb"]["all"][3]) if t else {}
    if not t or "foo" in keys or "bar" not in keys:
        back("`use ma` / `use ma, only: bar => foo`: foo stays visible although it is renamed in the same scope",
             witness_across(), t)
    t = tabs(witness_private())
    if not t or "foo" in dict(t["mc"]["all"][3]) or "foo" not in dict(t["mb"]["all"][3]):
        back("`use ma; private :: foo` in a default-public module: foo is re-exported to users of the module",
             witness_private(), t)
    t = tabs(witness_only_empty())
    if not t or any(len(c) > 0 for c in t["mb"]["all"]):
        back("`use ma, only:` with an empty only-list imports entities", witness_only_empty(), t)
    t = tabs(witness_only_dup())
    keys = dict(t["mb"]["all"][3]) if t else {}
    if not t or "foo" not in keys or "bar" not in keys:
        back("`use ma, only: foo, bar => foo`: one of the two local names of foo is missing", witness_only_dup(), t)

    def nested_types(units, path):
        files, where = G.render_files(units)
        obs, _, _ = I.observe(units, files, where, [u["name"] for u in units])
        if not isinstance(obs, dict):
            return None
        q = [x for x in obs["nested"] if x["unit"] == "mm" and x["path"] == path]
        return dict(q[0]["all"][2]) if q else None
    # repaired in /repo (fixed: entries in known_findings.d/C06.json): failing inputs if they return
    for w, path, what in ((witness_absbody, ["cb"], "a USE statement in the body of an abstract interface is ignored"),
                          (witness_genbody, ["ext"], "a USE statement in a body inside a generic interface block is not a "
                                                     "dependency of the module")):
        t = nested_types(w(), path)
        if t is None or "ta" not in t:
            chk.violation("failing-input", {"what": what, "types_of_the_body": t, "units": w(),
                                            "files": G.render_files(w())[0]}, True)


def replay(chk, rep):
    units = rep.get("units")
    if not units:
        print("nothing to replay")
        return 0
    chk.build(["theories/Corr/C06.vo"])
    R = Runner(chk)
    orders = [tuple(o) for o in rep.get("file_orders", [])] or file_orders(chk.rng, units, 2)
    R.add("replay", units, orders)
    terms = [G.coq_case(u, g) for _, u, g, _ in R.cases if g]
    res = chk.coq_judge(IMPORTS, "case", "judge", terms)
    print("judge code:", res)
    return 1 if res or chk.violations else 0


def finish(chk):
    return chk.finish(
        level_note="Coq proof over all module graphs and processing orders; model tied to "
                   "Project.correlate() by differential runs on generated module DAGs under forced file orders",
        trusted_base=["Coq 8.16.1 kernel (vm_compute for case evaluation and witnesses)",
                      "harness/gen/c06gen.py (generator, renderer, projection), harness/impl/c06impl.py (adapter)",
                      "hand-written model Sem/UseAssoc.v; Spec written from Fortran 2018 14.2.2",
                      "own declarations' accessibility is an input (C04); ASCII names"],
        rule="a case = one abstract module graph (distinct after JSON canonicalisation); non-trivial = at least "
             "one USE statement resolved to a project module; each case is run under 1..120 file orders",
        checker_cmd="make theories/Props/C06.vo && coqc theories/Props/C06.v (Print Assumptions)",
        assumptions=["toposort package modelled as level-wise topological sort",
                     "names in a scope are unambiguous (legal Fortran) for the Spec comparison",
                     "nested scopes (module/internal procedures, interface bodies): of their dictionaries the "
                     "use-associated part (entities of other modules) and what comes from the module is compared "
                     "exactly; declarations local to procedures are C07's domain"])
