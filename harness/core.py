"""Shared machinery for the FORD/Coq checks: build, proof-obligation accounting, in-kernel
evaluation of the models on harness-generated cases, verdict, evidence, replays."""
import fcntl
import json
import os
import random
import re
import shutil
import subprocess
import sys
import tempfile
import time
from concurrent.futures import ThreadPoolExecutor
from pathlib import Path

VERIF = Path(__file__).resolve().parent.parent
COQ = VERIF / "coq"
REPO = Path(os.environ.get("VERIF_REPO", "/repo"))
NCPU = 16

ALLOWED_AXIOMS = {
    # standard-library axioms that DESIGN.md §7 names; nothing else is accepted
    "functional_extensionality_dep",
    "FunctionalExtensionality.functional_extensionality_dep",
    "Coq.Logic.FunctionalExtensionality.functional_extensionality_dep",
}

FORBIDDEN = re.compile(
    r"\b(Admitted|admit|Axiom|Axioms|Parameter|Parameters|Conjecture|Hypothesis|Hypotheses|Variable|Variables|"
    r"Abort|bypass_check|Unset\s+Guard|Unset\s+Positivity|Unset\s+Universe|Admit\s+Obligations|type-in-type)\b"
)


def pathlib_name(vfile):
    return Path(vfile).with_suffix('.vo').name


def coq_str(x: str) -> str:
    """A Coq term of type [str] for the 7-bit text x."""
    assert all(ord(c) < 128 for c in x), repr(x)
    return '(s "' + x.replace('"', '""') + '")'


def coq_list(items) -> str:
    return "[" + "; ".join(items) + "]"


def coq_bool(b) -> str:
    return "true" if b else "false"


def coq_opt(x, f=lambda v: v) -> str:
    return "None" if x is None else f"(Some {f(x)})"


def is_ascii(x: str) -> bool:
    return all(ord(c) < 128 and (ord(c) >= 32 or c in "\t\n") for c in x)


class BuildLock:
    def __enter__(self):
        self.f = open(COQ / ".lock", "w")
        fcntl.flock(self.f, fcntl.LOCK_EX)

    def __exit__(self, *a):
        fcntl.flock(self.f, fcntl.LOCK_UN)
        self.f.close()


def run(cmd, cwd=None, timeout=600, env=None, input=None):
    try:
        p = subprocess.run(cmd, cwd=cwd, timeout=timeout, env=env, input=input,
                           stdout=subprocess.PIPE, stderr=subprocess.STDOUT, text=True, errors="replace")
        return p.returncode, p.stdout
    except subprocess.TimeoutExpired as e:
        out = e.stdout or ""
        if isinstance(out, bytes):
            out = out.decode(errors="replace")
        return 124, out + "\nTIMEOUT"


def ensure_makefile():
    """_CoqProject lists every theories/**/*.v (coqdep orders them); regenerated when the set changes."""
    mk = COQ / "Makefile"
    cp = COQ / "_CoqProject"
    want = "-Q theories Ford\n" + "".join(
        str(f.relative_to(COQ)) + "\n" for f in sorted((COQ / "theories").rglob("*.v")))
    if not cp.exists() or cp.read_text() != want:
        cp.write_text(want)
    if not mk.exists() or mk.stat().st_mtime < cp.stat().st_mtime:
        rc, out = run(["coq_makefile", "-f", "_CoqProject", "-o", "Makefile"], cwd=COQ)
        if rc != 0:
            raise RuntimeError("coq_makefile failed: " + out)


def coq_deps(vfiles):
    """the .v files under coq/theories that the given files depend on (transitively), by their
    `From Ford Require Import A.B ...` lines"""
    seen, todo = set(), [COQ / v for v in vfiles]
    while todo:
        f = todo.pop()
        if f in seen or not f.exists():
            continue
        seen.add(f)
        txt = re.sub(r"\(\*.*?\*\)", "", f.read_text(), flags=re.S)
        for m in re.finditer(r"From\s+Ford\s+Require\s+(?:Import|Export)\s+([^.]*(?:\.[A-Za-z_][\w.]*)*)\s*\.\s", txt + " "):
            pass
        for m in re.finditer(r"From\s+Ford\s+Require\s+(?:Import|Export)\s+(.*?)\.\s", txt + " ", flags=re.S):
            for mod in m.group(1).split():
                todo.append(COQ / "theories" / (mod.replace(".", "/") + ".v"))
        for m in re.finditer(r"Require\s+(?:Import|Export)\s+Ford\.([\w.]+)\s*\.\s", txt + " "):
            todo.append(COQ / "theories" / (m.group(1).replace(".", "/") + ".v"))
    return sorted(seen)


def scan_forbidden(vfiles=None):
    """forbidden constructs in the development a property depends on (all of theories/ when no
    files are given)"""
    bad = []
    files = coq_deps(vfiles) if vfiles else sorted((COQ / "theories").rglob("*.v"))
    for f in files:
        txt = f.read_text()
        txt = re.sub(r"\(\*.*?\*\)", "", txt, flags=re.S)
        for m in FORBIDDEN.finditer(txt):
            bad.append(f"{f.relative_to(COQ)}: {m.group(0)}")
    return bad


class Check:
    """One run of one property's check."""

    def __init__(self, pid, tier, seed):
        self.pid, self.tier, self.seed = pid, tier, seed
        self.rng = random.Random(seed * 1000003 + sum(map(ord, pid)))
        self.t0 = time.time()
        self.obligations = []          # (name, ok, detail)
        self.assumptions_seen = []
        self.evaluations = 0
        self.distinct = set()
        self.samples = []
        self.traces = 0
        self.disagreements = 0
        self.violations = []           # (replay_path, suffix)
        self.known_lines = []
        self.extra = {}
        self.notes = []
        self.tmp = Path(tempfile.mkdtemp(prefix=f"verif_{pid}_"))
        allf = list(json.load(open(VERIF / "known_findings.json"))["findings"])
        for extra in sorted((VERIF / "known_findings.d").glob("*.json")) if (VERIF / "known_findings.d").is_dir() else []:
            allf += json.load(open(extra))["findings"]
        self.findings = [f for f in allf if f["property"] == pid]

    # ---------------------------------------------------------------- proof side
    def obligation(self, name, ok, detail=""):
        self.obligations.append((name, bool(ok), detail))

    def translate(self, scripts):
        """Run translators (regenerate Gen/*.v from /repo). A translator that fails closed is a
        broken obligation."""
        for sc in scripts:
            rc, out = run([sys.executable, str(VERIF / "translate" / sc)], cwd=VERIF, timeout=120,
                          env=self.env())
            self.obligation(f"translator:{sc}", rc == 0, out[-2000:] if rc else "")

    def build(self, targets):
        """make the given .vo targets (and what they depend on)."""
        with BuildLock():
            ensure_makefile()
            rc, out = run(["timeout", "1500", "make", "-j%d" % NCPU] + targets, cwd=COQ, timeout=1600)
        self.obligation("build:" + ",".join(targets), rc == 0, out[-3000:] if rc else "")
        return rc == 0

    def props(self, vfile, expected):
        """Re-check Props/<id>.v and account for every expected theorem with its assumptions."""
        corr = "theories/Corr/" + Path(vfile).name
        bad = scan_forbidden([vfile, corr])
        self.obligation("no-axioms-admits-or-disabled-checks", not bad, "; ".join(bad))
        self.extra.setdefault("coq_files_checked", []).extend(
            str(f.relative_to(COQ)) for f in coq_deps([vfile, corr]))
        src = (COQ / vfile).read_text()
        declared = re.findall(r"^\s*(?:Theorem|Lemma)\s+(\w+)", src, flags=re.M)
        printed = re.findall(r"^\s*Print Assumptions\s+(\w+)\s*\.", src, flags=re.M)
        rc, out = run(["timeout", "600", "coqc", "-Q", "theories", "Ford", "-o", str(self.tmp / pathlib_name(vfile)), vfile],
                      cwd=COQ, timeout=700)
        results = []
        if rc == 0:
            blocks = re.split(r"(?m)^(?=Closed under the global context|Axioms:)", out)
            blocks = [b for b in blocks if b.startswith("Closed") or b.startswith("Axioms:")]
            for b in blocks:
                if b.startswith("Closed"):
                    results.append([])
                else:
                    results.append(re.findall(r"(?m)^([A-Za-z_][\w.']*)\s*:", b[len("Axioms:"):]))
        for name in expected:
            if name not in declared or name not in printed:
                self.obligation(name, False, "theorem or its Print Assumptions missing from " + vfile)
                continue
            if rc != 0:
                self.obligation(name, False, "coqc failed on %s: %s" % (vfile, out[-1500:]))
                continue
            idx = printed.index(name)
            if idx >= len(results):
                self.obligation(name, False, "no Print Assumptions output")
                continue
            ax = results[idx]
            notallowed = [a for a in ax if a.split(".")[-1] not in {x.split(".")[-1] for x in ALLOWED_AXIOMS}]
            self.assumptions_seen.append((name, ax))
            self.obligation(name, not notallowed, "axioms: " + ", ".join(ax) if ax else "closed")
        return rc == 0

    def coqchk(self, libs):
        rc, out = run(["timeout", "1500", "coqchk", "-silent", "-o", "-Q", "theories", "Ford"] + libs,
                      cwd=COQ, timeout=1600)
        # the independent checker must accept every library and report no axiom, no type-in-type,
        # no unsafe fixpoint and no assumed positivity
        clean = all(f"{k}: <none>" in out for k in ("Axioms", "relying on type-in-type",
                                                    "relying on unsafe (co)fixpoints", "positivity is assumed"))
        ok = rc == 0 and clean
        self.obligation("coqchk:" + ",".join(libs), ok, out[-1500:])
        self.extra["coqchk"] = out[-1500:]
        return ok

    # ---------------------------------------------------------------- model evaluation
    def coq_judge(self, imports, case_type, judge, case_terms, shard=300, defs=""):
        """Evaluate [judge : case_type -> nat] on every case inside Coq; returns {index: code}
        for the non-zero codes, or None when the evaluation itself failed."""
        if not case_terms:
            return {}
        shards = [case_terms[i:i + shard] for i in range(0, len(case_terms), shard)]
        files = []
        for k, sh in enumerate(shards):
            f = self.tmp / f"cases_{len(list(self.tmp.glob('cases_*.v')))}_{k}.v"
            body = ";\n ".join(sh)
            f.write_text(
                f"{imports}\nSet Printing Width 1000000.\nSet Printing Depth 1000000.\n{defs}\n"
                f"Definition cases : list ({case_type}) :=\n [{body}].\n"
                f"Eval vm_compute in (report (map ({judge}) cases)).\n")
            files.append(f)

        def one(f):
            return run(["timeout", "900", "coqc", "-Q", "theories", "Ford", str(f)], cwd=COQ, timeout=1000)

        res = {}
        with ThreadPoolExecutor(max_workers=NCPU) as ex:
            outs = list(ex.map(one, files))
        for k, (rc, out) in enumerate(outs):
            if rc != 0 or "list (nat * nat)" not in out:
                self.obligation("model-evaluation", False, out[-2000:])
                return None
            for m in re.finditer(r"\((\d+), (\d+)\)", out.split(": list (nat * nat)")[0]):
                res[k * shard + int(m.group(1))] = int(m.group(2))
        return res

    def coq_eval(self, imports, expr, defs=""):
        f = self.tmp / f"eval_{len(list(self.tmp.glob('eval_*.v')))}.v"
        f.write_text(f"{imports}\nSet Printing Width 1000000.\nSet Printing Depth 1000000.\n{defs}\n"
                     f"Eval vm_compute in ({expr}).\n")
        rc, out = run(["timeout", "600", "coqc", "-Q", "theories", "Ford", str(f)], cwd=COQ, timeout=700)
        return out.strip() if rc == 0 else "COQ-ERROR: " + out[-1500:]

    # ---------------------------------------------------------------- bookkeeping
    def env(self):
        e = dict(os.environ)
        e["PYTHONPATH"] = str(REPO)
        e["FORD_DEBUGGING"] = "1"
        e["FORD_VERIF"] = "1"
        e["PATH"] = "/venv/bin:" + e.get("PATH", "")
        e.setdefault("PYTHONHASHSEED", "0")
        return e

    def count(self, key, nontrivial=True, sample=None):
        self.evaluations += 1
        if nontrivial:
            self.distinct.add(key if isinstance(key, (str, int, tuple)) else json.dumps(key, sort_keys=True))
        if sample is not None and len(self.samples) < 5:
            self.samples.append(sample)

    def violation(self, kind, payload, found_input):
        """Record a violation; replay files are written by finish() (at most three, those that carry
        a concrete failing input first)."""
        self.nviol = getattr(self, "nviol", 0) + 1
        if not hasattr(self, "_pending"):
            self._pending = []
        if len(self._pending) < 200:
            payload = dict(payload)
            payload.update({"property": self.pid, "kind": kind, "tier": self.tier, "seed": self.seed})
            self._pending.append((0 if found_input else 1, len(self._pending), payload, found_input))

    def _write_violations(self):
        d = VERIF / "replays" / self.pid
        for _, _, payload, found_input in sorted(getattr(self, "_pending", []), key=lambda x: x[:2])[:3]:
            d.mkdir(parents=True, exist_ok=True)
            path = d / f"{self.tier}_{self.seed}_{len(self.violations)}.json"
            payload["replay_cmd"] = f"./check {self.pid} --replay {path}"
            path.write_text(json.dumps(payload, indent=1, default=str))
            self.violations.append((str(path), "" if found_input else " no-failing-input-found"))

    def known(self, key, still_fails):
        for f in self.findings:
            if f["key"] == key and f.get("status", "open") == "open":
                if still_fails:
                    self.known_lines.append(f"KNOWN-FINDING: property={self.pid} {f['what']}")
                return True
        return False

    def finish(self, level_note, trusted_base, rule, checker_cmd, assumptions):
        broken = [(n, d) for (n, ok, d) in self.obligations if not ok]
        if broken and not getattr(self, "_pending", []):
            self.violation("broken-obligation",
                           {"broken": [{"name": n, "detail": d} for n, d in broken]}, False)
        self._write_violations()
        ev = {
            "property_id": self.pid, "tier": self.tier, "seed": self.seed, "level": "proof",
            "coverage": {
                "obligations": len(self.obligations),
                "discharged": sum(1 for o in self.obligations if o[1]),
                "obligation_list": [{"name": n, "ok": ok, "detail": d[:300]} for n, ok, d in self.obligations],
                "checker_cmd": checker_cmd,
                "trusted_base": trusted_base,
                "print_assumptions": [{"theorem": n, "axioms": a} for n, a in self.assumptions_seen],
                "evaluations": self.evaluations,
                "distinct_nontrivial": len(self.distinct),
                "rule": rule,
                "samples": self.samples or ["(no cases generated)"],
                "traces_validated_against_impl": self.traces,
                "disagreements_checked": self.disagreements,
                "known_findings_reported": self.known_lines,
                **self.extra,
            },
            "assumptions": assumptions,
            "wall_s": round(time.time() - self.t0, 2),
            "violations": getattr(self, "nviol", 0),
        }
        # keys of the evidence schema keep their schema types whatever a property module put into chk.extra:
        # a mistyped value moves to "<key>_detail"
        cov = ev["coverage"]
        typed = {"evaluations": int, "distinct_nontrivial": int, "states": int, "transitions": int,
                 "traces_validated_against_impl": int, "obligations": int, "discharged": int, "programs": int,
                 "disagreements_checked": int, "rule": str, "checker_cmd": str, "explanation": str,
                 "exhaustive": bool, "samples": list, "trusted_base": list}
        for key, ty in typed.items():
            if key in cov and (not isinstance(cov[key], ty) or (ty is int and isinstance(cov[key], bool))):
                cov[key + "_detail"] = cov.pop(key)
                if key == "exhaustive":
                    cov["exhaustive"] = bool(cov[key + "_detail"])
        if not str(cov.get("checker_cmd", "")).strip():
            cov["checker_cmd"] = f"make theories/Props/{self.pid}.vo && coqc theories/Props/{self.pid}.v (Print Assumptions)"
        cov["trusted_base"] = [str(x) for x in cov.get("trusted_base", [])]
        (VERIF / "evidence").mkdir(exist_ok=True)
        (VERIF / "evidence" / f"{self.pid}.json").write_text(json.dumps(ev, indent=1, default=str))
        shutil.rmtree(self.tmp, ignore_errors=True)
        for l in sorted(set(self.known_lines)):
            print(l)
        for path, suffix in self.violations:
            print(f"VIOLATION property={self.pid} replay={path}{suffix}")
        print(f"[{self.pid}] tier={self.tier} seed={self.seed} obligations={ev['coverage']['discharged']}/"
              f"{ev['coverage']['obligations']} evaluations={self.evaluations} "
              f"distinct={len(self.distinct)} violations={len(self.violations)} wall={ev['wall_s']}s")
        return 1 if self.violations else 0
