"""C15 finding md-int-error-unnamed: a bad integer in the project file aborts with a message that
names neither the option nor the file.  Run with PYTHONPATH=/repo.  Exit 1 while present."""
import contextlib, io, os, pathlib, shutil, sys, tempfile
os.environ["FORD_DEBUGGING"] = "1"
import ford


def effective(md="", toml=None, config=None, cwd_elsewhere=False, files=()):
    """ford.load_settings + ford.parse_arguments on a scratch project; returns the settings object
    or the exception"""
    root = pathlib.Path(os.path.realpath(tempfile.mkdtemp(prefix="c15demo_")))
    proj, other = root / "p", root / "w"
    proj.mkdir(); other.mkdir()
    (proj / "proj.md").write_text(md)
    if toml is not None:
        (proj / "fpm.toml").write_text(toml)
    for rel in files:
        (proj / rel).parent.mkdir(parents=True, exist_ok=True)
        (proj / rel).write_text("module m_%s\nend module\n" % pathlib.Path(rel).stem)
    old = os.getcwd()
    os.chdir(other if cwd_elsewhere else proj)
    directory = "../p" if cwd_elsewhere else ""
    try:
        with contextlib.redirect_stdout(io.StringIO()) as out:
            docs, settings = ford.load_settings(md, directory, "proj.md")
            settings, docs = ford.parse_arguments({"project_file": None, "config": config}, docs, settings, directory)
            extra = CALLBACK(settings, proj) if CALLBACK else None
        return settings, out.getvalue(), extra
    except BaseException as e:  # noqa
        return e, "", None
    finally:
        os.chdir(old)
        shutil.rmtree(root)


CALLBACK = None

e, _, _ = effective(md="preprocess: false\nmax_frontpage_items: four\n")
b, _, _ = effective(md="preprocess: false\ngraph: maybe\n")
print("int  option:", type(e).__name__, "-", e)
print("bool option:", type(b).__name__, "-", b)
ok = isinstance(e, BaseException) and "max_frontpage_items" in str(e)
sys.exit(0 if ok else 1)
