"""C04 finding (protected-single-keyword): FORD keeps ONE keyword per entity, Fortran two attributes.
 (a) default-private module, `integer, protected :: y`: y is private (and protected); FORD reports
     `protected` and exports y through USE;
 (b) `integer, protected :: w` + `public :: w`, or `integer, protected, public :: v`: public AND protected;
     FORD reports `public`, the PROTECTED attribute is lost.
Run with PYTHONPATH=/repo:/verif.  Exit status 1 while the defect is present."""
import sys
from findings.c04_common import permissions

SRC = """module m
  private
  integer, protected :: y
  integer, protected :: w
  integer, protected, public :: v
  public :: w
end module m
"""
perms, pub_vars, _, _ = permissions(SRC)
for row in perms:
    print(row)
print("exported variables:", pub_vars)
got = {n: p for _, n, p in perms}
ok = got["y"] == "private" and "y" not in pub_vars and got["w"] == "protected" and got["v"] == "protected"
sys.exit(0 if ok else 1)
