"""C15 finding nonscalar-values-unchecked (open): in fpm.toml [extra.ford] and --config the values of
list, key/value-table, file-type and path options are not checked against the declared type
(ProjectSettings.__post_init__ checks bool / int / str options only): exclude = 5 becomes [5],
alias = 5 stays 5, alias = "a = b" stays a string (the project file parses it into a table),
css = 5 aborts with a TypeError that does not name the option.
Run with PYTHONPATH=<repo>.  Exit 1 while the defect is present."""
import contextlib, io, os, pathlib, shutil, sys, tempfile
os.environ["FORD_DEBUGGING"] = "1"
import ford


def command_line(md="", toml=None, config=None):
    """the `ford` command line (ford.initialize) on a scratch project: the settings object or the exception"""
    root = pathlib.Path(os.path.realpath(tempfile.mkdtemp(prefix="c15demo_")))
    (root / "proj.md").write_text(md)
    if toml is not None:
        (root / "fpm.toml").write_text(toml)
    old, argv = os.getcwd(), sys.argv
    os.chdir(root)
    sys.argv = ["ford", "proj.md"] + ([f"--config={config}"] if config else [])
    try:
        with contextlib.redirect_stdout(io.StringIO()), contextlib.redirect_stderr(io.StringIO()):
            settings, _ = ford.initialize()
        return settings
    except BaseException as e:  # noqa -- the exception is the outcome
        return e
    finally:
        os.chdir(old)
        sys.argv = argv
        shutil.rmtree(root)


def show(label, r, *names):
    if isinstance(r, BaseException):
        print(f"{label:52} -> {type(r).__name__}: {r}")
    else:
        print(f"{label:52} -> accepted: " + ", ".join(f"{n} = {getattr(r, n)!r}" for n in names))


def rejected_naming(r, name):
    return isinstance(r, BaseException) and f"'{name}'" in str(r)


HEAD = "[extra.ford]\npreprocess = false\n"
cases = [("exclude", "exclude = 5"), ("alias", "alias = 5"), ("alias", 'alias = "a = b"'),
         ("extra_filetypes", "extra_filetypes = 5"), ("copy_subdir", "copy_subdir = [1]"), ("css", "css = 5")]
ok = True
for name, line in cases:
    for label, r in (("fpm.toml ", command_line(toml=HEAD + line + "\n")),
                     ("--config ", command_line(config="preprocess = false; " + line))):
        show(label + " " + line, r, name)
        ok = ok and rejected_naming(r, name)
m = command_line(md="preprocess: false\nalias: a = b\n")
show("markdown  alias: a = b", m, "alias")
sys.exit(0 if ok else 1)
