"""C01 finding attribute-text-spelling.  Run with PYTHONPATH=/repo.  Exit 1 while present."""
import contextlib, io, os, shutil, sys, tempfile
os.environ["FORD_DEBUGGING"] = "1"
import ford.sourceform as sf
from ford.settings import ProjectSettings


def parse(text):
    """ford.sourceform.FortranSourceFile on a scratch file; returns the file object or the exception"""
    d = tempfile.mkdtemp(prefix="c01demo_")
    try:
        p = os.path.join(d, "t.f90")
        with open(p, "w") as fh:
            fh.write(text)
        sf.namelist = sf.NameSelector()
        with contextlib.redirect_stdout(io.StringIO()):
            try:
                return sf.FortranSourceFile(p, ProjectSettings(preprocess=False, dbg=True), None, False)
            except BaseException as e:  # noqa
                return e
    finally:
        shutil.rmtree(d)


def module_vars(*lines):
    f = parse("module m\n" + "".join(l + "\n" for l in lines) + "end module m\n")
    return f if isinstance(f, BaseException) else {v.name: v for v in f.modules[0].variables}


def show(v):
    return {k: getattr(v, k) for k in ("vartype", "kind", "strlen", "attribs", "intent", "optional", "parameter",
                                       "initial", "dimension") if getattr(v, k) not in (None, "", [], False)}


vs = module_vars("integer, TARGET :: a", "integer, target :: b", "integer c", "TARGET c", "real, Allocatable :: d(:)")
for n, v in vs.items():
    print(n, show(v))
sys.exit(0 if vs["a"].attribs == vs["b"].attribs == vs["c"].attribs else 1)
