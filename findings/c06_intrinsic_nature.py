"""C06 finding: `use, intrinsic :: iso_fortran_env` in a project that has a module iso_fortran_env of its
own must designate the intrinsic module (Fortran 2018 14.2.2); FORD matches it with the project's module.
Run with PYTHONPATH=/repo.  Exit status 1 if the defect is present (repaired in /repo 370643f: a regression witness)."""
import os, sys, tempfile, pathlib, shutil
os.environ["FORD_DEBUGGING"] = "1"
import ford.sourceform as sf
from ford.fortran_project import Project
from ford.settings import ProjectSettings

MA = "module iso_fortran_env\n  integer :: foo\nend module iso_fortran_env\n"
MB = "module mb\n  use, intrinsic :: iso_fortran_env\nend module mb\n"
MC = "module mc\n  use iso_fortran_env\nend module mc\n"
BD = "block data bdat\n  use, intrinsic :: iso_fortran_env\n  use mc\n  integer :: k\n  common /blk/ k\nend block data bdat\n"

d = pathlib.Path(tempfile.mkdtemp())
try:
    (d / "src").mkdir()
    (d / "src" / "ma.f90").write_text(MA)
    (d / "src" / "mb.f90").write_text(MB)
    (d / "src" / "mc.f90").write_text(MC)
    (d / "src" / "bd.f90").write_text(BD)      # (block data units have USE statements too)
    sf.namelist = sf.NameSelector()
    p = Project(ProjectSettings(src_dir=[d / "src"], preprocess=False, dbg=True))
    p.correlate()
    mods = {m.name: m for m in p.modules}
    for m in p.modules:
        print(m.name, "all_vars:", sorted(m.all_vars), "uses:", [type(u).__name__ for u in m.uses])
    ok_plain = "foo" in mods["mc"].all_vars          # without module nature: the project's module
    bad = "foo" in mods["mb"].all_vars               # with INTRINSIC: not the project's module
    bd = p.blockdata[0]
    ok_bd = "foo" in bd.all_vars and not any(getattr(u, "name", u) == "iso_fortran_env" and type(u) is sf.FortranModule
                                             for u in bd.uses)
    print("use iso_fortran_env -> project module:", ok_plain, "; use, intrinsic :: -> project module:", bad,
          "; block data: foo through mc only:", ok_bd)
    sys.exit(1 if bad or not ok_plain or not ok_bd else 0)
finally:
    shutil.rmtree(d)
