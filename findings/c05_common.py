"""shared by the C05 demonstrations: one full FORD run on a single source file; returns {page: text}"""
import contextlib, io, os, pathlib, shutil, tempfile
os.environ["FORD_DEBUGGING"] = "1"
import ford
import ford.sourceform as sf


def site(source, **options):
    d = pathlib.Path(tempfile.mkdtemp())
    cwd = os.getcwd()
    try:
        (d / "src").mkdir()
        (d / "src" / "demo.f90").write_text(source)
        opts = {"project": "demo", "src_dir": "./src", "output_dir": "./doc", "preprocess": "false",
                "graph": "false", "search": "true", "incl_src": "false"}
        opts.update({k: (str(v).lower() if isinstance(v, bool) else v) for k, v in options.items()})
        lines = ["---"]
        for k, v in opts.items():
            if isinstance(v, (list, tuple)):
                lines.append(f"{k}: {v[0]}")
                lines += [f"    {x}" for x in v[1:]]
            else:
                lines.append(f"{k}: {v}")
        (d / "proj.md").write_text("\n".join(lines) + "\n---\n\nDemo.\n")
        os.chdir(d)
        sf.namelist = sf.NameSelector()
        with contextlib.redirect_stdout(io.StringIO()), contextlib.redirect_stderr(io.StringIO()):
            text = (d / "proj.md").read_text()
            docs, settings = ford.load_settings(text, d, "proj.md")
            data, docs = ford.parse_arguments({"project_file": open(d / "proj.md")}, docs, settings, d)
            ford.main(data, docs)
        out = {}
        for p in (d / "doc").rglob("*"):
            rel = p.relative_to(d / "doc")
            if p.is_file() and p.suffix in (".html", ".json") and rel.parts[0] not in ("css", "js", "src", "tipuesearch"):
                out[str(rel)] = p.read_text(errors="replace")
        return out
    finally:
        os.chdir(cwd)
        shutil.rmtree(d)


def where(pages, word):
    return sorted(p for p, t in pages.items() if word in t)
