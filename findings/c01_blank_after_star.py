"""C01 finding blank-after-star: real * 8 x aborts, character * 10 c is misread.
Run with PYTHONPATH=/repo.  Exit 1 while the defect is present."""
import contextlib, io, os, shutil, sys, tempfile
os.environ["FORD_DEBUGGING"] = "1"
import ford.sourceform as sf
from ford.settings import ProjectSettings


def parse(text):
    """ford.sourceform.FortranSourceFile on a scratch file; returns the file object or the exception"""
    d = tempfile.mkdtemp(prefix="c01demo_")
    try:
        p = os.path.join(d, "t.f90")
        with open(p, "w") as fh:
            fh.write(text)
        sf.namelist = sf.NameSelector()
        with contextlib.redirect_stdout(io.StringIO()):
            try:
                return sf.FortranSourceFile(p, ProjectSettings(preprocess=False, dbg=True), None, False)
            except BaseException as e:  # noqa
                return e
    finally:
        shutil.rmtree(d)


def module_vars(*lines):
    f = parse("module m\n" + "".join(l + "\n" for l in lines) + "end module m\n")
    return f if isinstance(f, BaseException) else {v.name: v for v in f.modules[0].variables}


def show(v):
    return {k: getattr(v, k) for k in ("vartype", "kind", "strlen", "attribs", "intent", "optional", "parameter",
                                       "initial", "dimension") if getattr(v, k) not in (None, "", [], False)}


a = module_vars("real * 8 x")
b = module_vars("character * 10 c")
c = module_vars("real*8 x", "character*10 c")
print("real * 8 x        ->", repr(a) if isinstance(a, BaseException) else {n: show(v) for n, v in a.items()})
print("character * 10 c  ->", repr(b) if isinstance(b, BaseException) else {n: show(v) for n, v in b.items()})
print("without the blank ->", {n: show(v) for n, v in c.items()})
ok = (not isinstance(a, BaseException)) and "x" in a and a["x"].kind == "8" and "c" in b and b["c"].strlen == "10"
sys.exit(0 if ok else 1)
