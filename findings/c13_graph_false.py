"""C13 finding: `graph: false` removes an entity's own graphs but not its node from project-wide graphs.
Module b opts out, module c uses b: b is still drawn in the project-wide module graph (as a neighbour
of c, created on demand), without its own edge to a."""
from findings.c13_common import graphs_for

SRC = {"src/t.f90": "module a\nend module a\nmodule b\n!! graph: false\nuse a\nend module b\n"
                    "module c\nuse b\nend module c\n"}


def demonstrate(verbose=True):
    g = graphs_for(SRC)
    nodes, edges, _ = g["module~~graph~~ModuleGraph"]
    own = [k for k in g if k.startswith("module~~b~~")]
    if verbose:
        print("per-entity graphs of b:", own)
        print("project-wide module graph nodes:", nodes, "edges:", edges)
        print("expected: module~b absent (graph: false)")
    return "module~b" in nodes and not own


if __name__ == "__main__":
    print("defect present:", demonstrate())
