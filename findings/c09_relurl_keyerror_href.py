"""C09 finding `relurl-keyerror-href`: an unresolved [[ref]] in a type-bound procedure's docstring makes relative_url raise KeyError('href'); the run aborts.
Run with:  PYTHONPATH=/repo PATH=/venv/bin:$PATH /venv/bin/python /verif/findings/c09_relurl_keyerror_href.py
Exit status 1 while the defect is present, 0 once it is gone."""
import os, pathlib, re, shutil, subprocess, sys, tempfile

FILES = {'src/m.f90': 'module m\n  type :: t\n  contains\n    procedure, nopass :: b => p\n      !! see [[nosuch]] here\n  end type t\ncontains\n  subroutine p()\n  end subroutine p\nend module m\n'}
OPTIONS = {}

d = pathlib.Path(tempfile.mkdtemp())
try:
    for rel, text in FILES.items():
        (d / rel).parent.mkdir(parents=True, exist_ok=True)
        (d / rel).write_text(text)
    opts = {"project": "demo", "src_dir": "./src", "output_dir": "./doc", "preprocess": "false", "graph": "false"}
    opts.update(OPTIONS)
    (d / "proj.md").write_text("---\n" + "".join(f"{k}: {v}\n" for k, v in opts.items()) + "---\n\nDemo.\n")
    env = dict(os.environ, FORD_DEBUGGING="1")
    p = subprocess.run([sys.executable, "-m", "ford", "proj.md"], cwd=d, env=env, text=True,
                       stdout=subprocess.PIPE, stderr=subprocess.STDOUT)
    doc = d / "doc"
    print("exit status of ford:", p.returncode)
    print(p.stdout[-400:])
    sys.exit(1 if p.returncode != 0 and "'href'" in p.stdout else 0)
finally:
    shutil.rmtree(d)
