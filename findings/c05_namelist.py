"""C05 finding (namelist-never-filtered): namelists are gathered at parse time and never filtered.
display: public, default-private module: the namelist of a private procedure gets a page of its own, which
shows the documentation of the procedure's (hidden) local variables; the module-level namelist is listed too.
Run with PYTHONPATH=/repo:/verif.  Exit status 1 while the defect is present."""
import sys
from findings.c05_common import site, where

SRC = """module m
  !! module text
  private
  integer :: hidden_v
    !! HIDDENVAR
  namelist /modnl/ hidden_v
contains
  subroutine helper()
    !! HELPERDOC
    integer :: local_v
      !! LOCALVAR
    namelist /innernl/ local_v
  end subroutine helper
end module m
"""
pages = site(SRC, display=["public"])
res = {w: where(pages, w) for w in ("HELPERDOC", "HIDDENVAR", "LOCALVAR")}
for k, v in res.items():
    print(k, v)
print("namelist pages:", sorted(p for p in pages if p.startswith("namelist/")))
sys.exit(0 if not (res["HIDDENVAR"] or res["LOCALVAR"]) else 1)
