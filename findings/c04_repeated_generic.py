"""C04 finding (repeated-identifier): an access statement reaches only the first entity of a name.
Two `interface gen` blocks are one generic identifier in Fortran; `public :: gen` makes it public.
FORD: the first block public, the second private (attr_dict['gen'] is deleted after the first match).
Run with PYTHONPATH=/repo:/verif.  Exit status 1 while the defect is present."""
import sys
from findings.c04_common import permissions

SRC = """module m
  private
  public :: gen
  interface gen
    module procedure a
  end interface
  interface gen
    module procedure b
  end interface
contains
  subroutine a()
  end subroutine a
  subroutine b(x)
    integer :: x
  end subroutine b
end module m
"""
perms, *_ = permissions(SRC)
for row in perms:
    print(row)
gens = [p for k, n, p in perms if n == "gen"]
sys.exit(0 if gens == ["public", "public"] else 1)
