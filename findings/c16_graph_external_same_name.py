"""C16 finding: two different procedures of the external project A that have the same own name (`total` of m1 and
`total` of m2, the second one used in B under another local name) become ONE node of B's call graph (ford/graphs.py
BaseNode: an external entity is turned into its hyperlink string and `self.ident = self.name`), so one of the two
links is lost.  Exit 1 while the defect is present.  Run with PYTHONPATH=/repo:/verif."""
import re
import sys
from findings.c16_common import Pair

A = """module m1
  !! module m1 of A
  implicit none
contains
  subroutine total(x)
    !! total of m1
    integer, intent(inout) :: x
    x = x + 1
  end subroutine total
end module m1

module m2
  !! module m2 of A
  implicit none
contains
  subroutine total(x)
    !! total of m2
    integer, intent(inout) :: x
    x = x + 2
  end subroutine total
end module m2
"""
B = """module mb
  !! module of B
  use m1, only: total
  use m2, only: t2 => total
  implicit none
contains
  subroutine go(x)
    !! calls both
    integer, intent(inout) :: x
    call total(x)
    call t2(x)
  end subroutine go
end module mb
"""
p = Pair(a_src=A)
try:
    err, _ = p.build_A()
    assert err is None, err
    err, log = p.build_B(B, "../A/doc", graph=True)
    assert err is None, err
    page = (p.root / "B" / "doc" / "proc" / "go.html").read_text()
    graph = sorted(set(re.findall(r'xlink:href="([^"]*A/doc/proc/[^"]*)"', page)))
    other = sorted(set(re.findall(r"""(?<!xlink:)href=["']([^"']*A/doc/proc/[^"']*)["']""", page)))
    print("call-graph links of go into A:", [g.rsplit("/", 1)[-1] for g in graph])
    print("other links of go's page into A's procedures:", other)
    both = {g.rsplit("/", 1)[-1] for g in graph} >= {"total.html", "total~2.html"}
    sys.exit(0 if both else 1)
finally:
    p.close()
