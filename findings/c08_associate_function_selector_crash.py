"""C08 finding: FORD aborts with AttributeError ('FortranFunction' object has no attribute 'all_types') on valid code: in a function, `associate (a => mk(1))` followed by `call.
Run with PYTHONPATH=/repo:/verif.  Exit status 1 while the defect is present."""
from findings.c08_common import main

main("associate-function-selector-crash")
