"""C19 (repaired defect, kept as a regression demonstration; exit code 1 = the defect is back):
a page's `copy_subdir` entry containing '..' is joined to <output_dir>/page/<location>
without any check (ford/output.py PagetreePage.writeout: copytree(from_path / item, to_path / item)),
so a run creates files outside the output directory.

Layout:  <tmp>/shared/data/f.txt      a directory next to the project
         <tmp>/proj/pages/index.md    with  copy_subdir: ../../shared
         <tmp>/proj/proj.md           output_dir: ./doc
Observed before the repair: <tmp>/proj/shared/data/f.txt is created (outside <tmp>/proj/doc).
Expected: nothing outside <tmp>/proj/doc changes.
Exit code 1 while the defect is present.  Run with PYTHONPATH=/repo (python -m ford must work)."""
import os, pathlib, shutil, subprocess, sys, tempfile

d = pathlib.Path(tempfile.mkdtemp())
try:
    (d / "proj/src").mkdir(parents=True)
    (d / "proj/pages").mkdir()
    (d / "shared/data").mkdir(parents=True)
    (d / "shared/data/f.txt").write_text("data\n")
    (d / "proj/src/m.f90").write_text("module m\nend module\n")
    (d / "proj/pages/index.md").write_text("---\ntitle: Pages\ncopy_subdir: ../../shared\n---\nhello\n")
    (d / "proj/proj.md").write_text("---\nproject: t\nsrc_dir: ./src\noutput_dir: ./doc\npage_dir: ./pages\n"
                                    "preprocess: false\ngraph: false\nsearch: false\n---\nhi\n")
    before = {p.relative_to(d) for p in d.rglob("*")}
    env = dict(os.environ, FORD_DEBUGGING="1")
    r = subprocess.run([sys.executable, "-m", "ford", "proj.md"], cwd=d / "proj", env=env,
                       stdout=subprocess.PIPE, stderr=subprocess.STDOUT, text=True)
    after = {p.relative_to(d) for p in d.rglob("*")}
    outside = sorted(str(p) for p in after - before if not str(p).startswith("proj/doc"))
    print("exit code of ford:", r.returncode)
    print("created outside proj/doc:", outside)
    sys.exit(1 if outside else 0)
finally:
    shutil.rmtree(d)
