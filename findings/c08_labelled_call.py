"""C08 finding: a CALL statement with a statement label and no argument list is not recorded: `10 call sub0` matches neither SUBCALL_RE (anchored at the start) nor CALL_RE (no .
Run with PYTHONPATH=/repo:/verif.  Exit status 1 while the defect is present."""
from findings.c08_common import main

main("labelled-call-without-arguments")
