"""C05 finding (common-never-filtered): prune() never filters common blocks.
`display: none` in a module's metadata ("nothing contained within this item should have its documentation
displayed") hides the module variable but not the common block; likewise proc_internals: false.
Run with PYTHONPATH=/repo:/verif.  Exit status 1 while the defect is present."""
import sys
from findings.c05_common import site, where

SRC = """module m
  !! display: none
  !! module text
  integer :: v
    !! MODVAR
  common /blk/ cx, cy
    !! COMMONDOC
contains
  subroutine api()
    !! proc_internals: false
    !! api text
    integer :: local_v
      !! LOCALVAR
    common /blk2/ dx
      !! INNERCOMMON
  end subroutine api
end module m
"""
pages = site(SRC, display=["public", "private", "protected"])
res = {w: where(pages, w) for w in ("MODVAR", "LOCALVAR", "COMMONDOC", "INNERCOMMON")}
for k, v in res.items():
    print(k, v)
sys.exit(0 if not (res["COMMONDOC"] or res["INNERCOMMON"]) else 1)
