"""C07 finding: a procedure contained in a scope does not shadow a same-named procedure of the host.
Inside subroutine a, `helper` is a's own internal procedure; FORD resolves procedure(helper) (and
calls) to the module's helper, because FortranCodeUnit.correlate updates the scope's all_procs WITH
the parent's.  Run with PYTHONPATH=/repo.  Exit status 1 while the defect is present."""
import os, sys, tempfile, pathlib, shutil
os.environ["FORD_DEBUGGING"] = "1"
import ford.sourceform as sf
from ford.fortran_project import Project
from ford.settings import ProjectSettings

SRC = """module m
contains
  subroutine helper()
  end subroutine helper
  subroutine a()
    procedure(helper), pointer :: p
    call helper()
  contains
    subroutine helper()
    end subroutine helper
  end subroutine a
end module m
"""
d = pathlib.Path(tempfile.mkdtemp())
try:
    (d / "src").mkdir()
    (d / "src" / "m.f90").write_text(SRC)
    sf.namelist = sf.NameSelector()
    p = Project(ProjectSettings(src_dir=[d / "src"], preprocess=False, dbg=True, proc_internals=True))
    m = p.modules[0]
    a = [x for x in m.subroutines if x.name == "a"][0]
    inner = a.subroutines[0]
    p.correlate()
    v = a.variables[0].proto[0]
    call = a.calls[0]
    print("procedure(helper) ->", "internal helper of a" if v is inner else f"{v.parent.name}.{v.name}")
    print("call helper()     ->", "internal helper of a" if call is inner else f"{call.parent.name}.{call.name}")
    sys.exit(0 if v is inner and call is inner else 1)
finally:
    shutil.rmtree(d)
