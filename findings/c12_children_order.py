"""C12 finding, FIXED by c3c7c8e (`for c in sorted(node.children)`); on a tree with the fix demonstrate()
returns False (regression demo).  Before the fix: the 'inherited by' graph of a type with several extensions changes with PYTHONHASHSEED.
InheritedByGraph.add_node iterates `node.children` - a set of graph nodes hashed by hash(ident) - without
sorting; every other neighbour collection in ford/graphs.py is walked with sorted(...).
Expected: the same <svg> for every seed.   Patch: `for c in sorted(node.children):`"""
from findings.c12_common import runs, explain

SRC = {"src/a.f90": "module ma\n  type :: base\n    integer :: i\n  end type\n"
                    + "".join(f"  type, extends(base) :: c{k}\n    integer :: j{k}\n  end type\n" for k in range(1, 5))
                    + "end module ma\n"}


def demonstrate(verbose=True):
    seeds = list(range(1, 6))
    if verbose:
        print("graph: true, PYTHONHASHSEED =", seeds)
    needed, clean = explain(runs(SRC, {"graph": "true"}, seeds), [], verbose)
    return not clean


if __name__ == "__main__":
    print("defect present:", demonstrate())
