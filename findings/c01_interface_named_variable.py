"""C01 finding interface-named-variable-assignment: INTERFACE_RE accepts ANY text behind the keyword as the
generic name, so the assignment `interface = 3` (a variable named interface) opens an interface block that is
never closed: the file is rejected.  Run with PYTHONPATH=/repo.  Exit 1 while the defect is present."""
import contextlib, io, os, shutil, sys, tempfile
os.environ["FORD_DEBUGGING"] = "1"
import ford.sourceform as sf
from ford.settings import ProjectSettings


def parse(text, **kw):
    """ford.sourceform.FortranSourceFile on a scratch file; returns the file object or the exception"""
    d = tempfile.mkdtemp(prefix="c01demo_")
    try:
        p = os.path.join(d, "t.f90")
        with open(p, "w") as fh:
            fh.write(text)
        sf.namelist = sf.NameSelector()
        out = io.StringIO()
        with contextlib.redirect_stdout(out):
            try:
                return sf.FortranSourceFile(p, ProjectSettings(preprocess=False, dbg=True, **kw), None, False), out.getvalue()
            except BaseException as e:  # noqa
                return e, out.getvalue()
    finally:
        shutil.rmtree(d)

text = """subroutine s
 integer :: interface
 interface = 3
end subroutine s
"""
f, log = parse(text)
print("result:", repr(f) if isinstance(f, BaseException) else [p.name for p in f.subroutines])
sys.exit(1 if isinstance(f, BaseException) else 0)
