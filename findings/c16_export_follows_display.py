"""C16 finding: modules.json follows A's `display`.  With `display: private` the public procedure `solve` is
exported with the URL of a page A never wrote (repaired: it is left out); with `display: public private protected` the private procedure
`hidden` is listed.  Exit 1 while the defect is present.  Run with PYTHONPATH=/repo:/verif."""
import json
import sys
from findings.c16_common import Pair

bad = 0
p = Pair(a_extra=["display: private"])
try:
    err, _ = p.build_A()
    assert err is None, err
    m = json.loads((p.root / "A" / "doc" / "modules.json").read_text())["modules"][0]
    if "solve" in m["pub_procs"]:
        url = m["pub_procs"]["solve"]["external_url"]
        exists = (p.root / "A" / "doc" / url).is_file()
        print("display: private -> solve exported as", url, "page written:", exists)
        bad += not exists
    else:
        print("display: private -> solve is not exported (dead-link half repaired)")
finally:
    p.close()
p = Pair(a_extra=["display: public", "    private", "    protected"])
try:
    err, _ = p.build_A()
    assert err is None, err
    m = json.loads((p.root / "A" / "doc" / "modules.json").read_text())["modules"][0]
    listed = [x["name"] for x in m["subroutines"]]
    print("display: public private protected -> subroutines listed:", listed)
    bad += "hidden" in listed
finally:
    p.close()
sys.exit(1 if bad else 0)
