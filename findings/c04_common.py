"""shared by the C04 demonstrations: parse one module with FORD and list entity.permission"""
import os, pathlib, shutil, tempfile
os.environ["FORD_DEBUGGING"] = "1"
import ford.sourceform as sf
from ford.fortran_project import Project
from ford.settings import ProjectSettings


def permissions(source):
    d = pathlib.Path(tempfile.mkdtemp())
    try:
        (d / "src").mkdir()
        (d / "src" / "m.f90").write_text(source)
        sf.namelist = sf.NameSelector()
        st = ProjectSettings(src_dir=[d / "src"], preprocess=False, dbg=True,
                             display=["public", "private", "protected"])
        st.fpp_extensions = []
        p = Project(st)
        p.correlate()
        m = p.modules[0]
        out = []
        for attr in ("functions", "subroutines", "types", "interfaces", "absinterfaces", "variables"):
            for e in getattr(m, attr):
                out.append((attr, e.name, e.permission))
        return out, sorted(m.pub_vars), sorted(m.pub_types), sorted(m.pub_procs)
    finally:
        shutil.rmtree(d)
