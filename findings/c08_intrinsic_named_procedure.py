"""C08 finding: a user procedure whose name is in ford.intrinsics.INTRINSICS (wait, system, flush, rank, time, exit, ... - 453 names, many of them legitimate user names) is nev.
Run with PYTHONPATH=/repo:/verif.  Exit status 1 while the defect is present."""
from findings.c08_common import main

main("intrinsic-named-procedure")
