"""C05 finding (interface-doc-place): with hide_undoc, an abstract (or nameless) interface block is kept only when
the comment follows the `interface` line; the usual place — after the procedure statement inside the block — does
not count, so a documented abstract interface disappears (no page, not listed).
Run with PYTHONPATH=/repo:/verif.  Exit status 1 while the defect is present."""
import sys
from findings.c05_common import site, where

SRC = """module m
  !! module text
  abstract interface
    subroutine callback(x)
      !! CALLBACKDOC
      integer, intent(in) :: x
    end subroutine callback
  end interface
  abstract interface
    !! BLOCKDOC
    subroutine other(x)
      integer, intent(in) :: x
    end subroutine other
  end interface
end module m
"""
pages = site(SRC, display=["public"], hide_undoc=True)
res = {w: where(pages, w) for w in ("CALLBACKDOC", "BLOCKDOC")}
for k, v in res.items():
    print(k, v)
print("interface pages:", sorted(p for p in pages if p.startswith("interface/")))
sys.exit(0 if res["CALLBACKDOC"] else 1)
