"""C04 finding (late-default): a PRIVATE statement after a declaration is ignored for it.
Fortran: the PRIVATE statement sets the default of the whole module wherever it stands, so x, t and g
are private.  FORD: public, and exported to users of the module.  Run with PYTHONPATH=/repo:/verif.
Exit status 1 while the defect is present."""
import sys
from findings.c04_common import permissions

SRC = """module m
  integer :: x
  type t
    integer :: c
  end type t
  interface g
    module procedure s
  end interface g
  private
  integer :: z
contains
  subroutine s()
  end subroutine s
end module m
"""
perms, pub_vars, pub_types, pub_procs = permissions(SRC)
for row in perms:
    print(row)
print("exported variables:", pub_vars, "types:", pub_types, "procedures:", pub_procs)
got = {n: p for _, n, p in perms}
sys.exit(0 if (got["x"], got["t"], got["g"], got["z"]) == ("private",) * 4 else 1)
