"""C09 finding `file-ref-without-incl-src`: [[m.f90]] is linked to sourcefile/m.f90.html although incl_src is false and no such page is written.
Run with:  PYTHONPATH=/repo PATH=/venv/bin:$PATH /venv/bin/python /verif/findings/c09_file_ref_without_incl_src.py
Exit status 1 while the defect is present, 0 once it is gone."""
import os, pathlib, re, shutil, subprocess, sys, tempfile

FILES = {'src/m.f90': 'module m\n  !! see [[m.f90]] here\nend module m\n'}
OPTIONS = {'incl_src': 'false'}

d = pathlib.Path(tempfile.mkdtemp())
try:
    for rel, text in FILES.items():
        (d / rel).parent.mkdir(parents=True, exist_ok=True)
        (d / rel).write_text(text)
    opts = {"project": "demo", "src_dir": "./src", "output_dir": "./doc", "preprocess": "false", "graph": "false"}
    opts.update(OPTIONS)
    (d / "proj.md").write_text("---\n" + "".join(f"{k}: {v}\n" for k, v in opts.items()) + "---\n\nDemo.\n")
    env = dict(os.environ, FORD_DEBUGGING="1")
    p = subprocess.run([sys.executable, "-m", "ford", "proj.md"], cwd=d, env=env, text=True,
                       stdout=subprocess.PIPE, stderr=subprocess.STDOUT)
    doc = d / "doc"
    html = (doc / "module" / "m.html").read_text()
    links = re.findall(r'href="(\.\./sourcefile/[^"]*)"', html)
    exists = (doc / "sourcefile" / "m.f90.html").exists()
    print("module/m.html links:", links, "| sourcefile/m.f90.html exists:", exists)
    sys.exit(1 if links and not exists else 0)
finally:
    shutil.rmtree(d)
