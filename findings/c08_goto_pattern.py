"""C08 finding: ARITH_GOTO_RE is searched anywhere in the statement and the statement is then skipped entirely: `call mygoto(1, 2)` (a procedure whose name ends in 'goto', inte.
Run with PYTHONPATH=/repo:/verif.  Exit status 1 while the defect is present."""
from findings.c08_common import main

main("goto-pattern-unanchored")
