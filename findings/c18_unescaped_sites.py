"""C18 findings: declaration text printed without escaping, one line per template site (keys of Gen/EscapeSites.v).
Run with:  PYTHONPATH=/repo PATH=/venv/bin:$PATH /venv/bin/python /verif/findings/c18_unescaped_sites.py
Exit status 1 while at least one of the listed defects is present, 0 once all are gone."""
import os, pathlib, re, shutil, subprocess, sys, tempfile
from bs4 import BeautifulSoup

SRC = 'module m\n  implicit none\n  integer, parameter :: k = 1, n = 2\n  integer :: arr(merge(2,3,k<n))\n  integer, dimension(merge(2,3,k<n)) :: arr2\n  integer(kind=kind(k<n)) :: kk\n  character(len=2*k) :: cstar\n  character(len=len(\'<u>\')) :: clen\n  character(len=5) :: p3\n  parameter (p3 = \'<b>y\')\n  integer, bind(c, name="a<b>c") :: bv\n  integer :: nv = 1\n  character(len=9) :: nlc = \'<u>x</u>\'\n  character(len=*), parameter :: lit1 = \'<u>x</u>\' // "a  b & c"\n  type :: t_t\n    integer :: c = 0\n  contains\n    procedure, nopass :: tb => f\n    procedure, nopass :: tb2 => s\n  end type t_t\n  interface\n    function g1(a) result(res)\n      integer, intent(in) :: a\n      import :: k, n\n      integer(kind=kind(k<n)) :: res\n    end function g1\n    function g2(a) result(res)\n      integer, intent(in) :: a\n      import :: k, n\n      character(kind(k<n)) :: res\n    end function g2\n    function g3(a) result(res)\n      integer, intent(in) :: a\n      import :: k, n\n      integer, dimension(merge(2,3,k<n)) :: res\n    end function g3\n    function g4(a) result(res)\n      integer, intent(in) :: a\n      import :: k, n\n      integer :: res(merge(2,3,k<n))\n    end function g4\n    function g5(a) result(res)\n      integer, intent(in) :: a\n      import :: k, n\n      type(t_t(k<n)) :: res\n    end function g5\n    function g6(a) result(res)\n      integer, intent(in) :: a\n      type(t_t(4)) :: res\n    end function g6\n  end interface\ncontains\n  subroutine s(a) bind(c, name="s<u>name")\n    integer, intent(in) :: a\n    namelist /nl/ kk, nv, nlc\n  end subroutine s\n  subroutine s2(a) bind(c, name="two  blanks")\n    integer, intent(in) :: a\n  end subroutine s2\n  function f(x) result(r)\n    integer, intent(in) :: x\n    integer(kind=kind(k<n)) :: r\n    r = x\n  end function f\nend module m\n'

NBSP = "\xa0"
def text(el):
    return re.sub(r"[ \t\n\r\f]+", " ", el.get_text()).strip().replace(NBSP, " ")
def squash(t):
    out, q = [], None
    for c in t:
        if q is None:
            if c in "'\"": q = c; out.append(c)
            elif c != " ": out.append(c)
        else:
            out.append(c)
            if c == q: q = None
    return "".join(out)

d = pathlib.Path(tempfile.mkdtemp())
try:
    (d / "src").mkdir()
    (d / "src" / "m.f90").write_text(SRC)
    (d / "proj.md").write_text("---\nproject: demo\nsrc_dir: ./src\noutput_dir: ./doc\npreprocess: false\ngraph: false\n"
                               "search: false\nproc_internals: true\ndisplay: public\n    private\n---\n\nDemo.\n")
    p = subprocess.run([sys.executable, "-m", "ford", "proj.md"], cwd=d, env=dict(os.environ, FORD_DEBUGGING="1"),
                       text=True, stdout=subprocess.PIPE, stderr=subprocess.STDOUT)
    if p.returncode != 0:
        print(p.stdout[-500:]); sys.exit(2)
    doc = d / "doc"
    def soup(rel):
        f = doc / rel
        return BeautifulSoup(f.read_text() if f.exists() else "", "html.parser")
    mod = soup("module/m.html")
    def row(name):
        for tr in mod.select("table.varlist tbody > tr"):
            st = tr.find("strong")
            if st and text(st) == name:
                return text(tr)
        return None
    def retval(rel):
        return [squash(text(h)) for h in soup(rel).find_all(["h3", "h4"]) if text(h).startswith("Return Value")]
    bad = []
    def check(label, source_text, shown, ok):
        print(("ok      " if ok else "DEFECT  ") + label + "\n          source: " + source_text + "\n          shown : " + str(shown))
        if not ok: bad.append(label)

    r = row("arr");  check("macros.html:var.dimension | e#1 (fixed fb9f8e7)", "arr(merge(2,3,k<n))", r, r is not None and "k<n" in r)
    r = row("arr2"); check("macros.html:var.attribs | join | e#1 (fixed fb9f8e7)", "dimension(merge(2,3,k<n))", r, r is not None and "k<n" in r)
    r = row("kk");   check("macros.html:var.full_type | relurl#1", "integer(kind=kind(k<n))", r, r is not None and "kind(k<n)" in squash(r))
    heads = [text(h) for h in mod.find_all(["h2", "h3"])]
    h = [x for x in heads if "subroutine s(" in x.replace(" (", "(")]
    check("macros.html:proc.bindC | e#1 (fixed fb9f8e7)", 'bind(c, name="s<u>name")', h, any('name="s<u>name"' in x for x in h))
    rv = retval("module/m.html"); check("macros.html:proc.retvar.full_declaration | relurl#1", "integer(kind=kind(k<n)) :: r", rv, any("integer(kind=kind(k<n))" in x for x in rv))
    rv = retval("type/t_t.html"); check("macros.html:proc.retvar.full_declaration | relurl#2 (type-bound summary)", "integer(kind=kind(k<n)) :: r", rv, any("integer(kind=kind(k<n))" in x for x in rv))
    th = [text(h) for h in soup("type/t_t.html").find_all(["h2", "h3", "h4"])]
    check("macros.html:proc.bindC | e#2 (type-bound summary, fixed fb9f8e7)", 'bind(c, name="s<u>name")', [x for x in th if "subroutine" in x], any('name="s<u>name"' in x for x in th))
    rv = retval("proc/f.html"); check("proc_page.html:procedure.retvar.full_declaration | relurl#1", "integer(kind=kind(k<n)) :: r", rv, any("integer(kind=kind(k<n))" in x for x in rv))
    for name, key, want in (("g1", "nongenint_page.html:var.kind | e#1 (fixed fb9f8e7)", "integer(kind=kind(k<n))"), ("g2", "nongenint_page.html:var.strlen | e#1 (fixed fb9f8e7)", "character(len=kind(k<n))"),
                            ("g3", "nongenint_page.html:attrib | e#1 (fixed fb9f8e7)", "dimension(merge(2,3,k<n))"), ("g4", "nongenint_page.html:var.dimension | e#1 (fixed fb9f8e7)", "(merge(2,3,k<n))"),
                            ("g5", "nongenint_page.html:var.proto[1] | e#1 (fixed fb9f8e7)", "k<n")):
        rv = retval(f"interface/{name}.html"); check(key, want, rv, any(want in x for x in rv))
    t = squash(text(soup("namelist/nl.html"))); check("macros.html:variable.full_type | relurl#1 (namelist page)", "integer(kind=kind(k<n)) :: kk", t[-160:], "integer(kind=kind(k<n))" in t)
    r = row("lit1"); check("(escaped site, for comparison) macros.html:var.initial|e#1", "'<u>x</u>' // \"a  b & c\"", r, r is not None and "'<u>x</u>'//\"a  b & c\"" in squash(r))
    sys.exit(1 if bad else 0)
finally:
    shutil.rmtree(d)
