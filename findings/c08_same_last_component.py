"""C08 finding: calls are de-duplicated on the last component of the chain before they are resolved: `call a%run()` and `call b%run()` on objects of two types record only the f.
Run with PYTHONPATH=/repo:/verif.  Exit status 1 while the defect is present."""
from findings.c08_common import main

main("same-last-component")
