"""C11 finding: a kind word on a [[reference]] skips the context.  In the documentation of module m's own
subroutine reset, [[reset]] links to m's reset but [[reset(proc)]] links to the top-level reset.
Exit 1 while the defect is present.  Run with PYTHONPATH=/repo:/verif."""
import os, sys, re
os.environ["FORD_DEBUGGING"] = "1"
from harness.impl import fordrun as F
from ford._markdown import MetaMarkdown

files = {"src/a.f90": "subroutine reset()\n  !! top-level reset\nend subroutine\n",
         "src/b.f90": "module m\ncontains\n  subroutine reset()\n    !! m's reset\n  end subroutine\nend module\n"}
with F.Work(files) as w:
    p = F.parse_project(w.root)
    md = MetaMarkdown(base_url=str(w.root / "doc"), project=p)
    ctx = p.modules[0].subroutines[0]
    with F.quiet():
        plain = md.reset().convert("[[reset]]", context=ctx)
        qualified = md.reset().convert("[[reset(proc)]]", context=ctx)
    print("own url:", ctx.get_url())
    print("[[reset]]       ->", plain)
    print("[[reset(proc)]] ->", qualified)
    href = lambda t: re.search(r'href="([^"]*)"', t).group(1)
    sys.exit(0 if href(plain) == href(qualified) else 1)
