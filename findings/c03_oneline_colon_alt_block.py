"""C03 finding (doc-oneline-colon-alt-block; repaired in /repo, kept as a regression demo): the four
documentation styles were not interchangeable for a
one-line comment that contains a colon.  read_metadata protects a ONE-line comment such as `Note: text`
(first part is no metadata key) from being parsed as metadata; in the following-block style

    integer :: x
      !* Note: alt one line
    <blank line, which the style needs to close the block>

the reader delivers TWO doc lines (' Note: alt one line', ''), the special case does not apply, the line is
dropped as an unknown metadata key and nothing is rendered.  With `!!`, `!>`, `!|` the comment is shown.
Run with PYTHONPATH=/repo:/verif.  Exit status 1 while the defect is present."""
import sys

from harness.impl.c03doc import run_doc_project

SRC = """module m
  implicit none
  integer :: x
    !* Note: alt one line

  integer :: y
    !! Note: plain one line
  !| Note: prealt one line
  integer :: z
  !> Note: pre one line
  integer :: w
end module m
"""
kind, out = run_doc_project({"src/a.f90": SRC})
assert kind == "ok", out
bad = False
for name in "xyzw":
    got = out[("variable", name, "m")]
    shown = "one line" in got["text"]
    print(name, "rendered:", repr(got["text"]), "" if shown else "   <-- comment lost")
    bad = bad or not shown
sys.exit(1 if bad else 0)
