"""C16 finding: a [[...]] reference to an entity of an external project given as a local path ends the run with
AttributeError ('PosixPath' object has no attribute 'startswith').  Exit 1 while the defect is present.
Run with PYTHONPATH=/repo:/verif."""
import sys
from findings.c16_common import Pair, B_PLAIN

p = Pair()
try:
    err, _ = p.build_A()
    assert err is None, err
    err, log = p.build_B(B_PLAIN.replace("!! module of B", "!! module of B, see [[ma]] and [[ma:solve]]"), "../A/doc")
    print("B with [[ma]] against a local external ->", err)
    sys.exit(0 if err is None else 1)
finally:
    p.close()
