"""Shared helpers of the C16 demonstrations: build two tiny projects with FORD in-process.
Run the demonstrations with PYTHONPATH=/repo:/verif (FORD_DEBUGGING=1 is set here)."""
import contextlib
import io
import os
import pathlib
import shutil
import sys
import tempfile

os.environ["FORD_DEBUGGING"] = "1"
os.environ["PATH"] = "/venv/bin:" + os.environ.get("PATH", "")

A_SRC = """module ma
  !! module ma of A
  implicit none
  private
  public :: solve, shape_t
  type :: shape_t
    !! a type of A
    integer :: side
  end type
contains
  subroutine solve(x)
    !! a public procedure of A
    integer, intent(inout) :: x
    x = x + 1
  end subroutine
  subroutine hidden(x)
    !! a private procedure of A
    integer, intent(inout) :: x
    x = 0
  end subroutine
end module ma
"""


def project_md(name, extra, graph=False):
    lines = ["---", f"project: {name}", "src_dir: ./src", "output_dir: ./doc", "preprocess: false",
             f"graph: {'true' if graph else 'false'}", "search: false"] + extra + ["---", "", "docs", ""]
    return "\n".join(lines)


def run_ford(root):
    """ford on <root>/proj.md in this process; returns (error text or None, log)"""
    import ford
    import ford.sourceform
    ford.sourceform.namelist = ford.sourceform.NameSelector()
    cwd = os.getcwd()
    os.chdir(root)
    buf = io.StringIO()
    err = None
    try:
        with contextlib.redirect_stdout(buf), contextlib.redirect_stderr(buf):
            try:
                text = pathlib.Path("proj.md").read_text()
                docs, settings = ford.load_settings(text, pathlib.Path(root), "proj.md")
                data, docs = ford.parse_arguments({"project_file": open("proj.md")}, docs, settings,
                                                  pathlib.Path(root))
                ford.main(data, docs)
            except SystemExit as e:
                err = f"SystemExit:{e.code}"
            except Exception as e:  # noqa
                err = f"{type(e).__name__}: {e}"
    finally:
        os.chdir(cwd)
    return err, buf.getvalue()


class Pair:
    def __init__(self, a_src=A_SRC, a_extra=()):
        self.root = pathlib.Path(tempfile.mkdtemp(prefix="c16_demo_"))
        (self.root / "A" / "src").mkdir(parents=True)
        (self.root / "B" / "src").mkdir(parents=True)
        (self.root / "A" / "src" / "a.f90").write_text(a_src)
        (self.root / "A" / "proj.md").write_text(project_md("A", ["externalize: true"] + list(a_extra)))

    def build_A(self):
        return run_ford(self.root / "A")

    def build_B(self, b_src, external, graph=False):
        (self.root / "B" / "src" / "b.f90").write_text(b_src)
        (self.root / "B" / "proj.md").write_text(project_md("B", [f"external: exta = {external}"], graph))
        return run_ford(self.root / "B")

    def close(self):
        shutil.rmtree(self.root, ignore_errors=True)


B_PLAIN = """module mb
  !! module of B
  use ma, only: solve
  implicit none
contains
  subroutine go(x)
    !! go
    integer, intent(inout) :: x
    call solve(x)
  end subroutine
end module mb
"""
