"""C09 finding `index-files-link`: with one source file the front page links lists/files.html, which is not written.
Run with:  PYTHONPATH=/repo PATH=/venv/bin:$PATH /venv/bin/python /verif/findings/c09_index_files_link.py
Exit status 1 while the defect is present, 0 once it is gone."""
import os, pathlib, re, shutil, subprocess, sys, tempfile

FILES = {'src/m.f90': 'module m\n  !! doc\nend module m\n'}
OPTIONS = {}

d = pathlib.Path(tempfile.mkdtemp())
try:
    for rel, text in FILES.items():
        (d / rel).parent.mkdir(parents=True, exist_ok=True)
        (d / rel).write_text(text)
    opts = {"project": "demo", "src_dir": "./src", "output_dir": "./doc", "preprocess": "false", "graph": "false"}
    opts.update(OPTIONS)
    (d / "proj.md").write_text("---\n" + "".join(f"{k}: {v}\n" for k, v in opts.items()) + "---\n\nDemo.\n")
    env = dict(os.environ, FORD_DEBUGGING="1")
    p = subprocess.run([sys.executable, "-m", "ford", "proj.md"], cwd=d, env=env, text=True,
                       stdout=subprocess.PIPE, stderr=subprocess.STDOUT)
    doc = d / "doc"
    html = (doc / "index.html").read_text()
    links = re.findall(r'href="([^"]*lists/files\.html)"', html)
    exists = (doc / "lists" / "files.html").exists()
    print("index.html links:", links, "| lists/files.html exists:", exists)
    sys.exit(1 if links and not exists else 0)
finally:
    shutil.rmtree(d)
