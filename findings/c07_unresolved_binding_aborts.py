"""C07 finding (HTML level): an unresolved type-bound procedure target aborts the run instead of
staying plain text.  `impl` comes from a module that is not part of the documented project.
Run with PYTHONPATH=/repo.  Exit status 1 while the defect is present."""
import os, sys, tempfile, pathlib, shutil, subprocess
d = pathlib.Path(tempfile.mkdtemp())
try:
    (d / "src").mkdir()
    (d / "src" / "m.f90").write_text("""module m
  use extlib, only: impl
  type :: t
  contains
    procedure, nopass :: run => impl
  end type t
end module m
""")
    (d / "p.md").write_text("---\nproject: x\nsrc_dir: ./src\noutput_dir: ./doc\npreprocess: false\ngraph: false\nsearch: false\n---\n")
    r = subprocess.run([sys.executable, "-m", "ford", "p.md"], cwd=d, capture_output=True, text=True,
                       env=dict(os.environ, FORD_DEBUGGING="1"))
    print("exit status of ford:", r.returncode)
    print((r.stdout + r.stderr).strip().splitlines()[-1])
    sys.exit(0 if r.returncode == 0 else 1)
finally:
    shutil.rmtree(d)
