"""C12 finding: an output directory given on the COMMAND LINE (-o / --output_dir) is not excluded from the search
for source files.  ProjectSettings.__post_init__ appends the project file's output_dir to exclude_dir; parse_arguments
replaces output_dir (or exclude_dir) afterwards, so with `src_dir: .` and `-o out2` whatever Fortran files an earlier
run (or another project) left in out2/ are parsed and documented: the output depends on the previous content of the
output directory.  Expected: the second run writes the same tree as the first.  Exit 1 if it differs."""
import sys
from findings.c12_common import runs  # noqa: F401  (sets up the environment)

SRC = {"main.f90": "module mine\n  integer :: v\n    !! doc of v\nend module mine\n"}
STALE = {"src/old.f90": "module zz_left_over\n  integer :: w\nend module zz_left_over\n"}


def demonstrate(verbose=True):
    from harness.impl import c12run as R, fordrun as F
    opts, cli = {"src_dir": ".", "incl_src": "false"}, ("-o", "out2")
    with F.Work(SRC) as w:
        trees = []
        for stale in (None, STALE):
            out = w.root / "out2"
            if stale:
                for rel, text in stale.items():
                    (out / rel).parent.mkdir(parents=True, exist_ok=True)
                    (out / rel).write_text(text)
            rc, log = F.full_run_subprocess(w.root, opts, extra_args=cli, env=R.run_env(1))
            trees.append((rc, R.read_tree(out)))
            if verbose:
                print(f"run with out2/ {'holding ' + str(sorted(stale)) if stale else 'as the first run left it'}: "
                      f"exit {rc}, {len(trees[-1][1])} files")
    cl = R.classify(trees[0][1], trees[1][1])
    if verbose:
        print("difference:", "none" if cl is None else cl[1][:2],
              "" if cl is None else sorted(set(trees[1][1]) - set(trees[0][1]))[:6])
    return cl is not None or trees[0][0] != trees[1][0]


if __name__ == "__main__":
    bad = demonstrate()
    print("defect present:", bad)
    sys.exit(1 if bad else 0)
