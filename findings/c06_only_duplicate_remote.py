"""C06 finding: `use ma, only: foo, bar => foo` makes the entity accessible as foo and as bar;
FORD keeps only the last local name given to a remote name.
Run with PYTHONPATH=/repo.  Exit status 1 while the defect is present."""
import os, sys, tempfile, pathlib, shutil
os.environ["FORD_DEBUGGING"] = "1"
import ford.sourceform as sf
from ford.fortran_project import Project
from ford.settings import ProjectSettings

MA = "module ma\n  integer :: foo\n  type :: ta1\n    integer :: c\n  end type\nend module ma\n"
MB = "module mb\n  use ma, only: foo, bar => foo\nend module mb\n"
MC = ""

d = pathlib.Path(tempfile.mkdtemp())
try:
    (d / "src").mkdir()
    (d / "src" / "ma.f90").write_text(MA)
    (d / "src" / "mb.f90").write_text(MB)
    if MC:
        (d / "src" / "mc.f90").write_text(MC)
    sf.namelist = sf.NameSelector()
    p = Project(ProjectSettings(src_dir=[d / "src"], preprocess=False, dbg=True))
    p.correlate()
    mods = {m.name: m for m in p.modules}
    for m in p.modules:
        print(m.name, "all_vars:", sorted(m.all_vars), "all_types:", sorted(m.all_types), "pub_vars:", sorted(m.pub_vars))
    v = sorted(mods["mb"].all_vars)
    print("expected [bar, foo], got", v)
    sys.exit(0 if v == ["bar", "foo"] else 1)
finally:
    shutil.rmtree(d)
