"""C09 finding `genint-sidebar-fragment`: the side bar of a generic interface page links #moduleprocedure-<name>, an id the page does not contain.
Run with:  PYTHONPATH=/repo PATH=/venv/bin:$PATH /venv/bin/python /verif/findings/c09_genint_sidebar_fragment.py
Exit status 1 while the defect is present, 0 once it is gone."""
import os, pathlib, re, shutil, subprocess, sys, tempfile

FILES = {'src/m.f90': 'module m\n  interface g\n    module procedure p, q\n  end interface g\ncontains\n  subroutine p(a)\n    integer :: a\n  end subroutine p\n  subroutine q(a)\n    real :: a\n  end subroutine q\nend module m\n'}
OPTIONS = {}

d = pathlib.Path(tempfile.mkdtemp())
try:
    for rel, text in FILES.items():
        (d / rel).parent.mkdir(parents=True, exist_ok=True)
        (d / rel).write_text(text)
    opts = {"project": "demo", "src_dir": "./src", "output_dir": "./doc", "preprocess": "false", "graph": "false"}
    opts.update(OPTIONS)
    (d / "proj.md").write_text("---\n" + "".join(f"{k}: {v}\n" for k, v in opts.items()) + "---\n\nDemo.\n")
    env = dict(os.environ, FORD_DEBUGGING="1")
    p = subprocess.run([sys.executable, "-m", "ford", "proj.md"], cwd=d, env=env, text=True,
                       stdout=subprocess.PIPE, stderr=subprocess.STDOUT)
    doc = d / "doc"
    html = (doc / "interface" / "g.html").read_text()
    frags = re.findall(r'href="\.\./interface/g\.html#([^"]*)"', html)
    ids = set(re.findall(r'id="([^"]*)"', html))
    missing = [f for f in frags if f not in ids]
    print("fragments linked:", frags, "| missing ids:", missing)
    sys.exit(1 if missing else 0)
finally:
    shutil.rmtree(d)
