"""C12 finding, FIXED by the Uses repair (/verif/scratch/c12fix_uses.patch: the list is rendered through the
filter sort_by_name; `uses` stays a set); on a tree with the repair demonstrate() returns False (regression demo).
Before the repair: the "Uses" list of an entity that uses two or more modules changes from run to run even with
PYTHONHASHSEED fixed.  FortranCodeUnit.correlate ends with `self.uses = set([m[0] for m in self.uses])`: a set
of module objects, hashed by id(); the templates walk it.
Expected: the same order in every run (source order).
Patch: `self.uses = list(dict.fromkeys(m[0] for m in self.uses))`."""
from findings.c12_common import runs, explain

SRC = {"src/a.f90": "module ma\nend module ma\n", "src/b.f90": "module mb\nend module mb\n",
       "src/d.f90": "module md\nend module md\n",
       "src/c.f90": "module mc\n  use ma\n  use mb\n  use md\nend module mc\n"}


def demonstrate(verbose=True):
    if verbose:
        print("eight runs, all with PYTHONHASHSEED=3, same directory")
    needed, clean = explain(runs(SRC, {}, [3] * 8), [], verbose)
    return not clean


if __name__ == "__main__":
    print("defect present:", demonstrate())
