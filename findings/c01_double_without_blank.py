"""C01 finding double-without-blank: doubleprecision / doublecomplex and every typed function prefix.
Run with PYTHONPATH=/repo.  Exit 1 while the defect is present."""
import contextlib, io, os, shutil, sys, tempfile
os.environ["FORD_DEBUGGING"] = "1"
import ford.sourceform as sf
from ford.settings import ProjectSettings


def parse(text):
    """ford.sourceform.FortranSourceFile on a scratch file; returns the file object or the exception"""
    d = tempfile.mkdtemp(prefix="c01demo_")
    try:
        p = os.path.join(d, "t.f90")
        with open(p, "w") as fh:
            fh.write(text)
        sf.namelist = sf.NameSelector()
        with contextlib.redirect_stdout(io.StringIO()):
            try:
                return sf.FortranSourceFile(p, ProjectSettings(preprocess=False, dbg=True), None, False)
            except BaseException as e:  # noqa
                return e
    finally:
        shutil.rmtree(d)


def module_vars(*lines):
    f = parse("module m\n" + "".join(l + "\n" for l in lines) + "end module m\n")
    return f if isinstance(f, BaseException) else {v.name: v for v in f.modules[0].variables}


def show(v):
    return {k: getattr(v, k) for k in ("vartype", "kind", "strlen", "attribs", "intent", "optional", "parameter",
                                       "initial", "dimension") if getattr(v, k) not in (None, "", [], False)}


vs = module_vars("doubleprecision x", "double precision y", "doublecomplex z", "double complex w")
for n, v in vs.items():
    print(n, show(v))
f = parse("double precision function f()\nend function\nfunction g()\ndouble precision g\nend function\n")
print("prefix  :", f.functions[0].retvar.vartype, "| in body:", f.functions[1].retvar.vartype)
ok = vs["x"].vartype == vs["y"].vartype and vs["z"].vartype == vs["w"].vartype and     f.functions[0].retvar.vartype == f.functions[1].retvar.vartype
sys.exit(0 if ok else 1)
