"""C08 finding: an ASSOCIATE name bound to an expression is replaced by the expression's text when it heads a reference: `associate (tmp => arr(1:3) + 1)` ... `i = tmp(2)` reco.
Run with PYTHONPATH=/repo:/verif.  Exit status 1 while the defect is present."""
from findings.c08_common import main

main("associate-expression-selector")
