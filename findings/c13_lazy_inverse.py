"""C13 finding: a "called by" graph misses callers whose node does not exist yet when the graph is built.
Graph nodes are created lazily; per-entity graphs are built before the project-wide call graph creates the
nodes of visible internal procedures and of non-trivial type-bound procedures.  Here the generic binding
t0%g resolves to p0 and p1 (the call graph draws g -> p0, g -> p1) but the "called by" graph of p0 is empty."""
from findings.c13_common import graphs_for

SRC = {"src/t.f90": "module m\ntype :: t0\ncontains\nprocedure :: b0 => p0\nprocedure :: b1 => p1\n"
                    "generic :: g => b0, b1\nend type\ncontains\nsubroutine p0(this)\nclass(t0) :: this\n"
                    "end subroutine\nsubroutine p1(this)\nclass(t0) :: this\nend subroutine\nend module m\n"}
SRC2 = {"src/t.f90": "module m\ncontains\nsubroutine q\nend subroutine\nsubroutine host\n!! proc_internals: true\n"
                     "contains\n  subroutine inner\n    call q\n  end subroutine\nend subroutine\nend module m\n"}


def demonstrate(verbose=True):
    g = graphs_for(SRC)
    _, call_edges, _ = g["call~~graph~~CallGraph"]
    by_nodes, by_edges, _ = g["proc~~p0~~CalledByGraph"]
    g2 = graphs_for(SRC2)
    _, call_edges2, _ = g2["call~~graph~~CallGraph"]
    by_nodes2, by_edges2, _ = g2["proc~~q~~CalledByGraph"]
    if verbose:
        print("call graph edges:", call_edges)
        print("called-by graph of p0: nodes", by_nodes, "edges", by_edges)
        print("expected: none~g -> proc~p0 also in the called-by graph of p0")
        print("call graph edges (internal procedure):", call_edges2)
        print("called-by graph of q: nodes", by_nodes2, "edges", by_edges2)
    a = ("none~g", "proc~p0") in call_edges and ("none~g", "proc~p0") not in by_edges
    b = ("none~inner", "proc~q") in call_edges2 and ("none~inner", "proc~q") not in by_edges2
    return a or b


if __name__ == "__main__":
    print("defect present:", demonstrate())
