"""C01 finding program-statement-inside-unit: a PROGRAM statement inside another unit is reported ("Unexpected
PROGRAM") and then `len(self.programs)` is evaluated on an object without that list: with dbg or force set (which
ask FORD to go on after the diagnostic) the run dies with AttributeError instead.
Run with PYTHONPATH=/repo.  Exit 1 while the defect is present."""
import contextlib, io, os, shutil, sys, tempfile
os.environ["FORD_DEBUGGING"] = "1"
import ford.sourceform as sf
from ford.settings import ProjectSettings


def parse(text, **kw):
    """ford.sourceform.FortranSourceFile on a scratch file; returns the file object or the exception"""
    d = tempfile.mkdtemp(prefix="c01demo_")
    try:
        p = os.path.join(d, "t.f90")
        with open(p, "w") as fh:
            fh.write(text)
        sf.namelist = sf.NameSelector()
        out = io.StringIO()
        with contextlib.redirect_stdout(out):
            try:
                return sf.FortranSourceFile(p, ProjectSettings(preprocess=False, dbg=True, **kw), None, False), out.getvalue()
            except BaseException as e:  # noqa
                return e, out.getvalue()
    finally:
        shutil.rmtree(d)

text = """module m
 program p
end module m
"""
f, log = parse(text, force=True)
print("result:", repr(f) if isinstance(f, BaseException) else "parsed", "|", log.strip()[:120])
sys.exit(1 if isinstance(f, AttributeError) else 0)
