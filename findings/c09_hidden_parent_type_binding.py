"""C09 finding `hidden-parent-type-binding`: a public type extending a private type links the inherited bindings into the hidden parent's page.
Run with:  PYTHONPATH=/repo PATH=/venv/bin:$PATH /venv/bin/python /verif/findings/c09_hidden_parent_type_binding.py
Exit status 1 while the defect is present, 0 once it is gone."""
import os, pathlib, re, shutil, subprocess, sys, tempfile

FILES = {'src/m.f90': 'module m\n  type, private :: a_t\n  contains\n    procedure, nopass :: b => p\n  end type a_t\n  type, public, extends(a_t) :: b_t\n  end type b_t\ncontains\n  subroutine p()\n  end subroutine p\nend module m\n'}
OPTIONS = {'display': 'public'}

d = pathlib.Path(tempfile.mkdtemp())
try:
    for rel, text in FILES.items():
        (d / rel).parent.mkdir(parents=True, exist_ok=True)
        (d / rel).write_text(text)
    opts = {"project": "demo", "src_dir": "./src", "output_dir": "./doc", "preprocess": "false", "graph": "false"}
    opts.update(OPTIONS)
    (d / "proj.md").write_text("---\n" + "".join(f"{k}: {v}\n" for k, v in opts.items()) + "---\n\nDemo.\n")
    env = dict(os.environ, FORD_DEBUGGING="1")
    p = subprocess.run([sys.executable, "-m", "ford", "proj.md"], cwd=d, env=env, text=True,
                       stdout=subprocess.PIPE, stderr=subprocess.STDOUT)
    doc = d / "doc"
    html = (doc / "module" / "m.html").read_text()
    links = re.findall(r"href=['\"](\.\./type/a_t\.html[^'\"]*)['\"]", html)
    exists = (doc / "type" / "a_t.html").exists()
    print("module/m.html links:", links, "| type/a_t.html exists:", exists)
    sys.exit(1 if links and not exists else 0)
finally:
    shutil.rmtree(d)
