"""C13 finding: the interface -> implementation arrow is missing when the implementation in the submodule is
written `module procedure name ... end procedure` (ProcNode tests isinstance(obj.procedure.module,
(str, FortranProcedure)); FortranModuleProcedureImplementation is not a FortranProcedure).  The same
interface implemented as `module subroutine name` gets the dashed arrow."""
from findings.c13_common import graphs_for

MOD = ("module m\ninterface\nmodule subroutine sp()\nend subroutine sp\nend interface\nend module m\n"
       "submodule (m) s\ncontains\n%s\nend submodule s\n")
A = MOD % "module procedure sp\nend procedure sp"
B = MOD % "module subroutine sp()\nend subroutine sp"


def demonstrate(verbose=True):
    ga = graphs_for({"src/t.f90": A}, display=["public", "private", "protected"])
    gb = graphs_for({"src/t.f90": B}, display=["public", "private", "protected"])
    ea = ga["call~~graph~~CallGraph"][1]
    eb = gb["call~~graph~~CallGraph"][1]
    if verbose:
        print("`module procedure sp`  : call graph edges", ea)
        print("`module subroutine sp` : call graph edges", eb)
        print("expected: interface~sp -> proc~sp in both")
    return ("interface~sp", "proc~sp") in eb and ("interface~sp", "proc~sp") not in ea


if __name__ == "__main__":
    print("defect present:", demonstrate())
