"""C08 finding: an array FORD has no declaration for is recorded as a called procedure: `dimension w(10)` / `common /blk/ z(5)` arrays (implicit typing), arrays declared inside.
Run with PYTHONPATH=/repo:/verif.  Exit status 1 while the defect is present."""
from findings.c08_common import main

main("unresolved-array")
