"""C08 finding: a declaration inside a BLOCK construct is scanned for calls and its arrays are unknown afterwards: `block.
Run with PYTHONPATH=/repo:/verif.  Exit status 1 while the defect is present."""
from findings.c08_common import main

main("block-local-array")
