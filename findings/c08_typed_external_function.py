"""C08 finding: an external function whose result type is declared without the EXTERNAL attribute (`integer :: ef` ... `i = ef(3)`) is taken for a variable and the call is drop.
Run with PYTHONPATH=/repo:/verif.  Exit status 1 while the defect is present."""
from findings.c08_common import main

main("typed-external-function")
