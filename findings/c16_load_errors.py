"""C16 finding: a missing / wrong-shape / undecodable modules.json, or an absolute local path, ends the run
of B instead of costing only the links.   usage: c16_load_errors.py missing|shape|absolute|undecodable
Exit 1 while the defect is present.  Run with PYTHONPATH=/repo:/verif."""
import sys
from findings.c16_common import Pair, B_PLAIN

which = sys.argv[1] if len(sys.argv) > 1 else "missing"
p = Pair()
try:
    err, _ = p.build_A()
    assert err is None, err
    mj = p.root / "A" / "doc" / "modules.json"
    external = "../A/doc"
    if which == "missing":
        mj.unlink()
    elif which == "shape":
        mj.write_text('{"ford-metadata": {"version": "x"}}')
    elif which == "undecodable":
        mj.write_bytes(b"\xff\xfe" + mj.read_bytes())
    elif which == "absolute":
        external = str((p.root / "A" / "doc").resolve())
    err, log = p.build_B(B_PLAIN, external)
    print(which, "->", err)
    # contained would mean: no error, B's pages written
    ok = err is None and (p.root / "B" / "doc" / "module" / "mb.html").is_file()
    sys.exit(0 if ok else 1)
finally:
    p.close()
