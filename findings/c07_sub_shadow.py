"""C07 finding: a submodule's own declaration does not shadow the same-named entity of its host.
`submodule (m) s1` declares its own type t; inside s1, type(t) designates that type (host
association: the local declaration hides the module's).  FORD resolves it to the module's t,
because the submodule's dictionaries are updated WITH the ancestor's after the own declarations.
Run with PYTHONPATH=/repo.  Exit status 1 while the defect is present."""
import os, sys, tempfile, pathlib, shutil
os.environ["FORD_DEBUGGING"] = "1"
import ford.sourceform as sf
from ford.fortran_project import Project
from ford.settings import ProjectSettings

FILES = {"m.f90": "module m\n  type :: t\n    integer :: i\n  end type t\nend module m\n",
         "s1.f90": "submodule (m) s1\n  type :: t\n    integer :: j\n  end type t\n  type(t) :: v\nend submodule s1\n"}
d = pathlib.Path(tempfile.mkdtemp())
try:
    (d / "src").mkdir()
    for k, v in FILES.items():
        (d / "src" / k).write_text(v)
    sf.namelist = sf.NameSelector()
    p = Project(ProjectSettings(src_dir=[d / "src"], preprocess=False, dbg=True,
                                display=["public", "private", "protected"]))
    s1 = p.submodules[0]
    v, own_t = s1.variables[0], s1.types[0]
    p.correlate()
    t = v.proto[0]
    print("type(t) in s1 ->", t if isinstance(t, str) else f"{t.parent.name}.{t.name}", "(expected: s1.t)")
    sys.exit(0 if t is own_t else 1)
finally:
    shutil.rmtree(d)
