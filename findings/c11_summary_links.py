"""C11 finding: a [[reference]] in the project summary gets an href relative to the current working
directory.  Exit 1 while the defect is present.  Run with PYTHONPATH=/repo:/verif and /venv/bin on PATH."""
import os, sys, re
os.environ["FORD_DEBUGGING"] = "1"
from harness.impl import fordrun as F

files = {"src/a.f90": "module ma\n  !! A module.\nend module\n"}
with F.Work(files) as w:
    data, log, err = F.full_run_inprocess(w.root, {"summary": "SUMM [[ma]] MMUS"}, body="BODY [[ma]] YDOB\n")
    t = (w.root / "doc" / "index.html").read_text()
    hrefs = re.findall(r'SUMM <a href="([^"]*)"', t) + re.findall(r'BODY <a href="([^"]*)"', t)
    print("summary / body hrefs on doc/index.html:", hrefs)
    ok = all((w.root / "doc" / h).exists() for h in hrefs) and len(hrefs) == 2
    sys.exit(0 if ok else 1)
