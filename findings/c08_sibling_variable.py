"""C08 finding: name resolution (property C07): all_vars is one dictionary shared by a module and all its procedures, so a local array `helper(3)` of subroutine `first` makes t.
Run with PYTHONPATH=/repo:/verif.  Exit status 1 while the defect is present."""
from findings.c08_common import main

main("sibling-variable-hides-procedure")
