"""C15 finding config-skips-post-init: the same two options given in fpm.toml and through --config
yield different settings (--config values are attached after __post_init__, unconverted).
Run with PYTHONPATH=/repo.  Exit 1 while the defect is present."""
import contextlib, io, os, pathlib, shutil, sys, tempfile
os.environ["FORD_DEBUGGING"] = "1"
import ford


def effective(md="", toml=None, config=None, cwd_elsewhere=False, files=()):
    """ford.load_settings + ford.parse_arguments on a scratch project; returns the settings object
    or the exception"""
    root = pathlib.Path(os.path.realpath(tempfile.mkdtemp(prefix="c15demo_")))
    proj, other = root / "p", root / "w"
    proj.mkdir(); other.mkdir()
    (proj / "proj.md").write_text(md)
    if toml is not None:
        (proj / "fpm.toml").write_text(toml)
    for rel in files:
        (proj / rel).parent.mkdir(parents=True, exist_ok=True)
        (proj / rel).write_text("module m_%s\nend module\n" % pathlib.Path(rel).stem)
    old = os.getcwd()
    os.chdir(other if cwd_elsewhere else proj)
    directory = "../p" if cwd_elsewhere else ""
    try:
        with contextlib.redirect_stdout(io.StringIO()) as out:
            docs, settings = ford.load_settings(md, directory, "proj.md")
            settings, docs = ford.parse_arguments({"project_file": None, "config": config}, docs, settings, directory)
            extra = CALLBACK(settings, proj) if CALLBACK else None
        return settings, out.getvalue(), extra
    except BaseException as e:  # noqa
        return e, "", None
    finally:
        os.chdir(old)
        shutil.rmtree(root)


CALLBACK = None

t, _, _ = effective(md="preprocess: false\n", toml="[extra.ford]\npreprocess = false\ndisplay = 'Private'\nsrc_dir = './s1'\nproject_url = 'https://x.org'\n")
c, _, _ = effective(md="preprocess: false\n", config="display = 'Private'; src_dir = './s1'; project_url = 'https://x.org'")
for name in ("display", "src_dir", "project_url"):
    print(f"{name:12} fpm.toml: {getattr(t, name)!r}\n{'':12} --config: {getattr(c, name)!r}")
same = all(getattr(t, n) == getattr(c, n) for n in ("display", "src_dir", "project_url"))
sys.exit(0 if same else 1)
