"""C15 finding config-skips-post-init (repaired): the same options given in fpm.toml and through
--config (the `ford` command line, i.e. ford.initialize) must yield the same settings.
Run with PYTHONPATH=/repo.  Exit 1 while the defect is present."""
import contextlib, io, os, pathlib, shutil, sys, tempfile
os.environ["FORD_DEBUGGING"] = "1"
import ford

OPTIONS = ["preprocess = false", "display = 'Private'", "src_dir = './s1'", "project_url = 'https://x.org'",
           "output_dir = 'out'", "extensions = ['f90']"]


def command_line(toml, config):
    root = pathlib.Path(os.path.realpath(tempfile.mkdtemp(prefix="c15demo_")))
    (root / "proj.md").write_text("")
    if toml is not None:
        (root / "fpm.toml").write_text(toml)
    old, argv = os.getcwd(), sys.argv
    os.chdir(root)
    sys.argv = ["ford", "proj.md"] + ([f"--config={config}"] if config else [])
    try:
        with contextlib.redirect_stdout(io.StringIO()):
            settings, _ = ford.initialize()
        return {k: (sorted(v) if k == "extensions" else str(v).replace(str(root), "<project>"))
                for k, v in vars(settings).items() if k in ("display", "src_dir", "project_url", "exclude_dir", "extensions")}
    finally:
        os.chdir(old)
        sys.argv = argv
        shutil.rmtree(root)


t = command_line("[extra.ford]\n" + "\n".join(OPTIONS) + "\n", None)
c = command_line(None, "; ".join(OPTIONS))
for name in t:
    print(f"{name:12} fpm.toml: {t[name]}\n{'':12} --config: {c[name]}")
sys.exit(0 if t == c else 1)
