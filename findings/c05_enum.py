"""C05 finding (enum-never-filtered): prune() never filters enums.
(a) display: public, default-private module: the enum and its enumerators (private) are documented;
(b) proc_internals: false: the enum declared inside a procedure is documented on the procedure's page.
Run with PYTHONPATH=/repo:/verif.  Exit status 1 while the defect is present."""
import sys
from findings.c05_common import site, where

SRC = """module m
  !! module text
  private
  integer :: hidden_v
    !! HIDDENVAR
  enum, bind(c)
    !! ENUMDOC
    enumerator :: secret_a = 1
      !! ENUMERATORDOC
  end enum
  public :: api
contains
  subroutine api()
    !! api text
    integer :: local_v
      !! LOCALVAR
    enum, bind(c)
      !! INNERENUM
      enumerator :: inner_a = 1
    end enum
  end subroutine api
end module m
"""
pages = site(SRC, display=["public"], proc_internals=False)
res = {w: where(pages, w) for w in ("HIDDENVAR", "LOCALVAR", "ENUMDOC", "ENUMERATORDOC", "INNERENUM")}
for k, v in res.items():
    print(k, v)
sys.exit(0 if not (res["ENUMDOC"] or res["ENUMERATORDOC"] or res["INNERENUM"]) else 1)
