"""shared by the C12 demonstrations: repeated `python -m ford` runs of one project in ONE directory and a
description of how the output trees differ"""
import os
import sys

sys.path.insert(0, os.path.dirname(os.path.dirname(os.path.abspath(__file__))))
os.environ.setdefault("FORD_DEBUGGING", "1")
os.environ.setdefault("PYTHONPATH", os.environ.get("VERIF_REPO", "/repo") + ":/verif")
if os.environ.get("VERIF_REPO", "/repo") not in sys.path:
    sys.path.insert(0, os.environ.get("VERIF_REPO", "/repo"))


def runs(files, options, seeds):
    from harness.impl import c12run as R
    return R.subprocess_runs(files, [(options, s, None) for s in seeds])


def explain(trees, kinds, verbose=True):
    """-> (set of findings needed to explain the differences, all explained?)"""
    from harness.impl import c12run as R
    ok = [t[2] for t in trees if t[0] == 0]
    needed, clean = set(), True
    for i, t in enumerate(ok[1:], 1):
        cl = R.classify(ok[0], t, set(kinds))
        if cl is None:
            if verbose:
                print(f"run {i}: byte-identical to run 0")
            continue
        why, detail = cl
        if verbose:
            print(f"run {i}: differs; explained by {why}; first difference: {detail[0]} ({detail[1]})")
            for l in detail[2][:6]:
                print("      ", l)
        if why is None:
            clean = False
        else:
            needed.update(why)
    return needed, clean
