"""shared by the C12 demonstrations: repeated `python -m ford` runs of one project in ONE directory and a
description of how the output trees differ"""
import os
import sys

sys.path.insert(0, os.path.dirname(os.path.dirname(os.path.abspath(__file__))))
os.environ.setdefault("FORD_DEBUGGING", "1")
os.environ.setdefault("PYTHONPATH", os.environ.get("VERIF_REPO", "/repo") + ":/verif")
if os.environ.get("VERIF_REPO", "/repo") not in sys.path:
    sys.path.insert(0, os.environ.get("VERIF_REPO", "/repo"))


def runs(files, options, seeds):
    from harness.impl import c12run as R
    return R.subprocess_runs(files, [(options, s, None) for s in seeds])


def explain(trees, kinds=(), verbose=True):
    """-> (set(), all runs byte-identical?)   (no open finding allows two runs to differ any more; [kinds] is
    ignored and kept for the older demonstrations)"""
    from harness.impl import c12run as R
    ok = [t[2] for t in trees if t[0] == 0]
    clean = len(ok) == len(trees)
    for i, t in enumerate(ok[1:], 1):
        cl = R.classify(ok[0], t)
        if cl is None:
            if verbose:
                print(f"run {i}: byte-identical to run 0")
            continue
        clean = False
        detail = cl[1]
        if verbose:
            print(f"run {i}: differs; first difference: {detail[0]} ({detail[1]})")
            for l in detail[2][:6]:
                print("      ", l)
    return set(), clean
