"""C14, repaired defect `indented-comment-before-continuation` (fixed in /repo b2faa46) — regression demo:
exits 0 on the repaired code, 1 if the defect is back.

What the defect was:

Fixed form: a comment line may start with '!' in any column except column 6 (F2018 6.3.3.2: '!' initiates a
comment except in a character context or in character position 6), and comment lines may stand between a line and
its continuation line.  ford.fixed2free2 recognised such a line only when the '!' stood in columns 1-5; with the
'!' in column 7 or beyond the line was taken for a statement line: it ended the pending statement, and the '&' meant
for the continued statement was put on the comment line.  The continuation line then started a statement of its own.

Run:  PYTHONPATH=/repo:/verif /venv/bin/python findings/c14_indented_comment.py
"""
import io
import os
import tempfile

from ford.fixed2free2 import convertToFree
from ford.reader import FortranReader

FIXED = ["      x = 1", "      ! note", "     &  + 2"]
FREE = ["x = 1 &", "! note", "  + 2"]


def read(lines, fixed):
    d = tempfile.mkdtemp()
    p = os.path.join(d, "t.f" if fixed else "t.f90")
    with open(p, "w") as f:
        f.write("".join(l + "\n" for l in lines))
    try:
        return list(FortranReader(p, "!", ">", "*", "|", fixed=fixed))
    finally:
        os.remove(p)
        os.rmdir(d)


if __name__ == "__main__":
    conv = list(convertToFree(io.StringIO("".join(l + "\n" for l in FIXED))))
    print("fixed form       :", FIXED)
    print("converted        :", [c.rstrip("\n") for c in conv])
    got, want = read(FIXED, True), read(FREE, False)
    print("statements (.f)  :", got)
    print("statements (.f90):", want, " <- the free-form equivalent", FREE)
    print("DEFECT PRESENT" if got != want else "defect absent")
    raise SystemExit(1 if got != want else 0)
