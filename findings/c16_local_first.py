"""C16 finding: [[shape]] in B, where B defines a type `shape` and the external project A has a module `shape`,
links into A when it is written outside the scope that declares the type (Project.find searches extModules
before B's own types).  A is served through a mocked urlopen so
that the reference itself works.  Exit 1 while the defect is present.  Run with PYTHONPATH=/repo:/verif."""
import re
import sys
from findings.c16_common import Pair

A = """module shape
  !! module shape of A
  implicit none
  integer :: n = 1
end module shape
"""
B = """module mb
  !! module of B
  implicit none
  type :: shape
    !! B's own type
    integer :: k
  end type
end module mb

module mb2
  !! another module of B, see [[shape]]
  implicit none
end module mb2
"""
p = Pair(a_src=A)
try:
    err, _ = p.build_A()
    assert err is None, err
    import ford.external_project as ep
    payload = (p.root / "A" / "doc" / "modules.json").read_bytes()

    class R:
        def read(self):
            return payload
    ep.urlopen = lambda *a, **k: R()
    err, log = p.build_B(B, "https://a.example.org/doc/")
    assert err is None, err
    page = (p.root / "B" / "doc" / "module" / "mb2.html").read_text()
    hrefs = re.findall(r"""href=["']([^"']*)["'][^>]*>shape</a>""", page)
    print("[[shape]] ->", hrefs)
    into_a = any(h.startswith("https://a.example.org") for h in hrefs)
    sys.exit(1 if into_a else 0)
finally:
    p.close()
