"""C02 finding (fixed): a doubled quote ('it''s') or an empty literal ('') before a continuation
made the reader believe the literal was still open, so a comment on the continuation line was
kept as part of the statement.  Run with PYTHONPATH=<ford root>; exit 1 = defect present."""
import os, sys, tempfile
from ford.reader import FortranReader
src = "x = 'it''s' // &\n    'more' ! an ordinary comment\ny = '' // &\n  'z' ! another\n"
with tempfile.TemporaryDirectory() as d:
    p = os.path.join(d, "t.f90"); open(p, "w").write(src)
    lines = list(FortranReader(p, docmark="!", predocmark=">", docmark_alt="*", predocmark_alt="|"))
print(lines)
sys.exit(0 if lines == ["x = 'it''s' // 'more'", "y = '' // 'z'"] else 1)
