"""C11 finding: a reference with an item kind that the component cannot have aborts the whole FORD run
(the user guide promises a warning and no link).  Exit 1 while the defect is present.
Run with PYTHONPATH=/repo:/verif and /venv/bin on PATH."""
import os, sys
os.environ["FORD_DEBUGGING"] = "1"
from harness.impl import fordrun as F

bad = 0
for ref in ["[[m:reset(bound)]]", "[[shape:shape(constructor)]]", "[[gen:reset(modproc)]]"]:
    files = {"src/a.f90": f"""module m
  !! See {ref} here.
  type :: shape
    integer :: n
  end type
  interface gen
    module procedure reset
  end interface
contains
  subroutine reset()
  end subroutine
end module
"""}
    with F.Work(files) as w:
        data, log, err = F.full_run_inprocess(w.root, {})
        written = (w.root / "doc" / "module" / "m.html").exists()
        print(ref, "-> run error:", err, "| module page written:", written)
        bad += 0 if written and not err else 1
sys.exit(1 if bad else 0)
