"""C05 finding (final-never-filtered): FortranType.prune() filters components and bindings, not final procedures.
`display: none` in the type's metadata hides its components and bindings, the final procedure stays (with the
documentation of its private target); hide_undoc does not hide an undocumented final procedure either.
Run with PYTHONPATH=/repo:/verif.  Exit status 1 while the defect is present."""
import sys
from findings.c05_common import site, where

SRC = """module m
  !! module text
  private
  public :: t
  type t
    !! display: none
    !! type text
    integer :: c
      !! COMPDOC
  contains
    procedure, nopass :: b => cleanup
      !! BINDDOC
    final :: cleanup
      !! FINALDOC
  end type t
contains
  subroutine cleanup(x)
    !! TARGETDOC
    type(t) :: x
  end subroutine cleanup
end module m
"""
pages = site(SRC, display=["public"])
res = {w: where(pages, w) for w in ("COMPDOC", "BINDDOC", "FINALDOC", "TARGETDOC")}
for k, v in res.items():
    print(k, v)
sys.exit(0 if not (res["FINALDOC"] or res["TARGETDOC"]) else 1)
