"""C08 finding: a statement keyword followed by "(" (wait, write, read, open, close, flush, allocate, if, ...) is taken
for a reference to a procedure of that name when the unit can see one: `wait (10)` (the WAIT statement) in a module that
also has a subroutine wait records a call to it.
Run with PYTHONPATH=/repo:/verif.  Exit status 1 while the defect is present."""
from findings.c08_common import main

main("keyword-named-procedure")
