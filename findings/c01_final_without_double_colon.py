"""C01 finding final-without-double-colon: `final f1` (the "::" is optional in Fortran) is not recognised,
the finalizer is silently missing from the type.  Run with PYTHONPATH=/repo.  Exit 1 while the defect is present."""
import contextlib, io, os, shutil, sys, tempfile
os.environ["FORD_DEBUGGING"] = "1"
import ford.sourceform as sf
from ford.settings import ProjectSettings


def parse(text, **kw):
    """ford.sourceform.FortranSourceFile on a scratch file; returns the file object or the exception"""
    d = tempfile.mkdtemp(prefix="c01demo_")
    try:
        p = os.path.join(d, "t.f90")
        with open(p, "w") as fh:
            fh.write(text)
        sf.namelist = sf.NameSelector()
        out = io.StringIO()
        with contextlib.redirect_stdout(out):
            try:
                return sf.FortranSourceFile(p, ProjectSettings(preprocess=False, dbg=True, **kw), None, False), out.getvalue()
            except BaseException as e:  # noqa
                return e, out.getvalue()
    finally:
        shutil.rmtree(d)

text = """module m
 type t
  integer :: a
 contains
  final f1
  final :: f2
 end type t
contains
 subroutine f1(x)
  type(t) :: x
 end subroutine
 subroutine f2(x)
  type(t) :: x
 end subroutine
end module m
"""
f, log = parse(text)
names = [p.name for p in f.modules[0].types[0].finalprocs] if not isinstance(f, BaseException) else repr(f)
print("final procedures of t:", names, "(declared: f1, f2)")
sys.exit(0 if names == ["f1", "f2"] or names == ["f2", "f1"] else 1)
