"""C06 findings about USE statements in interface bodies.
(1) A USE statement in the body of an ABSTRACT interface is ignored (find_used_modules never visits
    `absinterfaces`, the module name stays a string): `type(ta) :: x` stays unresolved.
(2) A USE statement in a body written inside a GENERIC interface block is not a dependency of the
    module (get_deps follows only routines and non-generic interface procedures): module mm is
    correlated before zf has merged what it imports from za, so the re-exported `ta` is unresolved.
Run with PYTHONPATH=/repo.  Exit status 1 while a defect is present."""
import os, sys, tempfile, pathlib, shutil
os.environ["FORD_DEBUGGING"] = "1"
import ford.sourceform as sf
from ford.fortran_project import Project
from ford.settings import ProjectSettings

ZA = "module za\n  type :: ta\n    integer :: c\n  end type\nend module za\n"
ZF = "module zf\n  use za\nend module zf\n"
M1 = ("module m1\n  abstract interface\n    subroutine cb(x)\n      use za\n      type(ta) :: x\n"
      "    end subroutine cb\n  end interface\nend module m1\n")
M2 = ("module m2\n  interface gg\n    subroutine ext(x)\n      use zf\n      type(ta) :: x\n"
      "    end subroutine ext\n  end interface\nend module m2\n")
M3 = ("module m3\n  interface\n    subroutine ext3(x)\n      use zf\n      type(ta) :: x\n"
      "    end subroutine ext3\n  end interface\nend module m3\n")   # non-generic body: works

d = pathlib.Path(tempfile.mkdtemp())
try:
    (d / "src").mkdir()
    for n, txt in (("za", ZA), ("zf", ZF), ("m1", M1), ("m2", M2), ("m3", M3)):
        (d / "src" / f"{n}.f90").write_text(txt)
    sf.namelist = sf.NameSelector()
    p = Project(ProjectSettings(src_dir=[d / "src"], preprocess=False, dbg=True))
    p.correlate()
    mods = {m.name: m for m in p.modules}
    x1 = mods["m1"].absinterfaces[0].procedure.args[0].proto[0]
    x2 = mods["m2"].interfaces[0].subroutines[0].args[0].proto[0]
    x3 = mods["m3"].interfaces[0].procedure.args[0].proto[0]
    print("(1) abstract interface body: type(ta) ->", type(x1).__name__, "(expected FortranType)")
    print("(2) generic interface body:  type(ta) ->", type(x2).__name__, "(expected FortranType)")
    print("(-) plain interface body:    type(ta) ->", type(x3).__name__)
    sys.exit(0 if not isinstance(x1, str) and not isinstance(x2, str) else 1)
finally:
    shutil.rmtree(d)
