"""C12 finding: with `graph_dir` set and `parallel` > 0 (its default is the CPU count) the run aborts with
`TypeError: cannot pickle 'TextIOWrapper' instances`; with parallel: 0 the same project is written fine.
GraphManager.output_graphs sends the graph objects to a process pool; they reach
graph.data.modules -> FortranModule -> parent (source file) -> settings.project_file, the open project file
(argparse.FileType) that convert_types_from_commandarguments copied into the settings.
Expected: the same output tree for every value of `parallel`.
Patch (ford/__init__.py parse_arguments): keep the file's name, not the handle:
    if hasattr(getattr(proj_data, 'project_file', None), 'name'):
        proj_data.project_file = proj_data.project_file.name"""
from findings.c12_common import runs
from findings.c12_children_order import SRC


def demonstrate(verbose=True):
    from harness.impl import c12run as R
    out = {}
    for par in ("0", "2"):
        rc, log, tree, extra = R.subprocess_run(SRC, {"graph": "true", "graph_dir": "./graphs", "parallel": par}, 1,
                                                keep=("graphs",))
        out[par] = (rc, log)
        if verbose:
            print(f"parallel: {par} -> exit code {rc}, {len(tree)} files in doc/, {len(extra['graphs'])} in graphs/")
            if rc:
                print("   ", log.strip().splitlines()[-1])
    return out["0"][0] == 0 and out["2"][0] != 0 and "pickle" in out["2"][1]


if __name__ == "__main__":
    print("defect present:", demonstrate())
