"""C15 findings toml-unknown-key-aborts / config-unknown-key-silent: an unknown key is warned about
and dropped in the project file, aborts the run in fpm.toml, and is silently attached by --config.
Run with PYTHONPATH=/repo.  Exit 1 while either defect is present."""
import contextlib, io, os, pathlib, shutil, sys, tempfile
os.environ["FORD_DEBUGGING"] = "1"
import ford


def effective(md="", toml=None, config=None, cwd_elsewhere=False, files=()):
    """ford.load_settings + ford.parse_arguments on a scratch project; returns the settings object
    or the exception"""
    root = pathlib.Path(os.path.realpath(tempfile.mkdtemp(prefix="c15demo_")))
    proj, other = root / "p", root / "w"
    proj.mkdir(); other.mkdir()
    (proj / "proj.md").write_text(md)
    if toml is not None:
        (proj / "fpm.toml").write_text(toml)
    for rel in files:
        (proj / rel).parent.mkdir(parents=True, exist_ok=True)
        (proj / rel).write_text("module m_%s\nend module\n" % pathlib.Path(rel).stem)
    old = os.getcwd()
    os.chdir(other if cwd_elsewhere else proj)
    directory = "../p" if cwd_elsewhere else ""
    try:
        with contextlib.redirect_stdout(io.StringIO()) as out:
            docs, settings = ford.load_settings(md, directory, "proj.md")
            settings, docs = ford.parse_arguments({"project_file": None, "config": config}, docs, settings, directory)
            extra = CALLBACK(settings, proj) if CALLBACK else None
        return settings, out.getvalue(), extra
    except BaseException as e:  # noqa
        return e, "", None
    finally:
        os.chdir(old)
        shutil.rmtree(root)


CALLBACK = None

m, log_m, _ = effective(md="preprocess: false\nfoo: 1\n")
t, log_t, _ = effective(toml="[extra.ford]\npreprocess = false\nfoo = 1\n")
c, log_c, _ = effective(md="preprocess: false\n", config="foo = 1")
print("markdown :", type(m).__name__, "| report:", "unknown" in log_m)
print("fpm.toml :", type(t).__name__, t if isinstance(t, BaseException) else "", "| report:", "unknown" in log_t)
print("--config :", type(c).__name__, "| report:", "unknown" in log_c, "| attribute attached:", getattr(c, "foo", None))
ok = (not isinstance(t, BaseException)) and "unknown" in log_t and "unknown" in log_c
sys.exit(0 if ok else 1)
