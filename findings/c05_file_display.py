"""C05 finding (file-display-not-inherited): `display` in a source file's own documentation is documented to be
inherited by the file's contents ("The option 'none' is ignored in source files. Options will be inherited by
any contents of this item"); FORD reads the file's metadata after its contents were built, so nothing inherits it.
Here the file asks for private entities as well; the private variable is not documented.
Run with PYTHONPATH=/repo:/verif.  Exit status 1 while the defect is present."""
import sys
from findings.c05_common import site, where

SRC = """!! display: public
!! display: private
!! file text
module m
  !! module text
  integer, private :: v
    !! PRIVATEVAR
  integer, public :: w
    !! PUBLICVAR
end module m
"""
pages = site(SRC, display=["public"])
res = {w: where(pages, w) for w in ("PRIVATEVAR", "PUBLICVAR")}
for k, v in res.items():
    print(k, v)
sys.exit(0 if res["PRIVATEVAR"] else 1)
