"""C17 finding: the project-level copy_subdir option copies nothing in a real run (the entries are
made absolute, so copytree(src, src) fails with a warning).  Expected per user guide: doc/page/sub/media
exists.  Exit 1 while the defect is present.  Run with PYTHONPATH=/repo:/verif and /venv/bin on PATH."""
import os, sys
os.environ["FORD_DEBUGGING"] = "1"
from harness.impl import fordrun as F

files = {"src/a.f90": "module ma\nend module\n",
         "pages/index.md": "title: Top\n\ntext\n",
         "pages/sub/index.md": "title: Sub\n\ntext\n",
         "pages/sub/media/m.txt": "m\n"}
with F.Work(files) as w:
    data, log, err = F.full_run_inprocess(w.root, {"page_dir": "./pages", "copy_subdir": "media"})
    print("error:", err, "| copy_subdir setting:", data.copy_subdir if data else None)
    print([l for l in log.splitlines() if "could not copy" in l][:2])
    ok = (w.root / "doc" / "page" / "sub" / "media" / "m.txt").exists()
    print("doc/page/sub/media/m.txt exists:", ok)
    sys.exit(0 if ok else 1)
