"""C10 finding: procedures whose names differ only in case, in different modules,
were given the same output page (proc/init.html).  Run with PYTHONPATH=/repo."""
import os, sys, tempfile, pathlib, shutil
os.environ["FORD_DEBUGGING"] = "1"
import ford.sourceform as sf
from ford.fortran_project import Project
from ford.settings import ProjectSettings

d = pathlib.Path(tempfile.mkdtemp())
try:
    (d / "src").mkdir()
    (d / "src" / "a.f90").write_text("module ma\ncontains\nsubroutine Init()\nend subroutine\nend module\n")
    (d / "src" / "b.f90").write_text("module mb\ncontains\nsubroutine init()\nend subroutine\nend module\n")
    sf.namelist = sf.NameSelector()
    st = ProjectSettings(src_dir=[d / "src"], preprocess=False, dbg=True)
    p = Project(st)
    urls = sorted(pr.get_url() for m in p.modules for pr in m.subroutines)
    print(urls)
    sys.exit(0 if len(set(urls)) == len(urls) else 1)
finally:
    shutil.rmtree(d)
