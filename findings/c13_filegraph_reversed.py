"""C13 finding: the project-wide file graph draws its arrows against its own legend.
The legend (FILE_GRAPH_KEY) says "Solid arrows point from a file to a file which it depends on" and the
per-file graphs do so (b.f90 -> a.f90 when b uses a module of a), but FileGraph.add_node draws a.f90 -> b.f90."""
from findings.c13_common import graphs_for

SRC = {"src/a.f90": "module a\nend module a\n", "src/b.f90": "module b\nuse a\nend module b\n"}


def demonstrate(verbose=True):
    g = graphs_for(SRC)
    _, fedges, _ = g["file~~graph~~FileGraph"]
    _, eedges, _ = g["sourcefile~~b.f90~~EfferentGraph"]
    if verbose:
        print("file graph edges:", fedges)
        print("efferent graph of b.f90:", eedges)
        print("expected: sourcefile~b.f90 -> sourcefile~a.f90 in both (b depends on a)")
    return ("sourcefile~a.f90", "sourcefile~b.f90") in fedges and ("sourcefile~b.f90", "sourcefile~a.f90") in eedges


if __name__ == "__main__":
    print("defect present:", demonstrate())
