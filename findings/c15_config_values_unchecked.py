"""C15 finding config-values-unchecked (repaired): values passed through --config (the `ford` command
line, i.e. ford.initialize) are converted and checked against the declared type like those of the
project file and of fpm.toml: graph = 'maybe' is rejected with a message naming graph (as
`graph: maybe` is), max_frontpage_items = '4' gives the integer 4.
Regression witness.  Run with PYTHONPATH=<repo>.  Exit 1 while the defect is present."""
import contextlib, io, os, pathlib, shutil, sys, tempfile
os.environ["FORD_DEBUGGING"] = "1"
import ford


def command_line(md="", toml=None, config=None):
    """the `ford` command line (ford.initialize) on a scratch project: the settings object or the exception"""
    root = pathlib.Path(os.path.realpath(tempfile.mkdtemp(prefix="c15demo_")))
    (root / "proj.md").write_text(md)
    if toml is not None:
        (root / "fpm.toml").write_text(toml)
    old, argv = os.getcwd(), sys.argv
    os.chdir(root)
    sys.argv = ["ford", "proj.md"] + ([f"--config={config}"] if config else [])
    try:
        with contextlib.redirect_stdout(io.StringIO()), contextlib.redirect_stderr(io.StringIO()):
            settings, _ = ford.initialize()
        return settings
    except BaseException as e:  # noqa -- the exception is the outcome
        return e
    finally:
        os.chdir(old)
        sys.argv = argv
        shutil.rmtree(root)


def show(label, r, *names):
    if isinstance(r, BaseException):
        print(f"{label:52} -> {type(r).__name__}: {r}")
    else:
        print(f"{label:52} -> accepted: " + ", ".join(f"{n} = {getattr(r, n)!r}" for n in names))


def rejected_naming(r, name):
    return isinstance(r, BaseException) and f"'{name}'" in str(r)


a = command_line(config="preprocess = false; graph = 'maybe'")
m = command_line(md="preprocess: false\ngraph: maybe\n")
b = command_line(config="preprocess = false; max_frontpage_items = '4'; warn = 'True'")
c = command_line(config="preprocess = false; project = 5")
d = command_line(config="preprocess = false; graph = 3")
show("--config  graph = 'maybe'", a, "graph")
show("markdown  graph: maybe", m, "graph")
show("--config  max_frontpage_items = '4'; warn = 'True'", b, "max_frontpage_items", "warn")
show("--config  project = 5", c, "project")
show("--config  graph = 3", d, "graph")
ok = (rejected_naming(a, "graph") and rejected_naming(m, "graph")
      and not isinstance(b, BaseException) and b.max_frontpage_items == 4 and type(b.max_frontpage_items) is int
      and b.warn is True
      and rejected_naming(c, "project") and rejected_naming(d, "graph"))
sys.exit(0 if ok else 1)
