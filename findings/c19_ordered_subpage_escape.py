"""C19 (repaired defect, kept as a regression demonstration; exit code 1 = the defect is back):
an `ordered_subpage` entry may name a file outside the page directory (any name not
starting with '.', e.g. sub/../../../note.md).  The page's location becomes a path with '..'
(ford/pagetree.py PageNode: location = relpath(path.parent, topdir)) and PagetreePage.outfile =
<output_dir>/page/<location>/<name>.html lands outside the output directory.

Layout:  <tmp>/note.md                     a markdown file two levels above the page directory
         <tmp>/proj/pages/index.md         with  ordered_subpage: sub/../../../note.md
         <tmp>/proj/pages/sub/index.md
         <tmp>/proj/proj.md                output_dir: ./doc
Observed before the repair: <tmp>/proj/note.html is written (outside <tmp>/proj/doc).
Expected: nothing outside <tmp>/proj/doc changes.
Exit code 1 while the defect is present.  Run with PYTHONPATH=/repo."""
import os, pathlib, shutil, subprocess, sys, tempfile

d = pathlib.Path(tempfile.mkdtemp())
try:
    (d / "proj/src").mkdir(parents=True)
    (d / "proj/pages/sub").mkdir(parents=True)
    (d / "note.md").write_text("---\ntitle: Note\n---\nnote\n")
    (d / "proj/src/m.f90").write_text("module m\nend module\n")
    (d / "proj/pages/index.md").write_text("---\ntitle: Pages\nordered_subpage: sub/../../../note.md\n---\nhello\n")
    (d / "proj/pages/sub/index.md").write_text("---\ntitle: Sub\n---\nsub\n")
    (d / "proj/proj.md").write_text("---\nproject: t\nsrc_dir: ./src\noutput_dir: ./doc\npage_dir: ./pages\n"
                                    "preprocess: false\ngraph: false\nsearch: false\n---\nhi\n")
    before = {p.relative_to(d) for p in d.rglob("*")}
    env = dict(os.environ, FORD_DEBUGGING="1")
    r = subprocess.run([sys.executable, "-m", "ford", "proj.md"], cwd=d / "proj", env=env,
                       stdout=subprocess.PIPE, stderr=subprocess.STDOUT, text=True)
    after = {p.relative_to(d) for p in d.rglob("*")}
    outside = sorted(str(p) for p in after - before if not str(p).startswith("proj/doc"))
    print("exit code of ford:", r.returncode)
    print("created outside proj/doc:", outside)
    sys.exit(1 if outside else 0)
finally:
    shutil.rmtree(d)
