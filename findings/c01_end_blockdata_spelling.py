"""C01 finding end-blockdata-spelling: END_RE asks for exactly one white-space character between BLOCK and DATA,
so `end blockdata bd` / `endblockdata` / `end block  data` do not close the unit: what follows is swallowed
or the file is rejected.  Run with PYTHONPATH=/repo.  Exit 1 while the defect is present."""
import contextlib, io, os, shutil, sys, tempfile
os.environ["FORD_DEBUGGING"] = "1"
import ford.sourceform as sf
from ford.settings import ProjectSettings


def parse(text, **kw):
    """ford.sourceform.FortranSourceFile on a scratch file; returns the file object or the exception"""
    d = tempfile.mkdtemp(prefix="c01demo_")
    try:
        p = os.path.join(d, "t.f90")
        with open(p, "w") as fh:
            fh.write(text)
        sf.namelist = sf.NameSelector()
        out = io.StringIO()
        with contextlib.redirect_stdout(out):
            try:
                return sf.FortranSourceFile(p, ProjectSettings(preprocess=False, dbg=True, **kw), None, False), out.getvalue()
            except BaseException as e:  # noqa
                return e, out.getvalue()
    finally:
        shutil.rmtree(d)

text = """block data bd
  integer :: x
  common /c/ x
end blockdata bd
module m
 integer :: y
end module m
"""
f, log = parse(text)
if isinstance(f, BaseException):
    print("file rejected:", repr(f)); sys.exit(1)
print("modules:", [m.name for m in f.modules], " block data variables:", [v.name for v in f.blockdata[0].variables])
print(log.strip()[:200])
sys.exit(0 if [m.name for m in f.modules] == ["m"] else 1)
