"""C12 finding, FIXED by the type-toposort repair (/verif/scratch/c12fix_type_toposort.patch); on a tree with the
repair demonstrate() returns False (regression demo).
Before: module a has type t; module b has `use a, only: at => t`, its own type t and `type, extends(at) :: child`.
FortranCodeUnit.correlate builds typelist[child] = {a's t}; toposort_flatten sorts the batch {a's t, b's t} - a set
of objects hashed by id() - with FortranBase.__lt__, which is the first to ask for the two identifiers: which of
the types is type/t.html and which type/t~2.html changed from run to run (PYTHONHASHSEED fixed)."""
from findings.c12_common import runs, explain

SRC = {"src/a.f90": "module a\n  type :: t\n    integer :: i\n  end type t\nend module a\n",
       "src/b.f90": "module b\n  use a, only: at => t\n  type :: t\n    integer :: j\n  end type t\n"
                    "  type, extends(at) :: child\n    integer :: k\n  end type child\nend module b\n"}


def demonstrate(verbose=True):
    if verbose:
        print("eight runs, all with PYTHONHASHSEED=3, same directory")
    _, clean = explain(runs(SRC, {}, [3] * 8), [], verbose)
    return not clean


if __name__ == "__main__":
    print("defect present:", demonstrate())
