"""C11 finding: [[nl]] inside a module finds the module-level namelist nl, whose page is never written.
Exit 1 while the defect is present.  Run with PYTHONPATH=/repo:/verif and /venv/bin on PATH."""
import os, sys, re
os.environ["FORD_DEBUGGING"] = "1"
from harness.impl import fordrun as F

files = {"src/a.f90": "module ma\n  !! See [[nl]] here.\n  integer :: v\n  namelist /nl/ v\nend module\n"}
with F.Work(files) as w:
    data, log, err = F.full_run_inprocess(w.root, {})
    t = (w.root / "doc" / "module" / "ma.html").read_text()
    m = re.search(r'See <a href="([^"]*)"', t)
    print("href on module/ma.html:", m and m.group(1))
    ok = m and (w.root / "doc" / "module" / m.group(1)).exists()
    print("target exists:", bool(ok))
    sys.exit(0 if ok else 1)
