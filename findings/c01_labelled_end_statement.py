"""C01 finding labelled-end-statement: an END statement with a statement label (`99 end subroutine s`, legal and
common in older code as the target of a GOTO) is not recognised by END_RE (anchored at "end"); SUBROUTINE_RE takes
"99 end" for attributes and opens a NEW subroutine, so the following program unit is swallowed.
Run with PYTHONPATH=/repo.  Exit 1 while the defect is present."""
import contextlib, io, os, shutil, sys, tempfile
os.environ["FORD_DEBUGGING"] = "1"
import ford.sourceform as sf
from ford.settings import ProjectSettings


def parse(text, **kw):
    """ford.sourceform.FortranSourceFile on a scratch file; returns the file object or the exception"""
    d = tempfile.mkdtemp(prefix="c01demo_")
    try:
        p = os.path.join(d, "t.f90")
        with open(p, "w") as fh:
            fh.write(text)
        sf.namelist = sf.NameSelector()
        out = io.StringIO()
        with contextlib.redirect_stdout(out):
            try:
                return sf.FortranSourceFile(p, ProjectSettings(preprocess=False, dbg=True, **kw), None, False), out.getvalue()
            except BaseException as e:  # noqa
                return e, out.getvalue()
    finally:
        shutil.rmtree(d)

text = """subroutine s(i)
 integer i
 if (i > 0) goto 99
 i = 1
99 end subroutine s
subroutine t
end subroutine t
"""
f, log = parse(text)
if isinstance(f, BaseException):
    print("file rejected:", repr(f)); sys.exit(1)
print("subroutines of the file:", [p.name for p in f.subroutines], "(declared: s, t)")
print(log.strip()[:300])
sys.exit(0 if sorted(p.name for p in f.subroutines) == ["s", "t"] else 1)
