"""Witnesses of the C08 findings: Fortran source, the unit whose calls are inspected, what the unit
really invokes (user procedures), and a replay on the working tree (PYTHONPATH=<repo>:/verif).
`still_fails(key)` is True while FORD's unit.calls differs from the expected set (or FORD raises)."""
import os
import pathlib
import shutil
import tempfile

os.environ.setdefault("FORD_DEBUGGING", "1")

HEAD = """module m
  implicit none
  type t
    integer :: c(3)
  contains
    procedure :: run
  end type
  integer :: arr(10)
contains
  integer function f(x)
    integer :: x
    f = x
  end function f
  integer function g(x)
    integer :: x
    g = x
  end function g
  subroutine sub0()
  end subroutine sub0
  subroutine run(self)
    class(t) :: self
  end subroutine run
"""

WITNESSES = {
    # key: (source, unit path, expected names)
    "unresolved-array": (
        "subroutine test()\n  dimension w(10)\n  common /blk/ z(5)\n  w(1) = z(2)\nend subroutine test\n",
        ("test",), set()),
    "block-local-array": (
        HEAD + "  subroutine test()\n    integer :: i\n    block\n      integer :: tmp(3)\n      tmp(1) = f(2)\n"
               "      i = tmp(1)\n    end block\n  end subroutine test\nend module m\n",
        ("m", "test"), {"@m.f"}),
    "same-last-component": (
        "module m\n  implicit none\n  type t1\n  contains\n    procedure :: run => run1\n  end type\n"
        "  type t2\n  contains\n    procedure :: run => run2\n  end type\ncontains\n"
        "  subroutine run1(self)\n    class(t1) :: self\n  end subroutine\n"
        "  subroutine run2(self)\n    class(t2) :: self\n  end subroutine\n"
        "  subroutine test()\n    type(t1) :: a\n    type(t2) :: b\n    call a%run()\n    call b%run()\n"
        "  end subroutine test\nend module m\n",
        ("m", "test"), {"@m.t1.run", "@m.t2.run"}),
    "intrinsic-named-procedure": (
        "module m\n  implicit none\ncontains\n  subroutine wait(n)\n    integer :: n\n  end subroutine wait\n"
        "  integer function system(n)\n    integer :: n\n    system = n\n  end function system\n"
        "  subroutine test()\n    integer :: i\n    call wait(3)\n    i = system(2)\n  end subroutine test\nend module m\n",
        ("m", "test"), {"@m.wait", "@m.system"}),
    "keyword-named-procedure": (
        "module m\n  implicit none\ncontains\n  subroutine wait(n)\n    integer :: n\n  end subroutine wait\n"
        "  subroutine test()\n    open (10, file='x', asynchronous='yes')\n    wait (10)\n    close (10)\n"
        "  end subroutine test\nend module m\n",
        ("m", "test"), set()),
    "labelled-call-without-arguments": (
        HEAD + "  subroutine test()\n    integer :: i\n    i = 1\n10  call sub0\n  end subroutine test\nend module m\n",
        ("m", "test"), {"@m.sub0"}),
    "format-without-blank": (
        HEAD + "  subroutine test()\n    integer :: i\n    i = 1\n    write (6, 100) i\n"
               "100 format(i5, 3(f8.2, a))\n  end subroutine test\nend module m\n",
        ("m", "test"), set()),
    "associate-expression-selector": (
        HEAD + "  subroutine test()\n    integer :: i\n    associate (tmp => arr(1:3) + 1)\n      i = tmp(2)\n"
               "    end associate\n  end subroutine test\nend module m\n",
        ("m", "test"), set()),
    "sibling-variable-hides-procedure": (
        "module m\n  implicit none\ncontains\n  integer function helper(n)\n    integer :: n\n    helper = n\n"
        "  end function helper\n  subroutine first()\n    integer :: helper(3)\n    helper(1) = 2\n  end subroutine first\n"
        "  subroutine second()\n    integer :: i\n    i = helper(2)\n  end subroutine second\nend module m\n",
        ("m", "second"), {"@m.helper"}),
    "associate-function-selector-crash": (
        "module m\n  implicit none\n  type t\n    integer :: c(3)\n  contains\n    procedure :: run\n  end type\ncontains\n"
        "  integer function test()\n    associate (a => mk(1))\n      call a%run()\n    end associate\n    test = 1\n"
        "  end function test\n  subroutine run(self)\n    class(t) :: self\n  end subroutine run\n"
        "  type(t) function mk(x)\n    integer :: x\n    mk%c = x\n  end function mk\nend module m\n",
        ("m", "test"), {"@m.mk", "@m.t.run"}),
    "goto-pattern-unanchored": (
        HEAD + "  subroutine mygoto(a, b)\n    integer :: a, b\n  end subroutine mygoto\n"
               "  subroutine test()\n    integer :: i\n    call mygoto(1, 2)\n    go to (10, 20), f(i)\n10  continue\n20  continue\n"
               "  end subroutine test\nend module m\n",
        ("m", "test"), {"@m.mygoto", "@m.f"}),
    "typed-external-function": (
        "subroutine test()\n  implicit none\n  integer :: ef, i\n  i = ef(3)\nend subroutine test\n"
        "integer function ef(n)\n  integer :: n\n  ef = n\nend function ef\n",
        ("test",), {"@ef"}),
}


# repaired in FORD: a witness that fails again is a regression (harness: failing-input VIOLATION)
FIXED = {"same-last-component", "labelled-call-without-arguments", "format-without-blank", "associate-expression-selector",
         "sibling-variable-hides-procedure", "associate-function-selector-crash", "goto-pattern-unanchored",
         "typed-external-function", "intrinsic-named-procedure"}


def obj_path(o):
    names = []
    while o is not None and getattr(o, "obj", None) != "sourcefile":
        names.append(str(getattr(o, "name", "?")).lower())
        o = getattr(o, "parent", None)
    return "@" + ".".join(reversed(names))


def unit_calls(source, path):
    """names in unit.calls after correlate (identity path of resolved procedures), or 'EXC:<Type>'"""
    import ford.sourceform as sf
    from ford.fortran_project import Project
    from ford.settings import ProjectSettings
    d = pathlib.Path(tempfile.mkdtemp(prefix="verif_c08f_"))
    cwd = os.getcwd()
    try:
        (d / "src").mkdir()
        (d / "src" / "a.f90").write_text(source)
        sf.namelist = sf.NameSelector()
        os.chdir(d)
        import contextlib, io, warnings
        buf = io.StringIO()
        with contextlib.redirect_stdout(buf), contextlib.redirect_stderr(buf), warnings.catch_warnings():
            warnings.simplefilter("ignore")
            try:
                st = ProjectSettings(src_dir=[d / "src"], preprocess=False, dbg=False,
                                     display=["public", "private", "protected"], output_dir=d / "doc")
                st.fpp_extensions = []
                p = Project(st)
                p.correlate()
            except Exception as e:  # noqa
                return "EXC:" + type(e).__name__
        found = {}

        def visit(u, pth):
            if hasattr(u, "calls"):
                found[pth] = [c if isinstance(c, str) else obj_path(c) for c in u.calls]
            for attr in ("modules", "programs", "functions", "subroutines"):
                for c in getattr(u, attr, None) or []:
                    visit(c, pth + (c.name.lower(),))
        for f in p.files:
            visit(f, ())
        return found.get(tuple(path), "EXC:unit-not-found")
    finally:
        os.chdir(cwd)
        shutil.rmtree(d, ignore_errors=True)


def observe(key):
    src, path, expected = WITNESSES[key]
    got = unit_calls(src, path)
    return got, expected


def still_fails(key):
    got, expected = observe(key)
    return isinstance(got, str) or set(got) != expected or len(got) != len(set(got))


def main(key):
    import sys
    got, expected = observe(key)
    print(WITNESSES[key][0])
    print("unit", ".".join(WITNESSES[key][1]), ": recorded calls =", got)
    print("user procedures really invoked =", sorted(expected))
    bad = still_fails(key)
    print("DEFECT PRESENT" if bad else "not reproduced")
    sys.exit(1 if bad else 0)
