"""C12 observation (not a recorded finding): what still depends on where the project lives.

Since 80d6c91 Project.__init__ parses sorted(find_all_files(settings)): the sort key is the ABSOLUTE path.  For
source directories below the project directory the common prefix cancels (Coq: C12_location_irrelevant; the
check moves every generated project and compares).  A source directory OUTSIDE the project directory
(`src_dir: ./src ../lib`) is compared with the project directory's own name: renaming the checkout from
`aaa` to `zzz` swaps which of two equally named entities is `variable-x` and which `variable-x~2`.
A location-independent key would be the path relative to the project file's directory."""
from findings.c12_common import runs  # noqa: F401  (sets up the environment)

LIB = "module ml\n  integer :: x\n    !! x of lib\nend module ml\n"
OWN = "module mo\n  integer :: x\n    !! x of own\nend module mo\n"


def demonstrate(verbose=True):
    from harness.impl import c12run as R, fordrun as F
    got = {}
    with F.Work() as w:
        (w.root / "lib").mkdir()
        (w.root / "lib" / "l.f90").write_text(LIB)
        for name in ("aaa", "zzz"):
            rc, out, tree, _ = R.ProjectDir(w.root, name, {"src/o.f90": OWN}).run({"src_dir": ["./src", "../lib"]}, 3)
            ids = [l.strip() for l in tree.get("module/mo.html", b"").decode().splitlines() if 'id="variable-x' in l]
            got[name] = ids
            if verbose:
                print(f"project directory {name}: module mo's variable x is", ids)
    return got["aaa"] != got["zzz"]


if __name__ == "__main__":
    print("output depends on the project directory's name:", demonstrate())
