"""C01 findings prefix-type-lower-cased, prefix-keyword-inside-type.  Run with PYTHONPATH=/repo.
Exit 1 while either is present."""
import contextlib, io, os, shutil, sys, tempfile
os.environ["FORD_DEBUGGING"] = "1"
import ford.sourceform as sf
from ford.settings import ProjectSettings


def parse(text):
    """ford.sourceform.FortranSourceFile on a scratch file; returns the file object or the exception"""
    d = tempfile.mkdtemp(prefix="c01demo_")
    try:
        p = os.path.join(d, "t.f90")
        with open(p, "w") as fh:
            fh.write(text)
        sf.namelist = sf.NameSelector()
        with contextlib.redirect_stdout(io.StringIO()):
            try:
                return sf.FortranSourceFile(p, ProjectSettings(preprocess=False, dbg=True), None, False)
            except BaseException as e:  # noqa
                return e
    finally:
        shutil.rmtree(d)


def module_vars(*lines):
    f = parse("module m\n" + "".join(l + "\n" for l in lines) + "end module m\n")
    return f if isinstance(f, BaseException) else {v.name: v for v in f.modules[0].variables}


def show(v):
    return {k: getattr(v, k) for k in ("vartype", "kind", "strlen", "attribs", "intent", "optional", "parameter",
                                       "initial", "dimension") if getattr(v, k) not in (None, "", [], False)}


f = parse("""real(WP) function f1()
end function
function f2()
  real(WP) :: f2
end function
type(module_t) function f3()
end function
type(pure_t) function f4()
end function
function f5()
  type(module_t) :: f5
end function
""")
for fn in f.functions:
    print(fn.name, "attribs:", fn.attribs, "result:", fn.retvar.vartype, "kind:", fn.retvar.kind, "proto:", fn.retvar.proto)
f1, f2, f3, f4, f5 = f.functions
ok = f1.retvar.kind == f2.retvar.kind and f3.attribs == [] and f3.retvar.proto == f5.retvar.proto and f4.attribs == []
sys.exit(0 if ok else 1)
