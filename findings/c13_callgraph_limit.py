"""C13 finding: the project-wide call graph counts nodes twice against graph_maxnodes.
CallGraph.add_node tests "p not in hop_nodes" where every other graph tests "p not in self.added", so callees
that are already drawn as roots are counted again: three procedures calling each other need 3 nodes, but with
graph_maxnodes = 4 the test 3 (callees) + 3 (roots) > 4 empties the graph of all its edges."""
from findings.c13_common import graphs_for

SRC = {"src/t.f90": "module m\ncontains\nsubroutine p0\ncall p1\nend subroutine\nsubroutine p1\ncall p2\n"
                    "end subroutine\nsubroutine p2\ncall p0\nend subroutine\nend module m\n"}


def demonstrate(verbose=True):
    g = graphs_for(SRC, graph_maxnodes=4)
    nodes, edges, gobj = g["call~~graph~~CallGraph"]
    g6 = graphs_for(SRC, graph_maxnodes=6)
    nodes6, edges6, _ = g6["call~~graph~~CallGraph"]
    if verbose:
        print("graph_maxnodes=4: nodes", nodes, "edges", edges, "truncated", gobj.truncated)
        print("graph_maxnodes=6: nodes", nodes6, "edges", edges6)
        print("expected: the 3 edges in both cases (3 nodes <= 4)")
    return len(nodes) == 3 and not edges and len(edges6) == 3


if __name__ == "__main__":
    print("defect present:", demonstrate())
