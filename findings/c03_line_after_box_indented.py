"""C03 finding (doc-line-after-box-indented; repaired in /repo, kept as a regression demo):
`_process_admonitions` indented
`range(start_idx + 1, min(len(lines), end_idx + 1))`, i.e. the line AT the end index as well:
 (a) after the `@endnote` line has been deleted that index holds the following line, so
     `@note` / `a` / `@endnote` / `b` renders `b` inside the Note box;
 (b) for a box closed by the next box the end index is the next box's start line, whose (already
     rewritten) title line gets indented: `@note a` / `@warning b` renders an EMPTY Warning box
     nested inside the Note, with `b` outside the Warning box.
Documented behaviour: a box ends at `@end<type>`, at an empty line, at a new note, or at the end.
No word is lost (the word-level statement of C03 still holds); the box structure is wrong.
Run with PYTHONPATH=/repo:/verif.  Exit status 1 while the defect is present."""
import sys

import bs4

from ford._markdown import MetaMarkdown
from harness.impl.c03doc import run_admon

md = MetaMarkdown()
bad = False

lines = ["@note", "a", "@endnote", "b"]
html = md.reset().convert("\n".join(lines))
soup = bs4.BeautifulSoup(html, "html.parser")
box = soup.find("div", class_="alert")
print("input:", lines, "\npreprocessed:", run_admon(lines), "\nhtml:", html.replace("\n", "\\n"))
inside = "b" in box.get_text().split()
print("`b` rendered inside the Note box:", inside)
bad = bad or inside

lines = ["@note a", "@warning b"]
html = md.reset().convert("\n".join(lines))
soup = bs4.BeautifulSoup(html, "html.parser")
boxes = soup.find_all("div", class_="alert")
nested = any(b.find_parent("div", class_="alert") is not None for b in boxes)
warning = soup.find("div", class_="alert-warning")
print("input:", lines, "\npreprocessed:", run_admon(lines), "\nhtml:", html.replace("\n", "\\n"))
print("Warning box nested in the Note box:", nested, "; `b` inside the Warning box:",
      "b" in (warning.get_text().split() if warning else []))
bad = bad or nested
sys.exit(1 if bad else 0)
