"""C14, repaired defect `columns-73-text-in-documentation` (fixed in /repo f4ed78d) - regression demo:
exits 0 on the repaired code, 1 if the defect is back.  What the defect was:

Fixed form with the line length limited (FORD's default): columns 73 and beyond are no part of a line.  For a
statement line longer than 72 columns ford.fixed2free2 cuts the line at column 72 and appends the rest as a comment
"!<rest>" at column 73.  When the line already ends in an inline documentation comment, that comment runs to the end
of the converted line, so the rest - after blanks and a '!' - becomes part of the documentation; in particular a
'!!' comment that runs over column 72 is documented as "...that r      !un before convergence".  When the line has
no inline comment and the rest begins with '!', the converted "!!..." is a documentation comment of its own; with
'>' or '*' FORD aborts ("!>" / "!*" are documentation marks that may not stand inline).

The free-form equivalent of the file (each line cut at column 72) documents `n` with the text up to column 72.

Run:  PYTHONPATH=/repo:/verif /venv/bin/python findings/c14_seq_doc.py      (exit 1 if the defect is present)
"""
import os
import tempfile

from ford.reader import FortranReader

CASES = [
    (["      integer :: n  !! the number of iterations of the outer loop that run before convergence"],
     ["integer :: n", "!! the number of iterations of the outer loop that r"]),
    (["      integer :: m !! the count".ljust(72) + "SEQ00010"], ["integer :: m", "!! the count"]),
    (["      x = 1".ljust(72) + "!note", "      y = 2"], ["x = 1", "y = 2"]),
]


def read(lines, fixed):
    d = tempfile.mkdtemp()
    p = os.path.join(d, "t.f" if fixed else "t.f90")
    with open(p, "w") as f:
        f.write("".join(l + "\n" for l in lines))
    try:
        return [x.rstrip() for x in FortranReader(p, "!", ">", "*", "|", fixed=fixed)]
    except Exception as e:  # noqa
        return ["EXC:" + type(e).__name__]
    finally:
        os.remove(p)
        os.rmdir(d)


if __name__ == "__main__":
    bad = 0
    for lines, want in CASES:
        got = read(lines, True)
        free = read([l[6:72] for l in lines], False)
        print("fixed form :", lines)
        print("  read (.f)  :", got)
        print("  read (.f90) of the lines cut at column 72:", free, "| expected:", want)
        if got != want:
            bad += 1
    print("DEFECT PRESENT" if bad else "defect absent")
    raise SystemExit(1 if bad else 0)
