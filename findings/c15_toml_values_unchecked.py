"""C15 finding toml-values-unchecked (repaired): values of fpm.toml [extra.ford] are converted and
checked against the declared type like those of the project file: a number or flag given as text
is converted (max_frontpage_items = "4" gives 4, as `max_frontpage_items: 4` does), a value that
cannot be converted or is of another type is rejected with a message naming the option.
Regression witness.  Run with PYTHONPATH=<repo>.  Exit 1 while the defect is present."""
import contextlib, io, os, pathlib, shutil, sys, tempfile
os.environ["FORD_DEBUGGING"] = "1"
import ford


def command_line(md="", toml=None, config=None):
    """the `ford` command line (ford.initialize) on a scratch project: the settings object or the exception"""
    root = pathlib.Path(os.path.realpath(tempfile.mkdtemp(prefix="c15demo_")))
    (root / "proj.md").write_text(md)
    if toml is not None:
        (root / "fpm.toml").write_text(toml)
    old, argv = os.getcwd(), sys.argv
    os.chdir(root)
    sys.argv = ["ford", "proj.md"] + ([f"--config={config}"] if config else [])
    try:
        with contextlib.redirect_stdout(io.StringIO()), contextlib.redirect_stderr(io.StringIO()):
            settings, _ = ford.initialize()
        return settings
    except BaseException as e:  # noqa -- the exception is the outcome
        return e
    finally:
        os.chdir(old)
        sys.argv = argv
        shutil.rmtree(root)


def show(label, r, *names):
    if isinstance(r, BaseException):
        print(f"{label:52} -> {type(r).__name__}: {r}")
    else:
        print(f"{label:52} -> accepted: " + ", ".join(f"{n} = {getattr(r, n)!r}" for n in names))


def rejected_naming(r, name):
    return isinstance(r, BaseException) and f"'{name}'" in str(r)


HEAD = "[extra.ford]\npreprocess = false\n"
a = command_line(toml=HEAD + 'max_frontpage_items = "4"\nsearch = "FALSE"\n')
m = command_line(md="preprocess: false\nmax_frontpage_items: 4\nsearch: FALSE\n")
b = command_line(toml=HEAD + 'graph = "maybe"\n')
c = command_line(toml=HEAD + "graph = 3\n")
d = command_line(toml=HEAD + "max_frontpage_items = true\n")
e = command_line(toml=HEAD + "project = 5\n")
show('fpm.toml  max_frontpage_items = "4", search = "FALSE"', a, "max_frontpage_items", "search")
show("markdown  max_frontpage_items: 4, search: FALSE", m, "max_frontpage_items", "search")
show('fpm.toml  graph = "maybe"', b, "graph")
show("fpm.toml  graph = 3", c, "graph")
show("fpm.toml  max_frontpage_items = true", d, "max_frontpage_items")
show("fpm.toml  project = 5", e, "project")
ok = (not isinstance(a, BaseException) and not isinstance(m, BaseException)
      and a.max_frontpage_items == m.max_frontpage_items == 4 and type(a.max_frontpage_items) is int
      and a.search is False and m.search is False
      and rejected_naming(b, "graph") and rejected_naming(c, "graph")
      and rejected_naming(d, "max_frontpage_items") and rejected_naming(e, "project"))
sys.exit(0 if ok else 1)
