"""C15 finding toml-values-unchecked: fpm.toml values are neither converted nor type-checked.
Run with PYTHONPATH=/repo.  Exit 1 while the defect is present."""
import contextlib, io, os, pathlib, shutil, sys, tempfile
os.environ["FORD_DEBUGGING"] = "1"
import ford


def effective(md="", toml=None, config=None, cwd_elsewhere=False, files=()):
    """ford.load_settings + ford.parse_arguments on a scratch project; returns the settings object
    or the exception"""
    root = pathlib.Path(os.path.realpath(tempfile.mkdtemp(prefix="c15demo_")))
    proj, other = root / "p", root / "w"
    proj.mkdir(); other.mkdir()
    (proj / "proj.md").write_text(md)
    if toml is not None:
        (proj / "fpm.toml").write_text(toml)
    for rel in files:
        (proj / rel).parent.mkdir(parents=True, exist_ok=True)
        (proj / rel).write_text("module m_%s\nend module\n" % pathlib.Path(rel).stem)
    old = os.getcwd()
    os.chdir(other if cwd_elsewhere else proj)
    directory = "../p" if cwd_elsewhere else ""
    try:
        with contextlib.redirect_stdout(io.StringIO()) as out:
            docs, settings = ford.load_settings(md, directory, "proj.md")
            settings, docs = ford.parse_arguments({"project_file": None, "config": config}, docs, settings, directory)
            extra = CALLBACK(settings, proj) if CALLBACK else None
        return settings, out.getvalue(), extra
    except BaseException as e:  # noqa
        return e, "", None
    finally:
        os.chdir(old)
        shutil.rmtree(root)


CALLBACK = None

t, _, _ = effective(toml='[extra.ford]\npreprocess = false\nmax_frontpage_items = "4"\ngraph = "maybe"\n')
m, _, _ = effective(md="preprocess: false\nmax_frontpage_items: 4\n")
g, _, _ = effective(md="preprocess: false\ngraph: maybe\n")
print("fpm.toml  max_frontpage_items:", repr(getattr(t, "max_frontpage_items", t)), " graph:", repr(getattr(t, "graph", t)))
print("markdown  max_frontpage_items:", repr(getattr(m, "max_frontpage_items", m)))
print("markdown  graph: maybe ->", repr(g))
ok = isinstance(t, BaseException) or (t.max_frontpage_items == 4 and isinstance(t.graph, bool))
sys.exit(0 if ok else 1)
