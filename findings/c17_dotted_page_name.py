"""C17 finding: v1.2.md and v1.md are both written to v1.html.  Exit 1 while the defect is present.
Run with PYTHONPATH=/repo."""
import os, sys, tempfile, pathlib, shutil, io, contextlib
os.environ["FORD_DEBUGGING"] = "1"
from ford.pagetree import get_page_tree
from ford._markdown import MetaMarkdown

d = pathlib.Path(tempfile.mkdtemp())
try:
    (d / "pages").mkdir()
    for name in ["index.md", "v1.2.md", "v1.md"]:
        (d / "pages" / name).write_text(f"title: {name}\n\ntext\n")
    with contextlib.redirect_stdout(io.StringIO()):
        node = get_page_tree(d / "pages", [], d / "doc", MetaMarkdown())
    paths = [str(n.path) for n in node]
    print(paths)
    sys.exit(0 if len(set(paths)) == len(paths) and "v1.2.html" in paths else 1)
finally:
    shutil.rmtree(d)
