"""C15 finding exclude-depends-on-cwd: 'exclude: src/a.f90' removes the file only when FORD is
started in the project directory.  Run with PYTHONPATH=/repo.  Exit 1 while present."""
import contextlib, io, os, pathlib, shutil, sys, tempfile
os.environ["FORD_DEBUGGING"] = "1"
import ford


def effective(md="", toml=None, config=None, cwd_elsewhere=False, files=()):
    """ford.load_settings + ford.parse_arguments on a scratch project; returns the settings object
    or the exception"""
    root = pathlib.Path(os.path.realpath(tempfile.mkdtemp(prefix="c15demo_")))
    proj, other = root / "p", root / "w"
    proj.mkdir(); other.mkdir()
    (proj / "proj.md").write_text(md)
    if toml is not None:
        (proj / "fpm.toml").write_text(toml)
    for rel in files:
        (proj / rel).parent.mkdir(parents=True, exist_ok=True)
        (proj / rel).write_text("module m_%s\nend module\n" % pathlib.Path(rel).stem)
    old = os.getcwd()
    os.chdir(other if cwd_elsewhere else proj)
    directory = "../p" if cwd_elsewhere else ""
    try:
        with contextlib.redirect_stdout(io.StringIO()) as out:
            docs, settings = ford.load_settings(md, directory, "proj.md")
            settings, docs = ford.parse_arguments({"project_file": None, "config": config}, docs, settings, directory)
            extra = CALLBACK(settings, proj) if CALLBACK else None
        return settings, out.getvalue(), extra
    except BaseException as e:  # noqa
        return e, "", None
    finally:
        os.chdir(old)
        shutil.rmtree(root)


CALLBACK = None

import ford.fortran_project as fp
CALLBACK = lambda st, proj: sorted(str(pathlib.Path(f).relative_to(proj)) for f in fp.find_all_files(st))
md = "preprocess: false\nsrc_dir: src\nexclude: src/a.f90\n"
files = ("src/a.f90", "src/b.f90")
here = effective(md=md, files=files)[2]
away = effective(md=md, files=files, cwd_elsewhere=True)[2]
print("started in the project directory:", here)
print("started in another directory    :", away)
sys.exit(0 if here == away else 1)
