"""C04 finding (blank-in-identifier): generic identifiers are compared as raw text.
`interface operator (+)` (blank before the parenthesis is legal Fortran) and `public :: operator(+)`
name the same identifier; FORD leaves the interface private in a default-private module.
Run with PYTHONPATH=/repo:/verif.  Exit status 1 while the defect is present."""
import sys
from findings.c04_common import permissions

SRC = """module m
  private
  public :: operator(+)
  interface operator (+)
    module procedure f
  end interface
contains
  function f(a, b)
    integer, intent(in) :: a, b
    integer :: f
    f = a
  end function f
end module m
"""
perms, *_ = permissions(SRC)
for row in perms:
    print(row)
ops = [p for k, n, p in perms if n.lower().startswith("operator")]
sys.exit(0 if ops == ["public"] else 1)
