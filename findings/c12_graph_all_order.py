"""C12 finding, FIXED by the graph_all repair (/verif/scratch/c12fix_graph_all.patch); on a tree with the repair
demonstrate() returns False (regression demo).
Before: with graph: true the inherited copies of a generic binding (FortranType.correlate: copy.copy(bp) per child,
never sent through markdown) were first asked for their identifier by GraphManager.graph_all's
sorted(self.internal_procedures | self.bound_procedures) - a set of objects hashed by id(): the anchors
boundprocedure-show~2/~3/~4 on c1.html, c2.html, c3.html permuted from run to run (PYTHONHASHSEED fixed)."""
from findings.c12_common import runs, explain

SRC = {"src/m.f90": "module m\n  type :: base\n  contains\n    procedure :: show_a\n    procedure :: show_b\n"
                    "    generic :: show => show_a, show_b\n  end type base\n"
                    + "".join(f"  type, extends(base) :: c{k}\n  end type c{k}\n" for k in (1, 2, 3))
                    + "contains\n  subroutine show_a(self)\n    class(base) :: self\n  end subroutine show_a\n"
                      "  subroutine show_b(self, n)\n    class(base) :: self\n    integer :: n\n"
                      "  end subroutine show_b\nend module m\n"}


def demonstrate(verbose=True):
    if verbose:
        print("graph: true, eight runs, all with PYTHONHASHSEED=3, same directory")
    _, clean = explain(runs(SRC, {"graph": "true"}, [3] * 8), [], verbose)
    return not clean


if __name__ == "__main__":
    print("defect present:", demonstrate())
