"""C09 finding `doc-link-relative-to-cwd`: a [[ref]] in the docstring of a type declared inside a procedure is made relative to the working directory.
Run with:  PYTHONPATH=/repo PATH=/venv/bin:$PATH /venv/bin/python /verif/findings/c09_doc_link_relative_to_cwd.py
Exit status 1 while the defect is present, 0 once it is gone."""
import os, pathlib, re, shutil, subprocess, sys, tempfile

FILES = {'src/m.f90': 'module m\nend module m\n', 'src/s.f90': 'subroutine s()\n  type :: inner_t\n    !! see [[m]] here\n    integer :: z\n  end type inner_t\nend subroutine s\n'}
OPTIONS = {'proc_internals': 'true'}

d = pathlib.Path(tempfile.mkdtemp())
try:
    for rel, text in FILES.items():
        (d / rel).parent.mkdir(parents=True, exist_ok=True)
        (d / rel).write_text(text)
    opts = {"project": "demo", "src_dir": "./src", "output_dir": "./doc", "preprocess": "false", "graph": "false"}
    opts.update(OPTIONS)
    (d / "proj.md").write_text("---\n" + "".join(f"{k}: {v}\n" for k, v in opts.items()) + "---\n\nDemo.\n")
    env = dict(os.environ, FORD_DEBUGGING="1")
    p = subprocess.run([sys.executable, "-m", "ford", "proj.md"], cwd=d, env=env, text=True,
                       stdout=subprocess.PIPE, stderr=subprocess.STDOUT)
    doc = d / "doc"
    html = (doc / "proc" / "s.html").read_text()
    links = re.findall(r'href="([^"]*module/m\.html)"', html)
    bad = [l for l in links if not (doc / "proc" / l).resolve().exists()]
    print("proc/s.html links to module m:", links, "| dead:", bad)
    sys.exit(1 if bad else 0)
finally:
    shutil.rmtree(d)
