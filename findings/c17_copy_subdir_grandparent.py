"""C17 finding: copy_subdir is tested against the list of the index.md one level further up.
pages/index.md says 'copy_subdir: images'; pages/sub/index.md does not name 'images'; pages/sub/images
has an index.md and a page p.md.  Expected: sub/images/index.html and sub/images/p.html exist.
Observed: the directory is skipped (no pages, nothing copied).  Exit 1 while the defect is present.
Run with PYTHONPATH=/repo."""
import os, sys, tempfile, pathlib, shutil, io, contextlib
os.environ["FORD_DEBUGGING"] = "1"
from ford.pagetree import get_page_tree
from ford._markdown import MetaMarkdown

d = pathlib.Path(tempfile.mkdtemp())
try:
    T = "title: %s\n\ntext\n"
    for rel, text in {
        "index.md": "title: Top\ncopy_subdir: images\n\ntext\n",
        "sub/index.md": "title: Sub\ncopy_subdir: other\n\ntext\n",
        "sub/images/index.md": T % "Images", "sub/images/p.md": T % "P",
        "sub/other/o.txt": "o\n",
    }.items():
        p = d / "pages" / rel
        p.parent.mkdir(parents=True, exist_ok=True)
        p.write_text(text)
    with contextlib.redirect_stdout(io.StringIO()):
        node = get_page_tree(d / "pages", [], d / "doc", MetaMarkdown())
    paths = [str(n.path) for n in node]
    print(paths)
    sys.exit(0 if "sub/images/p.html" in paths else 1)
finally:
    shutil.rmtree(d)
