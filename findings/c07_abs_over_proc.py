"""C07 finding: procedure(x) prefers any visible procedure over a closer abstract interface.
Subroutine a declares an abstract interface x; `procedure(x), pointer :: p` inside a designates that
interface (it hides the module procedure x).  FORD resolves it to the module procedure, because
all_procs (procedures of every enclosing scope) is searched before all_absinterfaces.
Run with PYTHONPATH=/repo.  Exit status 1 while the defect is present."""
import os, sys, tempfile, pathlib, shutil
os.environ["FORD_DEBUGGING"] = "1"
import ford.sourceform as sf
from ford.fortran_project import Project
from ford.settings import ProjectSettings

SRC = """module m
contains
  subroutine x()
  end subroutine x
  subroutine a()
    abstract interface
      subroutine x(i)
        integer :: i
      end subroutine x
    end interface
    procedure(x), pointer :: p
  end subroutine a
end module m
"""
d = pathlib.Path(tempfile.mkdtemp())
try:
    (d / "src").mkdir()
    (d / "src" / "m.f90").write_text(SRC)
    sf.namelist = sf.NameSelector()
    p = Project(ProjectSettings(src_dir=[d / "src"], preprocess=False, dbg=True, proc_internals=True))
    m = p.modules[0]
    a = [s for s in m.subroutines if s.name == "a"][0]
    v, ai = a.variables[0], a.absinterfaces[0]
    p.correlate()
    t = v.proto[0]
    print("procedure(x) in a ->", type(t).__name__, f"{t.parent.name}.{t.name}", "(expected: the abstract interface x of a)")
    sys.exit(0 if t is ai else 1)
finally:
    shutil.rmtree(d)
