"""C08 finding: FORMAT_RE demands white space between FORMAT and '(' : `100 format(i5, 3(f8.2, a))` is scanned for calls and records the repeat count '3' as a called procedure.
Run with PYTHONPATH=/repo:/verif.  Exit status 1 while the defect is present."""
from findings.c08_common import main

main("format-without-blank")
