"""C06 finding: a rename in a USE statement without ONLY is ignored.
(1) `use ma, bar => foo`: Fortran makes ma's foo accessible as bar only; FORD has foo and no bar.
(2) `use ma` + `use ma, only: bar => foo` in one scope: Fortran 2018 14.2.2 gives the entity the
    identifier bar only (foo is a use-name of a rename for that module); FORD keeps foo as well.
Run with PYTHONPATH=/repo.  Exit status 1 while the defect is present."""
import os, sys, tempfile, pathlib, shutil
os.environ["FORD_DEBUGGING"] = "1"
import ford.sourceform as sf
from ford.fortran_project import Project
from ford.settings import ProjectSettings

MA = "module ma\n  integer :: foo\n  type :: ta1\n    integer :: c\n  end type\nend module ma\n"
MB = "module mb\n  use ma, bar => foo\nend module mb\n"
MC = "module mc\n  use ma\n  use ma, only: bar => foo\nend module mc\n"

d = pathlib.Path(tempfile.mkdtemp())
try:
    (d / "src").mkdir()
    (d / "src" / "ma.f90").write_text(MA)
    (d / "src" / "mb.f90").write_text(MB)
    if MC:
        (d / "src" / "mc.f90").write_text(MC)
    sf.namelist = sf.NameSelector()
    p = Project(ProjectSettings(src_dir=[d / "src"], preprocess=False, dbg=True))
    p.correlate()
    mods = {m.name: m for m in p.modules}
    for m in p.modules:
        print(m.name, "all_vars:", sorted(m.all_vars), "all_types:", sorted(m.all_types), "pub_vars:", sorted(m.pub_vars))
    v1 = sorted(mods["mb"].all_vars)
    v2 = sorted(mods["mc"].all_vars)
    ok1 = v1 == ["bar"]
    ok2 = v2 == ["bar"]
    print("(1) expected [bar], got", v1, "| (2) expected [bar], got", v2)
    sys.exit(0 if ok1 and ok2 else 1)
finally:
    shutil.rmtree(d)
