"""C12 finding, FIXED by 80d6c91 (`sorted(find_all_files(settings))`); on a tree with the fix every run below
is byte-identical and demonstrate() returns False for all three keys (regression demo).

Before the fix the output depended on the order in which a *set* of paths is iterated (PYTHONHASHSEED, and
the absolute location of the project).

ford/fortran_project.py find_all_files returns a set; Project.__init__ iterates it, so every project-level
list is in that order.  Consequences shown here:
  file-order-anchors       equally named entities: which one is `variable-x`, which `variable-x~2`, `~3`
  file-order-search-db     search/search_database.json lists the pages in that order (no name clash needed)
  file-order-modules-json  modules.json (externalize: true) lists the modules in that order
Expected: identical output for every seed.  Patch: iterate `sorted(find_all_files(settings))`."""
from findings.c12_common import runs, explain  # noqa: E402

CLASH = {f"src/{c}.f90": f"module m{c}\n  integer :: x\n    !! doc of x in {c}\nend module m{c}\n" for c in "abc"}
FOUR = {f"src/{c}.f90": f"module m{c}\n  integer :: v{c}\n    !! doc of v{c}\nend module m{c}\n" for c in "abcd"}


def demonstrate(verbose=True):
    seeds = list(range(1, 7))
    res = {}
    for key, files, opts in (("file-order-anchors", CLASH, {"search": "false"}),
                             ("file-order-search-db", FOUR, {"search": "true"}),
                             ("file-order-modules-json", FOUR, {"externalize": "true"})):
        if verbose:
            print(f"--- {key}: options {opts}, PYTHONHASHSEED = {seeds}")
        needed, clean = explain(runs(files, opts, seeds), [], verbose)
        res[key] = not clean          # any difference at all
    return res


if __name__ == "__main__":
    print("defects present:", demonstrate())
