"""shared by the C13 demonstrations: build FORD's graphs for a few source files"""
import os
import sys

sys.path.insert(0, os.path.dirname(os.path.dirname(os.path.abspath(__file__))))
os.environ.setdefault("FORD_DEBUGGING", "1")


def graphs_for(files, **settings):
    from harness.impl import fordrun as F
    from harness.impl import graphs as GI
    show = settings.pop("show_proc_parent", False)
    w = F.Work(files)
    try:
        p = F.parse_project(w.root, graph=True, **settings)
        gm, log = GI.build_graphs(p, show)
        out = {}
        for gobj, roots in log:
            nodes, edges = GI.parse_dot(gobj.dot.source)
            out[gobj.ident] = (sorted(nodes), sorted((t, h) for t, h, _, _ in edges), gobj)
        return out
    finally:
        w.__exit__()
