"""C07 finding: declarations local to one procedure leak to its siblings and to the host.
Type t is declared inside subroutine a only.  In subroutine b and at module level `type(t)` must stay
unresolved; FORD links both to a's t (all_types of a contained scope is the parent's dictionary
object).  With a module-level type t as well, a's local t replaces it for b and for the module.
Run with PYTHONPATH=/repo.  Exit status 1 while the defect is present."""
import os, sys, tempfile, pathlib, shutil
os.environ["FORD_DEBUGGING"] = "1"
import ford.sourceform as sf
from ford.fortran_project import Project
from ford.settings import ProjectSettings

SRC1 = """module m1
  type(t) :: z
contains
  subroutine a()
    type :: t
      integer :: i
    end type t
  end subroutine a
  subroutine b()
    type(t) :: y
  end subroutine b
end module m1
"""
SRC2 = """module m2
  type :: t
    integer :: j
  end type t
  type(t) :: z
contains
  subroutine a()
    type :: t
      integer :: i
    end type t
  end subroutine a
  subroutine b()
    type(t) :: y
  end subroutine b
end module m2
"""
d = pathlib.Path(tempfile.mkdtemp())
try:
    (d / "src").mkdir()
    (d / "src" / "m1.f90").write_text(SRC1)
    (d / "src" / "m2.f90").write_text(SRC2)
    sf.namelist = sf.NameSelector()
    p = Project(ProjectSettings(src_dir=[d / "src"], preprocess=False, dbg=True, proc_internals=True))
    mods = {m.name: m for m in p.modules}
    subs = {m: {s.name: s for s in mods[m].subroutines} for m in mods}
    yv = {m: subs[m]["b"].variables[0] for m in mods}
    zv = {m: mods[m].variables[0] for m in mods}
    p.correlate()

    def show(x):
        return x if isinstance(x, str) else f"{x.parent.name}.{x.name}"
    y1, z1, y2, z2 = yv["m1"].proto[0], zv["m1"].proto[0], yv["m2"].proto[0], zv["m2"].proto[0]
    print("m1: type(t) in b ->", show(y1), "| at module level ->", show(z1), "(expected: unresolved text)")
    print("m2: type(t) in b ->", show(y2), "| at module level ->", show(z2), "(expected: m2.t)")
    ok = isinstance(y1, str) and isinstance(z1, str) and show(y2) == "m2.t" and show(z2) == "m2.t"
    sys.exit(0 if ok else 1)
finally:
    shutil.rmtree(d)
