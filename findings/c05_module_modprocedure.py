"""C05 finding (module-modprocedure-unfiltered): FortranCodeUnit.prune filtered `modprocedures` only for submodules,
and process_attribs did not visit them.  A separate module procedure implemented with `module procedure name` in the
module that declares its interface was therefore always documented (own page proc/<name>.html, module page, search
index), even when private under display: public; and `public :: name` in a default-private module did not make
the implementation public.
Run with PYTHONPATH=/repo:/verif.  Exit status 1 while the defect is present."""
import sys
from findings.c05_common import site, where

SRC = """module m
  !! module text
  implicit none
  private
  public :: shown
  interface
    module subroutine hidden(a)
      integer, intent(in) :: a
    end subroutine hidden
    module subroutine shown(a)
      integer, intent(in) :: a
    end subroutine shown
  end interface
contains
  module procedure hidden
    !! HIDDENIMPL
  end procedure hidden
  module procedure shown
    !! SHOWNIMPL
  end procedure shown
end module m
"""
pages = site(SRC, display=["public"])
res = {w: where(pages, w) for w in ("HIDDENIMPL", "SHOWNIMPL")}
for k, v in res.items():
    print(k, v)
sys.exit(0 if not res["HIDDENIMPL"] and res["SHOWNIMPL"] else 1)
