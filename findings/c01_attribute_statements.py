"""C01 findings optional-statement, parameter-statement, intent-in-out-statement,
result-attribute-statements-ignored: an attribute statement is not reported like the same
attribute on the declaration.  Run with PYTHONPATH=/repo.  Exit 1 while any is present."""
import contextlib, io, os, shutil, sys, tempfile
os.environ["FORD_DEBUGGING"] = "1"
import ford.sourceform as sf
from ford.settings import ProjectSettings


def parse(text):
    """ford.sourceform.FortranSourceFile on a scratch file; returns the file object or the exception"""
    d = tempfile.mkdtemp(prefix="c01demo_")
    try:
        p = os.path.join(d, "t.f90")
        with open(p, "w") as fh:
            fh.write(text)
        sf.namelist = sf.NameSelector()
        with contextlib.redirect_stdout(io.StringIO()):
            try:
                return sf.FortranSourceFile(p, ProjectSettings(preprocess=False, dbg=True), None, False)
            except BaseException as e:  # noqa
                return e
    finally:
        shutil.rmtree(d)


def module_vars(*lines):
    f = parse("module m\n" + "".join(l + "\n" for l in lines) + "end module m\n")
    return f if isinstance(f, BaseException) else {v.name: v for v in f.modules[0].variables}


def show(v):
    return {k: getattr(v, k) for k in ("vartype", "kind", "strlen", "attribs", "intent", "optional", "parameter",
                                       "initial", "dimension") if getattr(v, k) not in (None, "", [], False)}


f = parse("""subroutine s(b, d)
  integer b
  optional b
  real d
  intent(in out) d
  character(len=5) str
  parameter (str = 'a  b')
end subroutine
subroutine t(b, d)
  integer, optional :: b
  real, intent(in out) :: d
  character(len=5), parameter :: str = 'a  b'
end subroutine
function f() result(r)
  real r
  dimension r(3)
  save r
end function
function g() result(r)
  real, dimension(3), save :: r
end function
""")
s, t = f.subroutines
for u in (s, t):
    print(u.name, "args:", {a.name: show(a) for a in u.args}, "locals:", {v.name: show(v) for v in u.variables})
print("f result:", show(f.functions[0].retvar), "| g result:", show(f.functions[1].retvar))
same = lambda a, b: show(a) == show(b)   # noqa
ok = same(s.args[0], t.args[0]) and same(s.args[1], t.args[1]) and same(s.variables[0], t.variables[0]) and     same(f.functions[0].retvar, f.functions[1].retvar)
sys.exit(0 if ok else 1)
