"""C13 finding: calls to top-level (external) procedures are not resolved, so the call graph draws an extra
grey "unknown procedure" node with the same name beside the documented procedure: a recursive external
subroutine xp0 is drawn as proc~xp0 -> xp0, and xp1 calling xp0 as proc~xp1 -> xp0 (bare name) while proc~xp0
is a separate node; the called-by graph of xp0 is empty."""
from findings.c13_common import graphs_for

SRC = {"src/t.f90": "subroutine xp0()\n  call xp0()\nend subroutine xp0\nsubroutine xp1()\n  call xp0()\nend subroutine xp1\n"}


def demonstrate(verbose=True):
    g = graphs_for(SRC)
    nodes, edges, _ = g["call~~graph~~CallGraph"]
    bn, be, _ = g["proc~~xp0~~CalledByGraph"]
    if verbose:
        print("call graph nodes:", nodes, "edges:", edges)
        print("called-by graph of xp0: nodes", bn, "edges", be)
        print("expected: proc~xp0 -> proc~xp0 and proc~xp1 -> proc~xp0, no bare node xp0")
    return "xp0" in nodes and ("proc~xp1", "proc~xp0") not in edges and ("proc~xp1", "xp0") in edges


if __name__ == "__main__":
    print("defect present:", demonstrate())
