"""C03 finding (doc-text-before-note-dropped; repaired in /repo, kept as a regression demo): the admonition
pre-processor discarded everything
that precedes `@note` (or @warning/@todo/@bug/@history) on the same line, because the start line is
rebuilt from the groups `indent`, `type` and `posttxt` of ADMONITION_RE.search only.
 (a) `alpha beta @note gamma`          -> the words `alpha beta` are not rendered;
 (b) `mail joe@notebook.org now`       -> `mail joe` is lost and a Note box is opened (the pattern
                                          also matches inside words).
Expected: every word of the comment appears once, in order (property C03).
Run with PYTHONPATH=/repo:/verif.  Exit status 1 while the defect is present."""
import re
import sys

import bs4

from ford._markdown import MetaMarkdown
from harness.impl.c03doc import run_admon

md = MetaMarkdown()
bad = False
for line, lost in (("alpha beta @note gamma", ["alpha", "beta"]), ("mail joe@notebook.org now", ["mail", "joe"])):
    pre = run_admon([line])
    html = md.reset().convert(line)
    text = bs4.BeautifulSoup(html, "html.parser").get_text()
    missing = [w for w in lost if not re.search(r"\b%s\b" % w, text)]
    print("input      :", repr(line))
    print("preprocessed:", pre)
    print("html       :", html.replace("\n", "\\n"))
    print("lost words :", missing)
    bad = bad or bool(missing)
sys.exit(1 if bad else 0)
