"""C12 finding, FIXED by the toposort repair (/verif/scratch/c12fix_toposort.patch); on a tree with the repair
demonstrate() returns False (regression demo).  Before the repair: which of two equally named modules becomes module/m.html and which module/m~2.html changes
from run to run even with PYTHONHASHSEED fixed.  Project.correlate calls toposort_flatten(deplist); toposort
yields *sets* of module objects (hashed by id()) and sorts each with FortranBase.__lt__, which is where
`ident` is first requested - so the NameSelector numbers the twins in set-iteration order.
Sorting the source files does not remove it (Coq: C12_sorted_not_enough).
Expected: the same page for the same module in every run.
Patch: request the identifiers in list order before the toposort:
    for mod in chain(self.modules, self.submodules): mod.ident"""
from findings.c12_common import runs, explain

# four pairs of twins: with a single pair about one run in four differs from the first one
SRC = {f"src/{nm}{k}.f90": f"module {nm}\n  integer :: x{nm}{k}\nend module {nm}\n" for nm in "mnpq" for k in "ab"}


def demonstrate(verbose=True):
    if verbose:
        print("eight runs, all with PYTHONHASHSEED=3, same directory")
    needed, clean = explain(runs(SRC, {}, [3] * 8), [], verbose)
    return not clean


if __name__ == "__main__":
    print("defect present:", demonstrate())
