(* Doc/MetaProofs.v — the metadata split: what meta_preprocessor / read_metadata consume is a
   documented header and nothing else; documented headers are consumed with the right values. *)
From Ford Require Import Base.Str Base.StrFacts Doc.Meta.
From Coq Require Import Lia.

(* ---------- specification: the documented header syntax (python-markdown Meta-Data) ---------- *)
Definition key_char (c : ascii) : Prop :=
  is_alpha c = true \/ is_digit c = true \/ c = "_"%char \/ c = "-"%char.
(* up to three blanks, a non-empty keyword, a colon, the value *)
Definition key_line (x : str) : Prop :=
  exists n k v, n <= 3 /\ k <> [] /\ Forall key_char k /\ x = repeat sp n ++ k ++ colon :: v.
(* four or more blanks: another line of the previous keyword's value *)
Definition more_line (x : str) : Prop := exists n v, 4 <= n /\ x = repeat sp n ++ v.
Definition blank_line (x : str) : Prop := Forall (fun c => is_space c = true) x.
Definition fence_line (x : str) : Prop := exists r, x = s "---" ++ r \/ x = s "..." ++ r.
Definition delim_line (x : str) : Prop := blank_line x \/ fence_line x.
Definition meta_or_delim (x : str) : Prop := key_line x \/ more_line x \/ delim_line x.

(* ---------- recognisers against the syntax ---------- *)
Lemma span_sp_spec x n r : span_sp x = (n, r) -> x = repeat sp n ++ r.
Proof.
  revert n r. induction x as [|c x IH]; simpl; intros n r H.
  - injection H as <- <-. reflexivity.
  - destruct (Ascii.eqb c sp) eqn:E.
    + destruct (span_sp x) as [n' r'] eqn:E'. injection H as <- <-.
      apply Ascii.eqb_eq in E. subst c. simpl. f_equal. now apply IH.
    + injection H as <- <-. reflexivity.
Qed.

Lemma span_sp_repeat n r :
  match r with c :: _ => Ascii.eqb c sp = false | [] => True end ->
  span_sp (repeat sp n ++ r) = (n, r).
Proof.
  intros Hr. induction n as [|n IH]; simpl.
  - destruct r as [|c r]; [reflexivity|]. simpl. now rewrite Hr.
  - now rewrite IH.
Qed.

Lemma is_key_ch_spec c : is_key_ch c = true <-> key_char c.
Proof.
  unfold is_key_ch, key_char, is_word. rewrite !orb_true_iff, Nat.eqb_eq, Ascii.eqb_eq.
  split.
  - intros [[[H|H]|H]|H]; auto. right. right. left.
    rewrite <- (ascii_nat_embedding c). unfold code in H. now rewrite H.
  - intros [H|[H|[H|H]]]; auto. left. right. now subst c.
Qed.

Lemma span_key_spec x k r : span_key x = (k, r) -> x = k ++ r /\ Forall key_char k.
Proof.
  revert k r. induction x as [|c x IH]; simpl; intros k r H.
  - injection H as <- <-. auto.
  - destruct (is_key_ch c) eqn:E.
    + destruct (span_key x) as [k' r'] eqn:E'. injection H as <- <-.
      destruct (IH _ _ eq_refl) as [-> Hk]. split; [reflexivity|].
      constructor; [now apply is_key_ch_spec | exact Hk].
    + injection H as <- <-. auto.
Qed.

Lemma span_key_app k c r :
  Forall key_char k -> is_key_ch c = false -> span_key (k ++ c :: r) = (k, c :: r).
Proof.
  intros Hk Hc. induction Hk as [|d k Hd _ IH]; simpl.
  - now rewrite Hc.
  - apply is_key_ch_spec in Hd. now rewrite Hd, IH.
Qed.

Lemma m_meta_key_line x k v : m_meta x = Some (k, v) -> key_line x.
Proof.
  unfold m_meta. destruct (span_sp x) as [n r] eqn:E. destruct (n <=? 3) eqn:En; [|discriminate].
  destruct (span_key r) as [k' r'] eqn:Ek. destruct k' as [|c k']; [discriminate|].
  destruct r' as [|d r']; [discriminate|]. destruct (Ascii.eqb d colon) eqn:Ed; [|discriminate].
  intros _. apply Ascii.eqb_eq in Ed. subst d. apply span_sp_spec in E.
  destruct (span_key_spec _ _ _ Ek) as [-> Hk]. apply Nat.leb_le in En.
  exists n, (c :: k'), r'. repeat split; auto. discriminate.
Qed.

Lemma m_more_more_line x v : m_more x = Some v -> more_line x.
Proof.
  unfold m_more. destruct (span_sp x) as [n r] eqn:E. destruct (4 <=? n) eqn:En; [|discriminate].
  intros _. apply span_sp_spec in E. apply Nat.leb_le in En. now exists n, r.
Qed.

Lemma is_blank_spec x : is_blank x = true <-> blank_line x.
Proof. unfold is_blank, blank_line. rewrite forallb_forall, Forall_forall. reflexivity. Qed.

Lemma starts_with_spec p x : starts_with p x = true <-> exists r, x = p ++ r.
Proof.
  revert x. induction p as [|a p IH]; intros x; simpl.
  - split; [intros _; now exists x | reflexivity].
  - destruct x as [|b x].
    + split; [discriminate | intros [r H]; discriminate].
    + rewrite andb_true_iff, Ascii.eqb_eq, IH. split.
      * intros [-> [r ->]]. now exists r.
      * intros [r H]. injection H as -> ->. split; [reflexivity | now exists r].
Qed.

Lemma m_end_spec x : m_end x = true <-> fence_line x.
Proof.
  unfold m_end, fence_line. rewrite orb_true_iff, !starts_with_spec. split.
  - intros [[r H]|[r H]]; exists r; auto.
  - intros [r [H|H]]; [left|right]; now exists r.
Qed.

Lemma m_begin_fence x : m_begin x = true -> fence_line x.
Proof. unfold m_begin. rewrite starts_with_spec. intros [r H]. exists r. now left. Qed.

(* ---------- the split (soundness: nothing else is consumed) ---------- *)
(* header lines proper: keyword or continuation lines that are not delimiters *)
Definition entry_line (x : str) : Prop := (key_line x \/ more_line x) /\ ~ delim_line x.

Lemma not_delim x : is_blank x || m_end x = false -> ~ delim_line x.
Proof.
  intros H [Hb|Hf].
  - apply is_blank_spec in Hb. rewrite Hb in H. discriminate.
  - apply m_end_spec in Hf. rewrite Hf, orb_true_r in H. discriminate.
Qed.

Lemma meta_loop_shape l : forall key meta m b,
  meta_loop key meta l = (m, b) ->
  exists ms tm, l = ms ++ tm ++ b /\ Forall entry_line ms /\
                (tm = [] \/ exists x, tm = [x] /\ delim_line x).
Proof.
  induction l as [|x r IH]; intros key meta m b H; simpl in H.
  - injection H as <- <-. exists [], []. auto.
  - destruct (is_blank x || m_end x) eqn:Ed.
    + injection H as <- <-. exists [], [x]. repeat split; auto. right. exists x. split; auto.
      apply orb_true_iff in Ed as [E|E]; [left; now apply is_blank_spec | right; now apply m_end_spec].
    + destruct (m_meta x) as [[k v]|] eqn:Em.
      * destruct (IH _ _ _ _ H) as (ms & tm & -> & Hms & Htm).
        exists (x :: ms), tm. repeat split; auto. constructor; auto.
        split; [left; eapply m_meta_key_line; eauto | now apply not_delim].
      * destruct (m_more x) as [v|] eqn:Emo; [destruct key as [k|]|].
        -- destruct (IH _ _ _ _ H) as (ms & tm & -> & Hms & Htm).
           exists (x :: ms), tm. repeat split; auto. constructor; auto.
           split; [right; eapply m_more_more_line; eauto | now apply not_delim].
        -- injection H as <- <-. exists [], []. auto.
        -- injection H as <- <-. exists [], []. auto.
Qed.

(* l = [opening fence] ++ entries ++ [one closing delimiter] ++ body *)
Definition header_shape (bg ms tm : list str) : Prop :=
  (bg = [] \/ exists x, bg = [x] /\ fence_line x) /\ Forall entry_line ms /\
  (tm = [] \/ exists x, tm = [x] /\ delim_line x).

Theorem meta_shape l m b :
  meta_preprocessor l = (m, b) ->
  exists bg ms tm, l = bg ++ ms ++ tm ++ b /\ header_shape bg ms tm.
Proof.
  unfold meta_preprocessor. destruct l as [|x r].
  - intros H. injection H as <- <-. exists [], [], []. repeat split; auto.
  - destruct (m_begin x) eqn:Eb; intros H.
    + destruct (meta_loop_shape _ _ _ _ _ H) as (ms & tm & -> & Hms & Htm).
      exists [x], ms, tm. repeat split; auto. right. exists x. split; auto. now apply m_begin_fence.
    + destruct (meta_loop_shape _ _ _ _ _ H) as (ms & tm & E & Hms & Htm).
      exists [], ms, tm. repeat split; auto.
Qed.

Lemma header_meta_or_delim bg ms tm :
  header_shape bg ms tm -> Forall meta_or_delim (bg ++ ms ++ tm).
Proof.
  intros (Hbg & Hms & Htm). apply Forall_app. split; [|apply Forall_app; split].
  - destruct Hbg as [->|(x & -> & Hx)]; constructor; auto. right. right. now right.
  - eapply Forall_impl; [|exact Hms]. intros x [[H|H] _]; [now left | right; now left].
  - destruct Htm as [->|(x & -> & Hx)]; constructor; auto. right. now right.
Qed.

Theorem meta_split l m b :
  meta_preprocessor l = (m, b) -> exists h, l = h ++ b /\ Forall meta_or_delim h.
Proof.
  intros H. destruct (meta_shape _ _ _ H) as (bg & ms & tm & -> & Hs).
  exists (bg ++ ms ++ tm). split; [now rewrite <- !app_assoc | now apply header_meta_or_delim].
Qed.

(* a comment whose first line is neither a fence, a keyword line nor blank is body entirely *)
Theorem meta_no_header x r :
  m_begin x = false -> is_blank x || m_end x = false -> m_meta x = None ->
  meta_preprocessor (x :: r) = ([], x :: r).
Proof.
  intros Hb Hd Hm. unfold meta_preprocessor. rewrite Hb. simpl. rewrite Hd, Hm.
  now destruct (m_more x).
Qed.

(* ---------- read_metadata ---------- *)
Theorem read_metadata_split fields l m b :
  read_metadata fields l = (m, b) -> exists h, l = h ++ b /\ Forall meta_or_delim h.
Proof.
  unfold read_metadata. destruct l as [|x r].
  - intros H. injection H as <- <-. now exists [].
  - unfold read_metadata_pre.
    destruct (forallb is_blank r); [|apply meta_split].
    destruct (before_colon x) as [p|] eqn:Ep; [destruct (str_in (lower (strip p)) fields) eqn:Ef|];
      try apply meta_split.
    (* the protecting empty line: consumed alone, the comment is the body *)
    unfold meta_preprocessor. simpl. intros H. injection H as <- <-. now exists [].
Qed.

(* the one-line special case: a comment of one line (followed by any number of blank lines) with
   ':' whose first part is not a field name is shown entirely *)
Theorem read_metadata_oneline fields x rest p :
  before_colon x = Some p -> str_in (lower (strip p)) fields = false ->
  forallb is_blank rest = true ->
  read_metadata fields (x :: rest) = ([], x :: rest).
Proof. intros Hp Hf Hb. unfold read_metadata, read_metadata_pre. now rewrite Hb, Hp, Hf. Qed.

(* the former witness of doc-oneline-colon-alt-block: the doc lines of `!* Note: alt one line`
   closed by a blank line *)
Example oneline_alt_block_fixed :
  read_metadata [s "author"; s "display"] [s " Note: alt one line"; []]
  = ([], [s " Note: alt one line"; []]).
Proof. reflexivity. Qed.

(* ---------- completeness: a documented header is consumed, with its values ---------- *)
Inductive hline := HKey (n : nat) (k v : str) | HMore (n : nat) (v : str).
Definition render_h (h : hline) : str :=
  match h with
  | HKey n k v => repeat sp n ++ k ++ colon :: v
  | HMore n v => repeat sp n ++ v
  end.
Definition nonblank (x : str) : Prop := exists c, In c x /\ is_space c = false.
Definition wf_hline (h : hline) : Prop :=
  match h with
  | HKey n k v => n <= 3 /\ k <> [] /\ Forall key_char k /\ (n = 0 -> starts_with (s "---") (k ++ colon :: v) = false)
  | HMore n v => 4 <= n /\ nonblank v
  end.
(* keys lower-cased, values stripped, continuation lines go to the latest key *)
Fixpoint spec_meta (key : option str) (meta : mdict) (H : list hline) : mdict :=
  match H with
  | [] => meta
  | HKey _ k v :: H' => spec_meta (Some (lower k)) (md_add (lower k) (strip v) meta) H'
  | HMore _ v :: H' =>
    match key with
    | Some k => spec_meta key (md_add k (strip v) meta) H'
    | None => meta
    end
  end.

Lemma is_key_ch_not_space c : is_key_ch c = true -> is_space c = false.
Proof.
  destruct c as [[] [] [] [] [] [] [] []]; vm_compute; intros H; first [reflexivity | discriminate H].
Qed.

Lemma key_char_not_space c : key_char c -> is_space c = false.
Proof. intros H. apply is_key_ch_not_space. now apply is_key_ch_spec. Qed.

Lemma key_char_not_sp c : key_char c -> Ascii.eqb c sp = false.
Proof.
  intros H. apply key_char_not_space in H. destruct (Ascii.eqb c sp) eqn:E; [|reflexivity].
  apply Ascii.eqb_eq in E. subst c. discriminate.
Qed.

Lemma colon_not_key : is_key_ch colon = false.
Proof. reflexivity. Qed.

Lemma forallb_app_false a c b : is_space c = false -> forallb is_space (a ++ c :: b) = false.
Proof.
  intros Hc. rewrite forallb_app. simpl. rewrite Hc. now rewrite andb_false_r.
Qed.

Lemma starts_repeat_sp p n r :
  match p with c :: _ => Ascii.eqb c sp = false | [] => False end -> 0 < n ->
  starts_with p (repeat sp n ++ r) = false.
Proof.
  destruct p as [|c p]; [tauto|]. intros Hc Hn. destruct n; [lia|]. simpl.
  rewrite Hc. reflexivity.
Qed.

Lemma key_line_parsed n k v :
  wf_hline (HKey n k v) ->
  let x := render_h (HKey n k v) in
  is_blank x || m_end x = false /\ m_meta x = Some (k, strip v).
Proof.
  intros (Hn & Hk & Hkc & Hd). simpl. destruct k as [|c k]; [congruence|].
  assert (Hc : key_char c) by now inversion Hkc.
  split.
  - apply orb_false_iff. split.
    + unfold is_blank. rewrite forallb_app. simpl. rewrite (key_char_not_space c Hc).
      now rewrite andb_false_r.
    + unfold m_end. destruct n as [|n].
      * change (repeat sp 0 ++ (c :: k) ++ colon :: v) with ((c :: k) ++ colon :: v).
        rewrite (Hd eq_refl). cbn [orb]. cbn [app s list_ascii_of_string starts_with].
        destruct (Ascii.eqb "." c) eqn:E; [|reflexivity]. apply Ascii.eqb_eq in E. subst c.
        apply is_key_ch_spec in Hc. discriminate.
      * rewrite !starts_repeat_sp; auto; try lia; reflexivity.
  - unfold m_meta. rewrite span_sp_repeat by (simpl; now apply key_char_not_sp).
    apply Nat.leb_le in Hn. rewrite Hn.
    change ((c :: k) ++ colon :: v) with ((c :: k) ++ colon :: v).
    rewrite span_key_app by (auto using colon_not_key). now rewrite Ascii.eqb_refl.
Qed.

Lemma span_sp_ge n v : exists m r, span_sp (repeat sp n ++ v) = (m, r) /\ n <= m /\
  repeat sp n ++ v = repeat sp m ++ r /\ strip r = strip v.
Proof.
  induction n as [|n IH]; simpl.
  - destruct (span_sp v) as [m r] eqn:E. exists m, r. repeat split; try lia.
    + now apply span_sp_spec.
    + apply span_sp_spec in E. subst v. unfold strip. f_equal.
      clear. induction m; simpl; auto.
  - destruct IH as (m & r & E & Hm & Hr & Hs). rewrite E. exists (S m), r. repeat split; auto; try lia.
    simpl. now rewrite Hr.
Qed.

Lemma more_line_parsed n v :
  wf_hline (HMore n v) ->
  let x := render_h (HMore n v) in
  is_blank x || m_end x = false /\ m_meta x = None /\ m_more x = Some (strip v).
Proof.
  intros (Hn & c & Hin & Hc). simpl. split; [|split].
  - apply orb_false_iff. split.
    + unfold is_blank. apply in_split in Hin as (a & b & ->). rewrite app_assoc.
      now apply forallb_app_false.
    + unfold m_end. rewrite !starts_repeat_sp; auto; try lia; reflexivity.
  - unfold m_meta. destruct (span_sp_ge n v) as (m & r & E & Hm & _). rewrite E.
    assert (m <=? 3 = false) as -> by (apply Nat.leb_gt; lia). reflexivity.
  - unfold m_more. destruct (span_sp_ge n v) as (m & r & E & Hm & _ & Hs). rewrite E.
    assert (4 <=? m = true) as -> by (apply Nat.leb_le; lia). now rewrite Hs.
Qed.

Definition wf_header (key : option str) (H : list hline) : Prop :=
  Forall wf_hline H /\ match H, key with HMore _ _ :: _, None => False | _, _ => True end.

Lemma meta_loop_header H : forall key meta body,
  wf_header key H ->
  meta_loop key meta (map render_h H ++ [] :: body) = (spec_meta key meta H, body).
Proof.
  induction H as [|h H IH]; intros key meta body [Hwf Hfirst].
  - reflexivity.
  - inversion Hwf as [|? ? Hh HH]; subst. destruct h as [n k v|n v].
    + destruct (key_line_parsed n k v Hh) as [Hd Hm]. cbn [map app]. cbn [meta_loop].
      rewrite Hd, Hm. cbn [spec_meta]. apply IH. split; auto. now destruct H as [|[] ?].
    + destruct key as [k|]; [|contradiction].
      destruct (more_line_parsed n v Hh) as (Hd & Hm & Hmo). cbn [map app]. cbn [meta_loop].
      rewrite Hd, Hm, Hmo. cbn [spec_meta]. apply IH. split; auto. now destruct H as [|[] ?].
Qed.

(* a header of documented lines, closed by an empty line: all of it is metadata, the body is untouched *)
Theorem meta_header H body :
  wf_header None H -> H <> [] ->
  meta_preprocessor (map render_h H ++ [] :: body) = (spec_meta None [] H, body).
Proof.
  intros Hwf Hne. destruct H as [|h H]; [congruence|]. unfold meta_preprocessor. cbn [map app].
  assert (m_begin (render_h h) = false) as ->.
  { destruct Hwf as [Hf Hk]. inversion Hf as [|? ? Hh _]; subst. destruct h as [n k v|]; [|contradiction].
    destruct (key_line_parsed n k v Hh) as [Hd _]. apply orb_false_iff in Hd as [_ Hd].
    unfold m_end in Hd. apply orb_false_iff in Hd as [Hd _]. exact Hd. }
  apply (meta_loop_header (h :: H)). exact Hwf.
Qed.

(* the same between "---" fences *)
Theorem meta_header_fenced H body :
  wf_header None H ->
  meta_preprocessor (s "---" :: map render_h H ++ s "---" :: body) = (spec_meta None [] H, body).
Proof.
  intros Hwf. unfold meta_preprocessor. change (m_begin (s "---")) with true. cbv iota.
  revert Hwf. generalize (@None str) as key. generalize (@nil (str * list str)) as meta.
  induction H as [|h H IH]; intros meta key [Hwf Hfirst].
  - reflexivity.
  - inversion Hwf as [|? ? Hh HH]; subst. destruct h as [n k v|n v].
    + destruct (key_line_parsed n k v Hh) as [Hd Hm]. cbn [map app]. cbn [meta_loop].
      rewrite Hd, Hm. cbn [spec_meta]. apply IH. split; auto. now destruct H as [|[] ?].
    + destruct key as [k|]; [|contradiction].
      destruct (more_line_parsed n v Hh) as (Hd & Hm & Hmo). cbn [map app]. cbn [meta_loop].
      rewrite Hd, Hm, Hmo. cbn [spec_meta]. apply IH. split; auto. now destruct H as [|[] ?].
Qed.

(* ---------- non-vacuity ---------- *)
Example meta_split_ex :
  meta_preprocessor [s "author: me"; s "    and you"; s "Display: private"; []; s "body: text"; s "more"]
  = ([(s "author", [s "me"; s "and you"]); (s "display", [s "private"])], [s "body: text"; s "more"]).
Proof. reflexivity. Qed.

Example meta_header_ex :
  wf_header None [HKey 0 (s "Author") (s " me "); HMore 4 (s "and you"); HKey 2 (s "since") (s "1.0")]
  /\ spec_meta None [] [HKey 0 (s "Author") (s " me "); HMore 4 (s "and you"); HKey 2 (s "since") (s "1.0")]
     = [(s "author", [s "me"; s "and you"]); (s "since", [s "1.0"])].
Proof.
  split; [|reflexivity]. split; [|exact I].
  repeat constructor; simpl; try lia; try discriminate;
    try (right; left; reflexivity); try (left; reflexivity).
  exists "a"%char. split; [now left | reflexivity].
Qed.

Example read_metadata_oneline_ex :
  read_metadata [s "author"; s "display"] [s "Note: this is text"; []; s "  "]
  = ([], [s "Note: this is text"; []; s "  "])
  /\ read_metadata [s "author"; s "display"] [s "Author: me"] = ([(s "author", [s "me"])], []).
Proof. split; reflexivity. Qed.

(* ---------- why every entity of a declaration needs its own copy of the comment ---------- *)
(* scanning the body again is not the identity: a body whose first line has the shape `word: text`
   would lose it (and, with FORD's in-place scan of a shared list, so would the other entities) *)
Theorem meta_rescan_not_identity :
  exists l m b, meta_preprocessor l = (m, b) /\ m <> [] /\ meta_preprocessor b <> ([], b).
Proof.
  exists [s "deprecated: true"; []; s "Caution: words"; s "more"],
         [(s "deprecated", [s "true"])], [s "Caution: words"; s "more"].
  split; [reflexivity|]. split; [discriminate|]. vm_compute. discriminate.
Qed.

(* it is the identity exactly when the body does not itself begin like a header *)
Theorem meta_rescan_identity x r :
  m_begin x = false -> is_blank x || m_end x = false -> m_meta x = None ->
  meta_preprocessor (x :: r) = ([], x :: r).
Proof. exact (meta_no_header x r). Qed.
