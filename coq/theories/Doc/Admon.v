(* Doc/Admon.v — ford/md_admonition.py AdmonitionPreprocessor as pure functions over lines:
   the recognisers for ADMONITION_RE / END_RE (used with [.search], flags IGNORECASE|VERBOSE),
   _find_admonitions (one pass, returns the (type, start_idx, end_idx) records or raises) and
   _process_admonitions (reverse order, insertion / deletion by index exactly as the code does).
     ADMONITION_RE = (?P<indent>\s STAR) (?<!\S)@(?P<type>note|warning|todo|bug|history) (?P<posttxt>. STAR)
     END_RE        = \s STAR @end(?P<type>note|warning|todo|bug|history) \s STAR (?P<posttxt>. STAR)?
   [search] returns the leftmost match. The first "@type" occurrence that the look-behind admits
   (line start or a whitespace character before the "@") is at some position q; the leftmost
   start of a match is the beginning of the maximal whitespace run that ends at q, so group
   "indent" is that run and everything before it is not part of the match.
   As repaired: run = _split_leading_text (a start marker that follows other text goes on a line
   of its own), then the two passes; end_idx is always the first line after the box.
   Also the word-level specification used by the theorems (words, strip_markers, note_titles).
   Executable definitions only; proofs in Doc/AdmonProofs.v. 7-bit ASCII. *)
From Ford Require Import Base.Str.

Definition at_ch : ascii := "@"%char.
Definition adm_types : list str := [s "note"; s "warning"; s "todo"; s "bug"; s "history"].
Definition INDENT : str := s "    ".

(* ---------- recognisers ---------- *)

(* case-insensitive literal prefix [p] (given in lower case): matched text and the rest *)
Fixpoint take_ci (p x : str) : option (str * str) :=
  match p, x with
  | [], _ => Some ([], x)
  | a :: p', b :: x' =>
    if Ascii.eqb a (lower_ch b) then
      match take_ci p' x' with Some (m, r) => Some (b :: m, r) | None => None end
    else None
  | _ :: _, [] => None
  end.

(* the alternation: first alternative that matches (no type is a prefix of another) *)
Fixpoint first_type (ts : list str) (x : str) : option (str * str) :=
  match ts with
  | [] => None
  | t :: ts' => match take_ci t x with Some r => Some r | None => first_type ts' x end
  end.

(* "@type" / "@endtype" at the current position: (type as written, rest) *)
Definition start_here (x : str) : option (str * str) :=
  match x with
  | c :: x' => if Ascii.eqb c at_ch then first_type adm_types x' else None
  | [] => None
  end.
Definition end_here (x : str) : option (str * str) :=
  match x with
  | c :: x' =>
    if Ascii.eqb c at_ch then
      match take_ci (s "end") x' with Some (_, r) => first_type adm_types r | None => None end
    else None
  | [] => None
  end.

(* leftmost position where [here] succeeds: (text before, type, text after) *)
Fixpoint scan (here : str -> option (str * str)) (x : str) : option (str * str * str) :=
  match here x with
  | Some (ty, r) => Some ([], ty, r)
  | None =>
    match x with
    | [] => None
    | c :: x' => match scan here x' with Some (b, ty, r) => Some (c :: b, ty, r) | None => None end
    end
  end.

(* the start marker needs a look-behind: [ok] says that the previous character is a whitespace
   character or that the position is the start of the line *)
Fixpoint scan_start (ok : bool) (x : str) : option (str * str * str) :=
  match (if ok then start_here x else None) with
  | Some (ty, r) => Some ([], ty, r)
  | None =>
    match x with
    | [] => None
    | c :: x' =>
      match scan_start (is_space c) x' with Some (b, ty, r) => Some (c :: b, ty, r) | None => None end
    end
  end.

(* b = pre ++ ws where ws is the maximal trailing whitespace run *)
Fixpoint split_tail_ws (b : str) : str * str :=
  match b with
  | [] => ([], [])
  | c :: b' =>
    let '(p, w) := split_tail_ws b' in
    match p with
    | [] => if is_space c then ([], c :: w) else ([c], w)
    | _ => (c :: p, w)
    end
  end.

(* ADMONITION_RE.search(line): (text before the match, indent, type, posttxt) *)
Definition adm_search (x : str) : option (str * str * str * str) :=
  match scan_start true x with
  | Some (b, ty, post) => let '(pre, ind) := split_tail_ws b in Some (pre, ind, ty, post)
  | None => None
  end.

(* END_RE.search(line): (text before the match = END_RE.sub("", line), type, posttxt) *)
Definition end_search (x : str) : option (str * str * str) :=
  match scan end_here x with
  | Some (b, ty, r) => Some (fst (split_tail_ws b), ty, lstrip r)
  | None => None
  end.

Definition all_space (x : str) : bool := forallb is_space x.
Definition is_empty (x : str) : bool := match x with [] => true | _ => false end.

(* str.capitalize() *)
Definition capitalize (x : str) : str :=
  match x with [] => [] | c :: r => upper_ch c :: lower r end.

(* ---------- results ---------- *)
Inductive aerr := EEndNoStart | ETypeMismatch | EMissingStart | EIndex.
Inductive result (A : Type) := Ok (a : A) | Err (e : aerr).
Arguments Ok {A} a.
Arguments Err {A} e.
Definition bind {A B} (r : result A) (f : A -> result B) : result B :=
  match r with Ok a => f a | Err e => Err e end.

(* ---------- _find_admonitions ---------- *)
(* current_admonition: (type, start_idx, end_idx) with end_idx = None for -1 *)
Definition cur_t := (str * nat * option nat)%type.
Definition adm := (str * nat * nat)%type.

Definition close_at (c : cur_t) (idx : nat) : adm :=
  let '(ty, st, eo) := c in (ty, st, match eo with Some e => e | None => idx end).

(* the for-loop over enumerate(lines) from index [idx] on, with the loop state (admonitions,
   current_admonition), and the epilogue *)
Fixpoint find_loop (idx : nat) (acc : list adm) (cur : option cur_t) (l : list str)
  : result (list adm) :=
  match l with
  | [] =>
    match cur with
    | Some c => Ok (acc ++ [close_at c idx])   (* end_idx = len(lines) *)
    | None => Ok acc
    end
  | line :: rest =>
    (* if match := ADMONITION_RE.search(line) *)
    let '(acc1, cur1) :=
      match adm_search line with
      | Some (_, _, ty, _) =>
        (match cur with Some c => acc ++ [close_at c idx] | None => acc end, Some (ty, idx, None))
      | None => (acc, cur)
      end in
    (* if end := END_RE.search(line) *)
    match end_search line with
    | Some (_, ety, _) =>
      match cur1 with
      | None => Err EEndNoStart
      | Some (ty, st, _) =>
        if str_eqb (lower ety) (lower ty)
        then find_loop (S idx) (acc1 ++ [(ty, st, idx)]) None rest
        else Err ETypeMismatch
      end
    | None =>
      match cur1 with
      | None => find_loop (S idx) acc1 None rest
      | Some (ty, st, eo) =>
        let eo' := match eo with
                   | None => if is_empty line then Some idx else None
                   | Some _ => eo
                   end in
        find_loop (S idx) acc1 (Some (ty, st, eo')) rest
      end
    end
  end.

Definition find_admonitions (l : list str) : result (list adm) := find_loop 0 [] None l.

(* ---------- list surgery by index (Python list semantics, indices within range) ---------- *)
Definition insert_at {A} (i : nat) (x : A) (l : list A) : list A := firstn i l ++ x :: skipn i l.
Definition delete_at {A} (i : nat) (l : list A) : list A := firstn i l ++ skipn (S i) l.
Definition set_at {A} (i : nat) (x : A) (l : list A) : list A := firstn i l ++ x :: skipn (S i) l.

Definition indent1 (x : str) : str := match x with [] => [] | _ => INDENT ++ x end.
(* for idx in range(a, b): if lines[idx] != "": lines[idx] = INDENT + lines[idx] *)
Fixpoint indent_range (a b : nat) (l : list str) {struct l} : list str :=
  match l with
  | [] => []
  | x :: r =>
    match b with
    | 0 => l
    | S b' =>
      match a with
      | 0 => indent1 x :: indent_range 0 b' r
      | S a' => x :: indent_range a' b' r
      end
    end
  end.

Definition title_line (ind ty : str) : str := ind ++ s "@note " ++ capitalize ty.

(* ---------- one iteration of the loop in _process_admonitions ---------- *)
Definition step (a : adm) (lines : list str) : result (list str) :=
  let '(ty, st, en) := a in
  (* if idx < len(lines) and (end := END_RE.search(lines[idx])) *)
  let endm := match nth_error lines en with Some le => end_search le | None => None end in
  let '(lines1, en1) :=
    match endm with
    | Some (pre, _, post) =>
      let l' := match post with
                | [] => lines
                | _ => insert_at (en + 2) post (insert_at (en + 1) [] lines)
                end in
      let l'' := set_at en pre l' in
      if all_space pre then (delete_at en l'', en) else (l'', S en)
    | None => (lines, en)
    end in
  (* the lines up to, not including, the first line after the box *)
  let end_line := Nat.min (length lines1) en1 in
  let lines2 := indent_range (S st) end_line lines1 in
  match nth_error lines2 st with
  | None => Err EIndex
  | Some ls =>
    match adm_search ls with
    | None => Err EMissingStart
    | Some (_, ind, _, post) =>
      let lines3 := set_at st (title_line ind ty) lines2 in
      Ok (match post with
          | [] => lines3
          | _ => insert_at (S st) (INDENT ++ ind ++ post) lines3
          end)
    end
  end.

(* for admonition in admonitions[::-1] *)
Definition process_admonitions (adms : list adm) (lines : list str) : result (list str) :=
  fold_left (fun acc a => bind acc (step a)) (rev adms) (Ok lines).

(* ---------- _split_leading_text ---------- *)
(* pretxt[: len(pretxt) - len(pretxt.lstrip())] *)
Definition lead_ws (x : str) : str := firstn (length x - length (lstrip x)) x.

Definition split_line (x : str) : list str :=
  match adm_search x with
  | Some (c :: pre, _, ty, post) => [c :: pre; lead_ws (c :: pre) ++ at_ch :: ty ++ post]
  | _ => [x]
  end.
Definition split_leading_text (l : list str) : list str := flat_map split_line l.

(* the two passes on the lines they are given *)
Definition run_passes (l : list str) : result (list str) :=
  bind (find_admonitions l) (fun adms => process_admonitions adms l).

Definition run (l : list str) : result (list str) := run_passes (split_leading_text l).

(* ---------- specification: words ---------- *)
(* str.split(): maximal runs of non-whitespace characters *)
Fixpoint words_line (x : str) : list str :=
  match x with
  | [] => []
  | c :: x' =>
    if is_space c then words_line x'
    else
      match x' with
      | [] => [[c]]
      | d :: _ =>
        if is_space d then [c] :: words_line x'
        else match words_line x' with w :: ws => (c :: w) :: ws | [] => [[c]] end
      end
  end.
Definition words (l : list str) : list str := flat_map words_line l.

(* marker tokens, compared as whole words, case-insensitively *)
Definition start_tokens : list str := map (fun t => at_ch :: t) adm_types.
Definition end_tokens : list str := map (fun t => at_ch :: s "end" ++ t) adm_types.
Definition is_start_tok (w : str) : bool := str_in (lower w) start_tokens.
Definition is_end_tok (w : str) : bool := str_in (lower w) end_tokens.

(* the "@endtype" tokens disappear *)
Definition strip_markers (ws : list str) : list str := filter (fun w => negb (is_end_tok w)) ws.
(* every "@type" token becomes the two words "@note" "Type" (the line python-markdown's
   admonition block processor recognises; "Type" is displayed as the box title) *)
Definition note_title (w : str) : list str :=
  if is_start_tok w then [s "@note"; capitalize (tl w)] else [w].
Definition note_titles (ws : list str) : list str := flat_map note_title ws.

Definition spec_words (l : list str) : list str := note_titles (strip_markers (words l)).

(* ---------- the region in which the word theorem holds ---------- *)
(* a line given to the two passes is clean when its markers are whole whitespace-delimited words,
   a start marker is the first word of the line, and there is at most one start and one end
   marker on it *)
Definition next_is_space_or_end (x : str) : bool :=
  match x with [] => true | c :: _ => is_space c end.
Definition is_none {A} (o : option A) : bool := match o with None => true | Some _ => false end.

Definition start_clean (x : str) : bool :=
  match scan_start true x with
  | None => true
  | Some (b, _, post) =>
    all_space b                                  (* nothing but blanks before "@type" *)
    && next_is_space_or_end post                 (* "@type" ends a word *)
    && is_none (scan_start false post)           (* no second start marker *)
  end.

Definition end_clean (x : str) : bool :=
  match scan end_here x with
  | None => true
  | Some (b, _, r) =>
    (is_empty b || negb (is_empty (snd (split_tail_ws b))))   (* "@endtype" starts a word *)
    && next_is_space_or_end r                                  (* and ends one *)
    && is_none (scan end_here r)                               (* no second end marker *)
    && is_none (scan_start false r)                            (* no start marker after it *)
  end.

Definition piece_clean (x : str) : bool := start_clean x && end_clean x.
(* a line of the comment is clean when the pieces _split_leading_text makes of it are: text may
   precede a start marker *)
Definition line_clean (x : str) : bool := forallb piece_clean (split_line x).
Definition admon_ok (l : list str) : bool := forallb line_clean l.
