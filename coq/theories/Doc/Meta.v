(* Doc/Meta.v — ford/utils.py meta_preprocessor and the pre-step of
   ford/sourceform.py FortranBase.read_metadata, as pure functions over lines.
   Recognisers written from the pattern text (DOTSTAR stands for ".*", which cannot be written
   inside a Coq comment when followed by a parenthesis):
     META_RE      = ^[ ]{0,3}(?P<key>[A-Za-z0-9_-]+):\s*(?P<value>DOTSTAR)
     META_MORE_RE = ^[ ]{4,}(?P<value>DOTSTAR)
     BEGIN_RE     = ^-{3}(\sDOTSTAR)?
     END_RE       = ^(-{3}|\.{3})(\sDOTSTAR)?
   all used with [.match] (anchored at 0, no anchor at the end), on lines without newline.
   Executable definitions only; proofs in Doc/MetaProofs.v. *)
From Ford Require Import Base.Str.

Definition sp : ascii := " "%char.
Definition colon : ascii := ":"%char.
Definition dash : ascii := "-"%char.
Definition dot : ascii := "."%char.

(* number of leading ' ' characters and the remainder *)
Fixpoint span_sp (x : str) : nat * str :=
  match x with
  | c :: x' => if Ascii.eqb c sp then let '(n, r) := span_sp x' in (S n, r) else (0, x)
  | [] => (0, [])
  end.

(* [A-Za-z0-9_-] *)
Definition is_key_ch (c : ascii) : bool := is_word c || Ascii.eqb c dash.

Fixpoint span_key (x : str) : str * str :=
  match x with
  | c :: x' => if is_key_ch c then let '(k, r) := span_key x' in (c :: k, r) else ([], x)
  | [] => ([], [])
  end.

(* line.strip() == "" *)
Definition is_blank (x : str) : bool := forallb is_space x.

(* META_RE.match(line): Some (key, value.strip()) *)
Definition m_meta (x : str) : option (str * str) :=
  let '(n, r) := span_sp x in
  if n <=? 3 then
    match span_key r with
    | (c :: k, d :: r') => if Ascii.eqb d colon then Some (c :: k, strip r') else None
    | _ => None
    end
  else None.

(* META_MORE_RE.match(line): Some value.strip() *)
Definition m_more (x : str) : option str :=
  let '(n, r) := span_sp x in
  if 4 <=? n then Some (strip r) else None.

(* BEGIN_RE.match / END_RE.match: the optional group may be empty and nothing anchors the end,
   so the match succeeds iff the line starts with the three characters *)
Definition m_begin (x : str) : bool := starts_with (s "---") x.
Definition m_end (x : str) : bool := starts_with (s "---") x || starts_with (s "...") x.

(* meta: defaultdict(list) in insertion order *)
Definition mdict := list (str * list str).
Fixpoint md_add (k v : str) (m : mdict) : mdict :=
  match m with
  | [] => [(k, [v])]
  | (k', vs) :: m' => if str_eqb k k' then (k', vs ++ [v]) :: m' else (k', vs) :: md_add k v m'
  end.

(* the while-loop; [key] is None until the first key line *)
Fixpoint meta_loop (key : option str) (meta : mdict) (l : list str) : mdict * list str :=
  match l with
  | [] => (meta, [])
  | x :: r =>
    if is_blank x || m_end x then (meta, r)
    else
      match m_meta x with
      | Some (k, v) => let k' := lower k in meta_loop (Some k') (md_add k' v meta) r
      | None =>
        match m_more x, key with
        | Some v, Some k => meta_loop key (md_add k v meta) r
        | _, _ => (meta, x :: r)
        end
      end
  end.

Definition meta_preprocessor (l : list str) : mdict * list str :=
  match l with
  | x :: r => if m_begin x then meta_loop None [] r else meta_loop None [] l
  | [] => ([], [])
  end.

(* ---- FortranBase.read_metadata, the part before meta.update ----
   [fields] = the EntitySettings field names. A one-line comment (one line followed by any
   number of blank lines, as repaired) that contains ':' and whose text before the first ':'
   (stripped, lower-cased) is not a field name is protected by an empty first line. *)
Fixpoint before_colon (x : str) : option str :=
  match x with
  | [] => None
  | c :: x' => if Ascii.eqb c colon then Some []
               else match before_colon x' with Some p => Some (c :: p) | None => None end
  end.

Definition read_metadata_pre (fields : list str) (l : list str) : list str :=
  match l with
  | x :: rest =>
    (* nlines == 1: every line after the first is blank (trailing empty doc lines are ignored) *)
    if forallb is_blank rest then
      match before_colon x with
      | Some p => if str_in (lower (strip p)) fields then l else [] :: l
      | None => l
      end
    else l
  | [] => l
  end.

Definition read_metadata (fields : list str) (l : list str) : mdict * list str :=
  match l with
  | [] => ([], [])
  | _ => meta_preprocessor (read_metadata_pre fields l)
  end.
