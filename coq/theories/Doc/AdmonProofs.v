(* Doc/AdmonProofs.v — the admonition pre-processor neither drops, duplicates nor reorders words
   (outside the recorded region), raises on unmatched end markers, and indents the inside of a box. *)
From Ford Require Import Base.Str Base.StrFacts Doc.Admon.
From Coq Require Import Lia.

Local Open Scope list_scope.

Ltac app_norm := repeat (rewrite <- app_assoc || rewrite <- app_comm_cons); cbn [app]; reflexivity.

(* ====================================================================== *)
(* 1. words of a line                                                      *)
(* ====================================================================== *)
Definition blank (w : str) : Prop := Forall (fun c => is_space c = true) w.
Definition solid (w : str) : Prop := Forall (fun c => is_space c = false) w.

Lemma all_space_blank w : all_space w = true <-> blank w.
Proof. unfold all_space, blank. rewrite forallb_forall, Forall_forall. reflexivity. Qed.

Lemma words_blank_app w x : blank w -> words_line (w ++ x) = words_line x.
Proof. intros H. induction H as [|c w Hc _ IH]; simpl; [reflexivity|]. now rewrite Hc. Qed.

Lemma words_blank w : blank w -> words_line w = [].
Proof. intros H. rewrite <- (app_nil_r w). now rewrite words_blank_app. Qed.

Lemma words_cons_space c x : is_space c = true -> words_line (c :: x) = words_line x.
Proof. intros H. simpl. now rewrite H. Qed.

Lemma words_cons_solid c d x :
  is_space c = false ->
  words_line (c :: d :: x) =
  if is_space d then [c] :: words_line (d :: x)
  else match words_line (d :: x) with w :: ws => (c :: w) :: ws | [] => [[c]] end.
Proof. intros H. simpl. rewrite H. reflexivity. Qed.

Lemma words_single c : is_space c = false -> words_line [c] = [[c]].
Proof. intros H. simpl. now rewrite H. Qed.

Lemma words_nonempty c x : is_space c = false -> words_line (c :: x) <> [].
Proof.
  intros Hc. destruct x as [|d x]; [now rewrite words_single|].
  rewrite words_cons_solid by exact Hc.
  destruct (is_space d); [discriminate|]. destruct (words_line (d :: x)); discriminate.
Qed.

Lemma words_solid_app t x :
  t <> [] -> solid t -> next_is_space_or_end x = true -> words_line (t ++ x) = t :: words_line x.
Proof.
  intros Hne Hs Hx. induction Hs as [|c t Hc Hs IH]; [congruence|].
  destruct t as [|d t].
  - destruct x as [|e x]; [simpl app; now rewrite words_single|].
    simpl app. rewrite words_cons_solid by exact Hc. simpl in Hx. now rewrite Hx.
  - assert (Hd : is_space d = false) by now inversion Hs.
    change ((c :: d :: t) ++ x) with (c :: d :: t ++ x).
    rewrite words_cons_solid by exact Hc. rewrite Hd.
    change (d :: t ++ x) with ((d :: t) ++ x). rewrite IH by discriminate. reflexivity.
Qed.

Lemma words_app_r a b :
  next_is_space_or_end b = true -> words_line (a ++ b) = words_line a ++ words_line b.
Proof.
  intros Hb. induction a as [|c a IH]; [reflexivity|].
  destruct (is_space c) eqn:Hc.
  - change ((c :: a) ++ b) with (c :: a ++ b). now rewrite !words_cons_space.
  - destruct a as [|d a].
    + rewrite words_solid_app; [|discriminate|repeat constructor; exact Hc|exact Hb].
      now rewrite words_single.
    + change ((c :: d :: a) ++ b) with (c :: d :: a ++ b).
      rewrite !words_cons_solid by exact Hc.
      change (d :: a ++ b) with ((d :: a) ++ b). rewrite IH.
      destruct (is_space d) eqn:Hd; [reflexivity|].
      destruct (words_line (d :: a)) as [|w ws] eqn:E; [|reflexivity].
      exfalso. now apply (words_nonempty d a Hd).
Qed.

Lemma words_app_sp a c b :
  is_space c = true -> words_line (a ++ c :: b) = words_line a ++ words_line b.
Proof.
  intros Hc. rewrite words_app_r by (simpl; exact Hc). f_equal. now apply words_cons_space.
Qed.

(* a ++ ws ++ t ++ x where the token t starts a word: [a] is empty or [ws] is not *)
Lemma words_token a ws t x :
  blank ws -> (a = [] \/ ws <> []) -> t <> [] -> solid t -> next_is_space_or_end x = true ->
  words_line (a ++ ws ++ t ++ x) = words_line a ++ t :: words_line x.
Proof.
  intros Hws Hor Hne Hs Hx. destruct Hor as [->|Hw].
  - simpl. now rewrite words_blank_app, words_solid_app.
  - destruct ws as [|c ws]; [congruence|]. inversion Hws as [|? ? Hc Hws']; subst.
    change ((c :: ws) ++ t ++ x) with (c :: ws ++ t ++ x).
    rewrite words_app_sp by exact Hc. now rewrite words_blank_app, words_solid_app.
Qed.

Lemma words_token0 ws t x :
  blank ws -> t <> [] -> solid t -> next_is_space_or_end x = true ->
  words_line (ws ++ t ++ x) = t :: words_line x.
Proof. intros. now rewrite words_blank_app, words_solid_app. Qed.

Lemma words_lstrip x : words_line (lstrip x) = words_line x.
Proof.
  induction x as [|c x IH]; [reflexivity|]. cbn [lstrip]. destruct (is_space c) eqn:E.
  - rewrite (words_cons_space c x E). exact IH.
  - reflexivity.
Qed.

Lemma lstrip_next x : lstrip x = [] \/ exists c r, lstrip x = c :: r /\ is_space c = false.
Proof.
  induction x as [|c x IH]; [now left|]. simpl. destruct (is_space c) eqn:E; auto.
  right. now exists c, x.
Qed.

(* every word is a piece of the line *)
Lemma words_first x : forall c w ws,
  is_space c = false -> words_line (c :: x) = w :: ws -> exists b, c :: x = w ++ b.
Proof.
  induction x as [|d x IH]; intros c w ws Hc.
  - rewrite words_single by exact Hc. intros E. injection E as <- _. now exists [].
  - rewrite words_cons_solid by exact Hc. destruct (is_space d) eqn:Hd.
    + intros E. injection E as <- _. now exists (d :: x).
    + destruct (words_line (d :: x)) as [|w0 ws0] eqn:E0; intros E; injection E as <- _.
      * now exists (d :: x).
      * destruct (IH d w0 ws0 Hd E0) as [b ->]. now exists b.
Qed.

Lemma words_in x : forall w, In w (words_line x) -> exists a b, x = a ++ w ++ b.
Proof.
  induction x as [|c x IH]; intros w Hin; [contradiction|].
  destruct (is_space c) eqn:Hc.
  - rewrite words_cons_space in Hin by exact Hc.
    destruct (IH _ Hin) as (a & b & ->). now exists (c :: a), b.
  - destruct (words_line (c :: x)) as [|w0 ws] eqn:E; [contradiction|].
    destruct Hin as [<-|Hin].
    + destruct (words_first x c w0 ws Hc E) as [b ->]. now exists [], b.
    + (* a later word is a word of the tail *)
      destruct x as [|d x].
      * rewrite words_single in E by exact Hc. injection E as _ <-. contradiction.
      * rewrite words_cons_solid in E by exact Hc. destruct (is_space d) eqn:Hd.
        -- injection E as _ <-. destruct (IH _ Hin) as (a & b & ->). now exists (c :: a), b.
        -- destruct (words_line (d :: x)) as [|w1 ws1] eqn:E1.
           ++ injection E as _ <-. contradiction.
           ++ injection E as _ <-. destruct (IH w (or_intror Hin)) as (a & b & ->).
              now exists (c :: a), b.
Qed.

(* a line is blank, or starts (after blanks) with a word that is followed by a blank or the end *)
Lemma words_decomp x :
  blank x \/
  exists ws t r, x = ws ++ t ++ r /\ blank ws /\ solid t /\ t <> [] /\ next_is_space_or_end r = true.
Proof.
  induction x as [|c x IH]; [left; constructor|].
  destruct (is_space c) eqn:Hc.
  - destruct IH as [Hb|(ws & t & r & -> & Hws & Ht & Hne & Hr)].
    + left. now constructor.
    + right. exists (c :: ws), t, r. repeat split; auto. now constructor.
  - right. destruct IH as [Hb|(ws & t & r & -> & Hws & Ht & Hne & Hr)].
    + exists [], [c], x. repeat split; auto; try discriminate; try constructor; auto.
      destruct Hb as [|d x Hd _]; [reflexivity|exact Hd].
    + destruct ws as [|d ws].
      * exists [], (c :: t), r. repeat split; auto; try discriminate. now constructor.
      * exists [], [c], ((d :: ws) ++ t ++ r).
        split; [reflexivity|]. split; [constructor|]. split; [repeat constructor; exact Hc|].
        split; [discriminate|]. cbn [app next_is_space_or_end]. now inversion Hws.
Qed.

(* ====================================================================== *)
(* 2. the recognisers                                                      *)
(* ====================================================================== *)
Definition typ_ok (ty : str) : Prop := str_in (lower ty) adm_types = true.

Lemma space_lower c : is_space c = true -> lower_ch c = c.
Proof. destruct c as [[] [] [] [] [] [] [] []]; vm_compute; intros H; first [reflexivity | discriminate H]. Qed.

Lemma solid_lower m : solid (lower m) -> solid m.
Proof.
  unfold solid, lower. induction m as [|c m IH]; intros H; [constructor|].
  inversion H as [|? ? Hc Hm]; subst. constructor; auto.
  destruct (is_space c) eqn:E; [|reflexivity]. rewrite (space_lower c E) in Hc. congruence.
Qed.

Lemma lower_at c : lower_ch c = at_ch -> c = at_ch.
Proof. destruct c as [[] [] [] [] [] [] [] []]; vm_compute; intros H; first [reflexivity | discriminate H]. Qed.

Lemma str_in_spec x l : str_in x l = true <-> In x l.
Proof.
  induction l as [|y l IH]; simpl; [split; [discriminate|tauto]|].
  rewrite orb_true_iff, str_eqb_eq, IH. split; intros [H|H]; auto; left; congruence.
Qed.

Lemma typ_cases ty : typ_ok ty ->
  lower ty = s "note" \/ lower ty = s "warning" \/ lower ty = s "todo" \/ lower ty = s "bug"
  \/ lower ty = s "history".
Proof.
  unfold typ_ok. rewrite str_in_spec. simpl. intros [H|[H|[H|[H|[H|[]]]]]]; auto 6.
Qed.

Lemma typ_solid ty : typ_ok ty -> solid ty /\ ty <> [].
Proof.
  intros H. split.
  - apply solid_lower. destruct (typ_cases ty H) as [E|[E|[E|[E|E]]]]; rewrite E;
      repeat constructor.
  - intros ->. destruct (typ_cases [] H) as [E|[E|[E|[E|E]]]]; discriminate E.
Qed.

Lemma take_ci_spec p : forall x m r, take_ci p x = Some (m, r) -> x = m ++ r /\ lower m = p.
Proof.
  induction p as [|a p IH]; intros x m r H; simpl in H.
  - injection H as <- <-. auto.
  - destruct x as [|b x]; [discriminate|]. destruct (Ascii.eqb a (lower_ch b)) eqn:E; [|discriminate].
    destruct (take_ci p x) as [[m' r']|] eqn:E'; [|discriminate]. injection H as <- <-.
    destruct (IH _ _ _ E') as [-> <-]. apply Ascii.eqb_eq in E. subst a. auto.
Qed.

Lemma take_ci_lower m z : take_ci (lower m) (m ++ z) = Some (m, z).
Proof. induction m as [|c m IH]; simpl; [reflexivity|]. now rewrite Ascii.eqb_refl, IH. Qed.

Lemma take_ci_mono p : forall x z, take_ci p x <> None -> take_ci p (x ++ z) <> None.
Proof.
  induction p as [|a p IH]; intros x z H; simpl in *; [discriminate|].
  destruct x as [|b x]; [congruence|]. simpl. destruct (Ascii.eqb a (lower_ch b)); [|congruence].
  specialize (IH x z). destruct (take_ci p x) as [[? ?]|]; [|congruence].
  destruct (take_ci p (x ++ z)) as [[? ?]|]; [discriminate|]. exfalso. now apply IH.
Qed.

Lemma first_type_spec ts : forall x ty r,
  first_type ts x = Some (ty, r) -> x = ty ++ r /\ In (lower ty) ts.
Proof.
  induction ts as [|t ts IH]; intros x ty r H; simpl in H; [discriminate|].
  destruct (take_ci t x) as [[m r']|] eqn:E.
  - injection H as <- <-. destruct (take_ci_spec _ _ _ _ E) as [-> <-]. split; auto. now left.
  - destruct (IH _ _ _ H) as [-> Hin]. split; auto. now right.
Qed.

Lemma first_type_in ts t x : In t ts -> take_ci t x <> None -> first_type ts x <> None.
Proof.
  induction ts as [|t0 ts IH]; intros Hin Ht; [contradiction|]. simpl.
  destruct (take_ci t0 x) as [[? ?]|] eqn:E; [discriminate|].
  destruct Hin as [->|Hin]; [congruence | now apply IH].
Qed.

Lemma first_type_mono ts x z : first_type ts x <> None -> first_type ts (x ++ z) <> None.
Proof.
  induction ts as [|t ts IH]; simpl; [congruence|]. intros H.
  destruct (take_ci t x) as [[? ?]|] eqn:E.
  - assert (H' : take_ci t (x ++ z) <> None) by (apply take_ci_mono; congruence).
    destruct (take_ci t (x ++ z)) as [[? ?]|]; [discriminate|congruence].
  - destruct (take_ci t (x ++ z)) as [[? ?]|]; [discriminate|]. now apply IH.
Qed.

Lemma first_type_typ ty z : typ_ok ty -> first_type adm_types (ty ++ z) <> None.
Proof.
  intros H. apply first_type_in with (t := lower ty).
  - now apply str_in_spec.
  - now rewrite take_ci_lower.
Qed.

(* the five types start with five different letters: the alternation is deterministic *)
Lemma take_ci_hd a p c x : Ascii.eqb a (lower_ch c) = false -> take_ci (s (String a p)) (c :: x) = None.
Proof. intros H. cbn [s list_ascii_of_string take_ci]. now rewrite H. Qed.

Lemma first_type_exact ty z : typ_ok ty -> first_type adm_types (ty ++ z) = Some (ty, z).
Proof.
  intros H.
  destruct (typ_cases ty H) as [E|[E|[E|[E|E]]]]; pose proof E as E0;
    (destruct ty as [|c ty]; [discriminate E|]); injection E as E1 _;
    cbn [first_type adm_types app];
    repeat (rewrite take_ci_hd by (rewrite E1; reflexivity));
    change (c :: ty ++ z) with ((c :: ty) ++ z); rewrite <- E0, take_ci_lower; reflexivity.
Qed.

(* the two "here" matchers *)
Definition start_marker (ty : str) : str := at_ch :: ty.
Definition end_marker (e ty : str) : str := at_ch :: e ++ ty.

Lemma start_here_spec y ty r :
  start_here y = Some (ty, r) -> y = start_marker ty ++ r /\ typ_ok ty.
Proof.
  unfold start_here. destruct y as [|c y]; [discriminate|].
  destruct (Ascii.eqb c at_ch) eqn:E; [|discriminate]. apply Ascii.eqb_eq in E. subst c.
  intros H. destruct (first_type_spec _ _ _ _ H) as [-> Hin]. split; [reflexivity|].
  now apply str_in_spec.
Qed.

Lemma end_here_spec y ty r :
  end_here y = Some (ty, r) ->
  exists e, y = end_marker e ty ++ r /\ lower e = s "end" /\ typ_ok ty.
Proof.
  unfold end_here. destruct y as [|c y]; [discriminate|].
  destruct (Ascii.eqb c at_ch) eqn:E; [|discriminate]. apply Ascii.eqb_eq in E. subst c.
  destruct (take_ci (s "end") y) as [[e r']|] eqn:Ee; [|discriminate].
  destruct (take_ci_spec _ _ _ _ Ee) as [-> He]. intros H.
  destruct (first_type_spec _ _ _ _ H) as [-> Hin]. exists e. split; [|split; auto].
  - unfold end_marker. simpl. now rewrite <- app_assoc.
  - now apply str_in_spec.
Qed.

Lemma start_here_marker ty z : typ_ok ty -> start_here (start_marker ty ++ z) = Some (ty, z).
Proof. intros H. unfold start_here, start_marker. simpl. now apply first_type_exact. Qed.

Lemma end_here_marker e ty z :
  lower e = s "end" -> typ_ok ty -> end_here (end_marker e ty ++ z) = Some (ty, z).
Proof.
  intros He H. unfold end_here, end_marker. cbn [app]. rewrite Ascii.eqb_refl.
  rewrite <- app_assoc, <- He, take_ci_lower. now apply first_type_exact.
Qed.

Definition at_first (here : str -> option (str * str)) : Prop :=
  forall c y, c <> at_ch -> here (c :: y) = None.

Lemma start_here_at : at_first start_here.
Proof.
  intros c y H. unfold start_here. destruct (Ascii.eqb c at_ch) eqn:E; [|reflexivity].
  apply Ascii.eqb_eq in E. contradiction.
Qed.
Lemma end_here_at : at_first end_here.
Proof.
  intros c y H. unfold end_here. destruct (Ascii.eqb c at_ch) eqn:E; [|reflexivity].
  apply Ascii.eqb_eq in E. contradiction.
Qed.

Definition here_mono (here : str -> option (str * str)) : Prop :=
  forall y z, here y <> None -> here (y ++ z) <> None.

Lemma start_here_mono : here_mono start_here.
Proof.
  intros y z. unfold start_here. destruct y as [|c y]; [congruence|]. cbn [app].
  destruct (Ascii.eqb c at_ch); [|congruence]. apply first_type_mono.
Qed.

Lemma end_here_mono : here_mono end_here.
Proof.
  intros y z. unfold end_here. destruct y as [|c y]; [congruence|]. cbn [app].
  destruct (Ascii.eqb c at_ch); [|congruence].
  destruct (take_ci (s "end") y) as [[e r]|] eqn:E; [|congruence].
  destruct (take_ci_spec _ _ _ _ E) as [-> He]. rewrite <- app_assoc, <- He, take_ci_lower.
  apply first_type_mono.
Qed.

(* ---- scan: the leftmost occurrence ---- *)
Definition occ (here : str -> option (str * str)) (x : str) : Prop :=
  exists a y, x = a ++ y /\ here y <> None.

Lemma scan_some here x : forall b ty r,
  scan here x = Some (b, ty, r) ->
  exists y, x = b ++ y /\ here y = Some (ty, r) /\
            (forall b1 b2, b = b1 ++ b2 -> b2 <> [] -> here (b2 ++ y) = None).
Proof.
  induction x as [|c x IH]; intros b ty r H.
  - simpl in H. destruct (here []) as [[ty' r']|] eqn:E; [|discriminate].
    injection H as <- <- <-. exists []. repeat split; auto.
    intros b1 b2 Hb. symmetry in Hb. apply app_eq_nil in Hb as [_ ->]. congruence.
  - simpl in H. destruct (here (c :: x)) as [[ty' r']|] eqn:E.
    + injection H as <- <- <-. exists (c :: x). repeat split; auto.
      intros b1 b2 Hb. symmetry in Hb. apply app_eq_nil in Hb as [_ ->]. congruence.
    + destruct (scan here x) as [[[b' ty'] r']|] eqn:Es; [|discriminate].
      injection H as <- <- <-. destruct (IH _ _ _ eq_refl) as (y & -> & Hy & Hleft).
      exists y. repeat split; auto. intros b1 b2 Hb Hne. destruct b1 as [|c1 b1].
      * simpl in Hb. subst b2. exact E.
      * injection Hb as <- Hb. now apply (Hleft b1 b2).
Qed.

Lemma scan_none here x : scan here x = None <-> ~ occ here x.
Proof.
  split.
  - induction x as [|c x IH]; intros H (a & y & Hx & Hy).
    + symmetry in Hx. apply app_eq_nil in Hx as [-> ->]. simpl in H.
      destruct (here []) as [[? ?]|]; [discriminate|congruence].
    + simpl in H. destruct (here (c :: x)) as [[? ?]|] eqn:E; [discriminate|].
      destruct (scan here x) as [[[? ?] ?]|] eqn:Es; [discriminate|].
      destruct a as [|a0 a].
      * simpl in Hx. subst y. congruence.
      * injection Hx as <- ->. apply (IH eq_refl). now exists a, y.
  - intros H. destruct (scan here x) as [[[b ty] r]|] eqn:E; [|reflexivity].
    exfalso. apply H. destruct (scan_some _ _ _ _ _ E) as (y & -> & Hy & _).
    exists b, y. split; auto. congruence.
Qed.

Lemma occ_sub here a y z : here_mono here -> occ here y -> occ here (a ++ y ++ z).
Proof.
  intros Hm (a' & y' & -> & Hy). exists (a ++ a'), (y' ++ z). split.
  - now rewrite <- !app_assoc.
  - now apply Hm.
Qed.

Lemma scan_none_sub here a y z :
  here_mono here -> scan here (a ++ y ++ z) = None -> scan here y = None.
Proof.
  intros Hm H. apply scan_none. intros Ho. apply (proj1 (scan_none _ _) H). now apply occ_sub.
Qed.

Lemma scan_none_pre here x b ty r :
  here_mono here -> here [] = None -> scan here x = Some (b, ty, r) -> scan here b = None.
Proof.
  intros Hm Hnil H. destruct (scan_some _ _ _ _ _ H) as (y & -> & Hy & Hleft).
  apply scan_none. intros (a & y' & -> & Hy'). destruct y' as [|c y']; [congruence|].
  apply (Hm _ y) in Hy'. rewrite (Hleft a (c :: y') eq_refl ltac:(discriminate)) in Hy'. congruence.
Qed.

(* skipping characters other than '@' *)
Lemma scan_skip here a y :
  at_first here -> Forall (fun c => c <> at_ch) a ->
  scan here (a ++ y) = match scan here y with Some (b, ty, r) => Some (a ++ b, ty, r) | None => None end.
Proof.
  intros Hat Ha. induction Ha as [|c a Hc _ IH].
  - simpl. now destruct (scan here y) as [[[? ?] ?]|].
  - cbn [app scan]. rewrite (Hat c (a ++ y) Hc), IH. now destruct (scan here y) as [[[? ?] ?]|].
Qed.

(* ---- scan_start: the leftmost admitted occurrence of a start marker ---- *)
Definition flag_after (ok : bool) (a : str) : bool := fold_left (fun _ c => is_space c) a ok.

Lemma start_here_nil : start_here [] = None.
Proof. reflexivity. Qed.

Lemma scan_start_some x : forall ok b ty r,
  scan_start ok x = Some (b, ty, r) ->
  exists y, x = b ++ y /\ start_here y = Some (ty, r) /\ flag_after ok b = true.
Proof.
  induction x as [|c x IH]; intros ok b ty r H.
  - cbn [scan_start] in H. destruct ok; [rewrite start_here_nil in H|]; discriminate.
  - cbn [scan_start] in H.
    destruct (if ok then start_here (c :: x) else None) as [[ty' r']|] eqn:E.
    + injection H as <- <- <-. destruct ok; [|discriminate]. exists (c :: x). auto.
    + destruct (scan_start (is_space c) x) as [[[b' ty'] r']|] eqn:Es; [|discriminate].
      injection H as <- <- <-. destruct (IH _ _ _ _ Es) as (y & -> & Hy & Hf).
      exists y. repeat split; auto.
Qed.

(* an admitted occurrence is found *)
Lemma scan_start_occ a : forall ok z,
  flag_after ok a = true -> start_here z <> None -> scan_start ok (a ++ z) <> None.
Proof.
  induction a as [|c a IH]; intros ok z Hf Hz.
  - cbn [flag_after fold_left] in Hf. subst ok. cbn [app]. destruct z as [|d z]; [now rewrite start_here_nil in Hz|].
    cbn [scan_start]. destruct (start_here (d :: z)) as [[? ?]|]; [discriminate|congruence].
  - cbn [app scan_start]. destruct (if ok then start_here (c :: a ++ z) else None) as [[? ?]|]; [discriminate|].
    specialize (IH (is_space c) z Hf Hz).
    destruct (scan_start (is_space c) (a ++ z)) as [[[? ?] ?]|]; [discriminate|congruence].
Qed.

Lemma scan_start_suffix a : forall ok y,
  scan_start ok (a ++ y) = None -> scan_start (flag_after ok a) y = None.
Proof.
  induction a as [|c a IH]; intros ok y H; [exact H|].
  cbn [app scan_start] in H. destruct (if ok then start_here (c :: a ++ y) else None) as [[? ?]|]; [discriminate|].
  destruct (scan_start (is_space c) (a ++ y)) as [[[? ?] ?]|] eqn:E; [discriminate|].
  exact (IH _ _ E).
Qed.

Lemma scan_start_prefix y : forall ok z,
  scan_start ok (y ++ z) = None -> scan_start ok y = None.
Proof.
  induction y as [|c y IH]; intros ok z H.
  - cbn [scan_start]. destruct ok; [now rewrite start_here_nil|reflexivity].
  - cbn [app scan_start] in *.
    destruct ok.
    + destruct (start_here (c :: y ++ z)) as [[? ?]|] eqn:E; [discriminate|].
      assert (Hn : start_here (c :: y) = None).
      { destruct (start_here (c :: y)) as [[? ?]|] eqn:E'; [|reflexivity]. exfalso.
        apply (start_here_mono (c :: y) z); [congruence|exact E]. }
      rewrite Hn. destruct (scan_start (is_space c) (y ++ z)) as [[[? ?] ?]|] eqn:Es; [discriminate|].
      now rewrite (IH _ _ Es).
    + destruct (scan_start (is_space c) (y ++ z)) as [[[? ?] ?]|] eqn:Es; [discriminate|].
      now rewrite (IH _ _ Es).
Qed.

(* what precedes a text that starts with a blank (or is empty) does not matter *)
Lemma scan_start_flag x ok1 ok2 :
  next_is_space_or_end x = true -> scan_start ok1 x = scan_start ok2 x.
Proof.
  destruct x as [|c x]; intros H.
  - cbn [scan_start]. destruct ok1, ok2; now rewrite ?start_here_nil.
  - cbn [next_is_space_or_end] in H. cbn [scan_start].
    assert (Hn : start_here (c :: x) = None).
    { apply start_here_at. intros ->. discriminate H. }
    destruct ok1, ok2; now rewrite ?Hn.
Qed.

(* the text before the leftmost admitted occurrence has none *)
Lemma scan_start_pre x : forall ok b ty r,
  scan_start ok x = Some (b, ty, r) -> scan_start ok b = None.
Proof.
  induction x as [|c x IH]; intros ok b ty r H.
  - cbn [scan_start] in H. destruct ok; [rewrite start_here_nil in H|]; discriminate.
  - cbn [scan_start] in H.
    destruct (if ok then start_here (c :: x) else None) as [[ty' r']|] eqn:E.
    + injection H as <- <- <-. cbn [scan_start]. destruct ok; [now rewrite start_here_nil|reflexivity].
    + destruct (scan_start (is_space c) x) as [[[b' ty'] r']|] eqn:Es; [|discriminate].
      injection H as <- <- <-. destruct (scan_start_some _ _ _ _ _ Es) as (y & -> & _ & _).
      cbn [scan_start].
      assert (Hn : (if ok then start_here (c :: b') else None) = None).
      { destruct ok; [|reflexivity].
        destruct (start_here (c :: b')) as [[? ?]|] eqn:E'; [|reflexivity]. exfalso.
        apply (start_here_mono (c :: b') y); [congruence|exact E]. }
      rewrite Hn. now rewrite (IH _ _ _ _ Es).
Qed.

Lemma flag_after_blank ok b : blank b -> b <> [] -> flag_after ok b = true.
Proof.
  intros H. revert ok. induction H as [|c b Hc Hb IH]; intros ok Hne; [congruence|].
  cbn [flag_after fold_left]. destruct b as [|d b]; [exact Hc|]. apply IH. discriminate.
Qed.

Lemma flag_after_true_blank b : blank b -> flag_after true b = true.
Proof. intros H. destruct b; [reflexivity|]. apply flag_after_blank; [exact H|discriminate]. Qed.

Lemma scan_start_skip_blank b : forall ok y,
  blank b ->
  scan_start ok (b ++ y) =
  match scan_start (flag_after ok b) y with Some (b', ty, r) => Some (b ++ b', ty, r) | None => None end.
Proof.
  intros ok y H. revert ok. induction H as [|c b Hc _ IH]; intros ok.
  - cbn [app flag_after fold_left]. now destruct (scan_start ok y) as [[[? ?] ?]|].
  - cbn [app scan_start].
    assert (Hn : start_here (c :: b ++ y) = None).
    { apply start_here_at. intros ->. discriminate Hc. }
    rewrite Hn. assert ((if ok then @None (str * str) else None) = None) as -> by now destruct ok.
    rewrite IH. unfold flag_after. cbn [fold_left].
    match goal with |- context [scan_start ?f y] => destruct (scan_start f y) as [[[? ?] ?]|] end; reflexivity.
Qed.

(* ---- markers as words ---- *)
Lemma lower_app a b : lower (a ++ b) = lower a ++ lower b.
Proof. apply map_app. Qed.

Lemma str_eqb_app p x y : str_eqb (p ++ x) (p ++ y) = str_eqb x y.
Proof. induction p as [|c p IH]; simpl; [reflexivity|]. now rewrite Ascii.eqb_refl, IH. Qed.

Lemma str_in_map_app p x ts : str_in (p ++ x) (map (app p) ts) = str_in x ts.
Proof. induction ts as [|t ts IH]; simpl; [reflexivity|]. now rewrite str_eqb_app, IH. Qed.

Lemma start_tokens_eq : start_tokens = map (app [at_ch]) adm_types.
Proof. reflexivity. Qed.
Lemma end_tokens_eq : end_tokens = map (app (at_ch :: s "end")) adm_types.
Proof. reflexivity. Qed.

Lemma start_marker_tok ty : typ_ok ty -> is_start_tok (start_marker ty) = true.
Proof.
  intros H. unfold is_start_tok, start_marker. rewrite start_tokens_eq.
  change (lower (at_ch :: ty)) with ([at_ch] ++ lower ty). now rewrite str_in_map_app.
Qed.

Lemma start_marker_not_end ty : typ_ok ty -> is_end_tok (start_marker ty) = false.
Proof.
  intros H. unfold is_end_tok, start_marker. change (lower (at_ch :: ty)) with (at_ch :: lower ty).
  destruct (typ_cases ty H) as [E|[E|[E|[E|E]]]]; rewrite E; reflexivity.
Qed.

Lemma end_marker_tok e ty : lower e = s "end" -> typ_ok ty -> is_end_tok (end_marker e ty) = true.
Proof.
  intros He H. unfold is_end_tok, end_marker. rewrite end_tokens_eq.
  change (lower (at_ch :: e ++ ty)) with (at_ch :: lower (e ++ ty)). rewrite lower_app, He.
  change (at_ch :: s "end" ++ lower ty) with ((at_ch :: s "end") ++ lower ty).
  now rewrite str_in_map_app.
Qed.

Lemma end_solid e : lower e = s "end" -> solid e.
Proof. intros H. apply solid_lower. rewrite H. repeat constructor. Qed.

Lemma start_marker_solid ty : typ_ok ty -> solid (start_marker ty) /\ start_marker ty <> [].
Proof.
  intros H. split; [|discriminate]. constructor; [reflexivity|]. now apply typ_solid.
Qed.

Lemma end_marker_solid e ty :
  lower e = s "end" -> typ_ok ty -> solid (end_marker e ty) /\ end_marker e ty <> [].
Proof.
  intros He H. split; [|discriminate]. constructor; [reflexivity|]. apply Forall_app. split.
  - now apply end_solid.
  - now apply typ_solid.
Qed.

(* a start / end token among the words of a line is found by the scanners *)
Lemma start_tok_shape w : is_start_tok w = true -> exists ty, w = start_marker ty /\ typ_ok ty.
Proof.
  unfold is_start_tok. rewrite start_tokens_eq. destruct w as [|c w]; [discriminate|].
  intros H. apply str_in_spec, in_map_iff in H as (t & Ht & Hin).
  simpl in Ht. injection Ht as Hc Hw. exists w. split.
  - unfold start_marker. f_equal. apply lower_at. now symmetry.
  - unfold typ_ok. apply str_in_spec. now rewrite <- Hw.
Qed.

Lemma end_tok_shape w :
  is_end_tok w = true -> exists e ty, w = end_marker e ty /\ lower e = s "end" /\ typ_ok ty.
Proof.
  unfold is_end_tok. rewrite end_tokens_eq. intros H.
  apply str_in_spec, in_map_iff in H as (t & Ht & Hin).
  destruct w as [|c w]; [discriminate|]. simpl in Ht. injection Ht as Hc Hw.
  symmetry in Hw. unfold lower in Hw.
  change ("e"%char :: "n"%char :: "d"%char :: t) with (s "end" ++ t) in Hw.
  apply map_eq_app in Hw as (e & ty & -> & He & Hty).
  exists e, ty. repeat split.
  - unfold end_marker. f_equal. apply lower_at. now symmetry.
  - exact He.
  - unfold typ_ok. apply str_in_spec. unfold lower. now rewrite Hty.
Qed.

Lemma no_start_tok_gen n : forall x ok,
  length x <= n -> scan_start ok x = None -> (ok = true \/ next_is_space_or_end x = true) ->
  forall w, In w (words_line x) -> is_start_tok w = false.
Proof.
  induction n as [|n IH]; intros x ok Hlen Hscan Hor w Hin.
  - destruct x; [contradiction|simpl in Hlen; lia].
  - destruct (words_decomp x) as [Hb|(ws & t & r & -> & Hws & Ht & Hne & Hr)].
    + rewrite (words_blank x Hb) in Hin. contradiction.
    + rewrite (words_token0 ws t r Hws Hne Ht Hr) in Hin. destruct Hin as [<-|Hin].
      * destruct (is_start_tok t) eqn:E; [|reflexivity]. exfalso.
        destruct (start_tok_shape _ E) as (ty & -> & Hty).
        apply (scan_start_occ ws ok (start_marker ty ++ r)); auto.
        -- destruct ws as [|c ws]; [|apply flag_after_blank; [exact Hws|discriminate]].
           cbn [flag_after fold_left]. destruct Hor as [H|H]; [exact H|discriminate H].
        -- now rewrite start_here_marker.
      * rewrite app_assoc in Hscan. apply scan_start_suffix in Hscan.
        apply (IH r _) with (w := w) in Hscan; auto.
        rewrite !app_length in Hlen. destruct t; [congruence|]. simpl in Hlen. lia.
Qed.

Lemma no_start_tok y :
  scan_start true y = None -> forall w, In w (words_line y) -> is_start_tok w = false.
Proof. intros H. apply (no_start_tok_gen (length y) y true); auto. Qed.

Lemma no_end_tok y :
  scan end_here y = None -> forall w, In w (words_line y) -> is_end_tok w = false.
Proof.
  intros H w Hin. destruct (is_end_tok w) eqn:E; [|reflexivity]. exfalso.
  apply (proj1 (scan_none _ _) H). destruct (words_in _ _ Hin) as (a & b & ->).
  destruct (end_tok_shape _ E) as (e & ty & -> & He & Hty).
  exists a, (end_marker e ty ++ b). split; [reflexivity|]. now rewrite end_here_marker.
Qed.

(* the specification on the words of one line *)
Definition lw (x : str) : list str := note_titles (strip_markers (words_line x)).

Lemma strip_markers_app a b : strip_markers (a ++ b) = strip_markers a ++ strip_markers b.
Proof. apply filter_app. Qed.
Lemma note_titles_app a b : note_titles (a ++ b) = note_titles a ++ note_titles b.
Proof. apply flat_map_app. Qed.

Lemma spec_words_flat l : spec_words l = flat_map lw l.
Proof.
  unfold spec_words, words. induction l as [|x l IH]; [reflexivity|].
  simpl. rewrite strip_markers_app, note_titles_app, IH. reflexivity.
Qed.

Lemma lw_plain_words ws :
  (forall w, In w ws -> is_start_tok w = false) -> (forall w, In w ws -> is_end_tok w = false) ->
  note_titles (strip_markers ws) = ws.
Proof.
  intros Hs He. induction ws as [|w ws IH]; [reflexivity|].
  unfold strip_markers. cbn [filter]. rewrite (He w (or_introl eq_refl)). cbn [negb].
  unfold note_titles. cbn [flat_map]. unfold note_title at 1. rewrite (Hs w (or_introl eq_refl)).
  cbn [app]. f_equal. apply IH; intros; [apply Hs | apply He]; now right.
Qed.

Lemma lw_none y :
  scan_start true y = None -> scan end_here y = None -> lw y = words_line y.
Proof. intros Hs He. apply lw_plain_words; [now apply no_start_tok | now apply no_end_tok]. Qed.

(* ---- split_tail_ws ---- *)
Lemma stw_spec b : forall p w, split_tail_ws b = (p, w) -> b = p ++ w /\ blank w.
Proof.
  induction b as [|c b IH]; intros p w H; simpl in H.
  - injection H as <- <-. split; [reflexivity|constructor].
  - destruct (split_tail_ws b) as [p' w'] eqn:E. destruct (IH _ _ eq_refl) as [-> Hw].
    destruct p' as [|d p'].
    + destruct (is_space c) eqn:Hc; injection H as <- <-; split; auto. now constructor.
    + injection H as <- <-. split; auto.
Qed.

Lemma stw_blank b : blank b -> split_tail_ws b = ([], b).
Proof.
  intros H. induction H as [|c b Hc _ IH]; [reflexivity|]. simpl. now rewrite IH, Hc.
Qed.

(* a prefix that ends in a solid character stays in the first component *)
Lemma stw_app_solid a d c :
  is_space d = false ->
  split_tail_ws ((a ++ [d]) ++ c) = ((a ++ [d]) ++ fst (split_tail_ws c), snd (split_tail_ws c)).
Proof.
  intros Hd. induction a as [|x a IH].
  - simpl. destruct (split_tail_ws c) as [p w]. simpl. destruct p; [now rewrite Hd|reflexivity].
  - change (((x :: a) ++ [d]) ++ c) with (x :: (a ++ [d]) ++ c). cbn [split_tail_ws]. rewrite IH.
    destruct (split_tail_ws c) as [p w]. cbn [fst snd].
    destruct ((a ++ [d]) ++ p) eqn:E; [exfalso; destruct a; discriminate E|].
    cbn [app]. now rewrite E.
Qed.

Lemma blank_no_at w : blank w -> Forall (fun c => c <> at_ch) w.
Proof. intros H. eapply Forall_impl; [|exact H]. intros c Hc ->. discriminate. Qed.

Lemma solid_letters_no_at m : (forall c, In c (lower m) -> is_lower c = true) -> Forall (fun c => c <> at_ch) m.
Proof.
  intros H. apply Forall_forall. intros c Hin ->.
  specialize (H (lower_ch at_ch) (in_map lower_ch _ _ Hin)). discriminate.
Qed.

Lemma typ_no_at ty : typ_ok ty -> Forall (fun c => c <> at_ch) ty.
Proof.
  intros H. apply solid_letters_no_at.
  destruct (typ_cases ty H) as [E|[E|[E|[E|E]]]]; rewrite E; intros c Hin; simpl in Hin;
    repeat (destruct Hin as [<-|Hin]; [reflexivity|]); contradiction.
Qed.

Lemma end_here_start_marker ty z : typ_ok ty -> end_here (start_marker ty ++ z) = None.
Proof.
  intros H. unfold end_here, start_marker. cbn [app]. rewrite Ascii.eqb_refl.
  destruct (typ_cases ty H) as [E|[E|[E|[E|E]]]];
    (destruct ty as [|c ty]; [discriminate E|]); injection E as E1 _;
    cbn [app]; rewrite take_ci_hd by (rewrite E1; reflexivity); reflexivity.
Qed.

Lemma scan_end_after_start b ty post :
  blank b -> typ_ok ty ->
  scan end_here (b ++ start_marker ty ++ post) =
  match scan end_here post with
  | Some (c, ety, r) => Some (b ++ start_marker ty ++ c, ety, r)
  | None => None
  end.
Proof.
  intros Hb Hty. rewrite (scan_skip end_here b _ end_here_at (blank_no_at b Hb)).
  assert (E : scan end_here (start_marker ty ++ post) =
              match scan end_here post with
              | Some (c, ety, r) => Some (start_marker ty ++ c, ety, r) | None => None end).
  { pose proof (end_here_start_marker ty post Hty) as Hn. unfold start_marker in *.
    cbn [app] in *. cbn [scan]. rewrite Hn.
    rewrite (scan_skip end_here ty post end_here_at (typ_no_at ty Hty)).
    now destruct (scan end_here post) as [[[? ?] ?]|]. }
  rewrite E. now destruct (scan end_here post) as [[[? ?] ?]|].
Qed.

Lemma scan_start_at_marker b ty z :
  blank b -> typ_ok ty -> scan_start true (b ++ start_marker ty ++ z) = Some (b, ty, z).
Proof.
  intros Hb Hty. rewrite (scan_start_skip_blank b true _ Hb), (flag_after_true_blank b Hb).
  pose proof (start_here_marker ty z Hty) as Hs. unfold start_marker in *. cbn [app] in *.
  cbn [scan_start]. rewrite Hs. now rewrite app_nil_r.
Qed.

(* ---- what the global argument needs to know about one clean line ---- *)
Definition LF (x : str) : Prop :=
  match adm_search x, end_search x with
  | None, None => lw x = words_line x
  | None, Some (pre, _, epost) => lw x = words_line pre ++ words_line epost
  | Some (p, ind, ty, post), None =>
    p = [] /\ blank ind /\ typ_ok ty /\ lw x = [s "@note"; capitalize ty] ++ words_line post
  | Some (p, ind, ty, post), Some (pre, _, epost) =>
    p = [] /\ blank ind /\ typ_ok ty /\ all_space pre = false /\
    exists postS, adm_search pre = Some ([], ind, ty, postS) /\
                  lw x = [s "@note"; capitalize ty] ++ words_line postS ++ words_line epost
  end.

Lemma lw_end_marker e ty : lower e = s "end" -> typ_ok ty ->
  note_titles (strip_markers [end_marker e ty]) = [].
Proof.
  intros He H. unfold strip_markers. cbn [filter]. now rewrite end_marker_tok.
Qed.

Lemma lw_start_marker ty : typ_ok ty ->
  note_titles (strip_markers [start_marker ty]) = [s "@note"; capitalize ty].
Proof.
  intros H. unfold strip_markers. cbn [filter]. rewrite start_marker_not_end by exact H.
  cbn [negb note_titles flat_map]. unfold note_title. now rewrite start_marker_tok.
Qed.

Lemma lw_split ws1 ws2 :
  note_titles (strip_markers (ws1 ++ ws2)) =
  note_titles (strip_markers ws1) ++ note_titles (strip_markers ws2).
Proof. now rewrite strip_markers_app, note_titles_app. Qed.

Lemma is_empty_spec {A} (x : list A) : (match x with [] => true | _ => false end) = true -> x = [].
Proof. destruct x; [reflexivity|discriminate]. Qed.

Lemma end_line_words pre ws e ty r :
  blank ws -> (pre = [] \/ ws <> []) -> lower e = s "end" -> typ_ok ty ->
  next_is_space_or_end r = true ->
  scan_start true pre = None -> scan end_here pre = None ->
  scan_start true r = None -> scan end_here r = None ->
  lw (pre ++ ws ++ end_marker e ty ++ r) = words_line pre ++ words_line r.
Proof.
  intros Hws Hor He Hty Hr Hs1 He1 Hs2 He2. unfold lw.
  destruct (end_marker_solid e ty He Hty) as [Hsol Hne].
  rewrite (words_token pre ws (end_marker e ty) r Hws Hor Hne Hsol Hr).
  change (end_marker e ty :: words_line r) with ([end_marker e ty] ++ words_line r).
  rewrite !lw_split, lw_end_marker by assumption.
  fold (lw pre). fold (lw r). now rewrite !lw_none.
Qed.

Lemma is_none_spec {A} (o : option A) : is_none o = true -> o = None.
Proof. destruct o; [discriminate|reflexivity]. Qed.

Lemma clean_LF x : piece_clean x = true -> LF x.
Proof.
  unfold piece_clean, LF, adm_search, end_search, start_clean, end_clean.
  intros H. apply andb_true_iff in H as [Hsc Hec].
  destruct (scan_start true x) as [[[bS ty] post]|] eqn:ES;
    destruct (scan end_here x) as [[[bE ety] r]|] eqn:EE.
  - (* start and end marker on the same line *)
    apply andb_true_iff in Hsc as [Hsc HpostS]. apply andb_true_iff in Hsc as [HbS Hnext].
    apply all_space_blank in HbS. apply is_none_spec in HpostS.
    rewrite (scan_start_flag post false true Hnext) in HpostS.
    destruct (scan_start_some _ _ _ _ _ ES) as (y & Hx & Hy & _).
    destruct (start_here_spec _ _ _ Hy) as [-> Hty]. subst x.
    rewrite (stw_blank bS HbS).
    rewrite (scan_end_after_start bS ty post HbS Hty) in EE.
    destruct (scan end_here post) as [[[c ety'] r']|] eqn:EP; [|discriminate].
    injection EE as <- <- <-.
    destruct (scan_some _ _ _ _ _ EP) as (y & Hpost & Hy' & _).
    destruct (end_here_spec _ _ _ Hy') as (e & -> & He & Hety).
    (* the text before the end marker: ends with the type's last letter, then c *)
    destruct (typ_solid ty Hty) as [Hsol Htyne].
    destruct (exists_last Htyne) as (ty0 & d & Ety).
    assert (Hd : is_space d = false).
    { rewrite Ety in Hsol. apply Forall_app in Hsol as [_ Hsol]. now inversion Hsol. }
    assert (Estw : split_tail_ws (bS ++ start_marker ty ++ c) =
                   ((bS ++ start_marker ty) ++ fst (split_tail_ws c), snd (split_tail_ws c))).
    { unfold start_marker. rewrite Ety.
      replace (bS ++ (at_ch :: ty0 ++ [d]) ++ c) with (((bS ++ at_ch :: ty0) ++ [d]) ++ c)
        by app_norm.
      replace (bS ++ at_ch :: ty0 ++ [d]) with ((bS ++ at_ch :: ty0) ++ [d]) by app_norm.
      now apply stw_app_solid. }
    change (at_ch :: ty ++ c) with (start_marker ty ++ c) in *.
    rewrite Estw. cbn [fst].
    destruct (split_tail_ws c) as [c' ws] eqn:Ec. destruct (stw_spec _ _ _ Ec) as [-> Hws].
    cbn [fst snd] in *.
    apply andb_true_iff in Hec as [Hec HrS]. apply andb_true_iff in Hec as [Hec HrE].
    apply andb_true_iff in Hec as [Hstart Hrnext].
    rewrite Estw in Hstart. cbn [snd] in Hstart.
    assert (Hwsne : ws <> []).
    { apply orb_true_iff in Hstart as [Hemp|Hw].
      - apply is_empty_spec in Hemp. destruct bS; discriminate Hemp.
      - now destruct ws. }
    apply is_none_spec in HrS. apply is_none_spec in HrE.
    rewrite (scan_start_flag r' false true Hrnext) in HrS.
    repeat match goal with |- _ /\ _ => split end; auto.
    + (* pre is not blank: it contains '@' *)
      destruct (all_space ((bS ++ start_marker ty) ++ c')) eqn:Ea; [|reflexivity].
      apply all_space_blank in Ea. apply Forall_app in Ea as [Ea _]. apply Forall_app in Ea as [_ Ea].
      inversion Ea as [|? ? Hat _]. discriminate Hat.
    + exists c'. split.
      * rewrite <- app_assoc, (scan_start_at_marker bS ty c' HbS Hty). now rewrite (stw_blank bS HbS).
      * assert (Hc's : scan_start true c' = None).
        { rewrite Hpost in HpostS. rewrite <- app_assoc in HpostS.
          exact (scan_start_prefix c' true _ HpostS). }
        assert (Hc'e : scan end_here c' = None).
        { pose proof (scan_none_pre end_here _ _ _ _ end_here_mono eq_refl EP) as Hn.
          exact (scan_none_sub end_here [] c' ws end_here_mono Hn). }
        unfold lw at 1.
        destruct (start_marker_solid ty Hty) as [Hmsol Hmne].
        rewrite (words_token0 bS (start_marker ty) post HbS Hmne Hmsol Hnext).
        change (start_marker ty :: words_line post) with ([start_marker ty] ++ words_line post).
        rewrite lw_split, lw_start_marker by exact Hty. f_equal. f_equal.
        fold (lw post). rewrite Hpost, <- app_assoc.
        rewrite (end_line_words c' ws e ety' r' Hws (or_intror Hwsne) He Hety Hrnext Hc's Hc'e HrS HrE).
        now rewrite words_lstrip.
  - (* start marker only *)
    apply andb_true_iff in Hsc as [Hsc HpostS]. apply andb_true_iff in Hsc as [HbS Hnext].
    apply all_space_blank in HbS. apply is_none_spec in HpostS.
    rewrite (scan_start_flag post false true Hnext) in HpostS.
    destruct (scan_start_some _ _ _ _ _ ES) as (y & Hx & Hy & _).
    destruct (start_here_spec _ _ _ Hy) as [-> Hty]. subst x.
    rewrite (stw_blank bS HbS). repeat match goal with |- _ /\ _ => split end; auto.
    assert (EpE : scan end_here post = None).
    { rewrite app_assoc in EE. rewrite <- (app_nil_r post) in EE.
      exact (scan_none_sub end_here _ post [] end_here_mono EE). }
    unfold lw at 1. destruct (start_marker_solid ty Hty) as [Hmsol Hmne].
    rewrite (words_token0 bS (start_marker ty) post HbS Hmne Hmsol Hnext).
    change (start_marker ty :: words_line post) with ([start_marker ty] ++ words_line post).
    rewrite lw_split, lw_start_marker by exact Hty. f_equal. f_equal.
    fold (lw post). now apply lw_none.
  - (* end marker only *)
    destruct (scan_some _ _ _ _ _ EE) as (y & Hx & Hy & _).
    destruct (end_here_spec _ _ _ Hy) as (e & -> & He & Hety). subst x.
    destruct (split_tail_ws bE) as [pre ws] eqn:Eb. destruct (stw_spec _ _ _ Eb) as [-> Hws].
    cbn [fst snd] in *.
    apply andb_true_iff in Hec as [Hec HrS]. apply andb_true_iff in Hec as [Hec HrE].
    apply andb_true_iff in Hec as [Hstart Hrnext].
    apply is_none_spec in HrS. apply is_none_spec in HrE.
    rewrite (scan_start_flag r false true Hrnext) in HrS.
    assert (Hor : pre = [] \/ ws <> []).
    { apply orb_true_iff in Hstart as [Hemp|Hw].
      - apply is_empty_spec in Hemp. left. now destruct pre.
      - right. now destruct ws. }
    assert (HpS : scan_start true pre = None).
    { rewrite <- app_assoc in ES. exact (scan_start_prefix pre true _ ES). }
    assert (HpE : scan end_here pre = None).
    { pose proof (scan_none_pre end_here _ _ _ _ end_here_mono eq_refl EE) as Hn.
      exact (scan_none_sub end_here [] pre ws end_here_mono Hn). }
    rewrite <- app_assoc.
    rewrite (end_line_words pre ws e ety r Hws Hor He Hety Hrnext HpS HpE HrS HrE).
    now rewrite words_lstrip.
  - now apply lw_none.
Qed.

(* ---- _split_leading_text keeps the words ---- *)
Lemma lstrip_split x : exists w, blank w /\ x = w ++ lstrip x.
Proof.
  induction x as [|c x (w & Hw & IH)]; [exists []; split; [constructor|reflexivity]|].
  cbn [lstrip]. destruct (is_space c) eqn:E.
  - exists (c :: w). split; [now constructor|]. cbn [app]. now f_equal.
  - exists []. split; [constructor|reflexivity].
Qed.

Lemma lead_ws_blank x : blank (lead_ws x).
Proof.
  unfold lead_ws. destruct (lstrip_split x) as (w & Hw & E).
  rewrite E at 1 3. rewrite app_length, Nat.add_sub, firstn_app, Nat.sub_diag, firstn_all. cbn [firstn].
  now rewrite app_nil_r.
Qed.

Lemma stw_app_blank a w : blank w ->
  split_tail_ws (a ++ w) = (fst (split_tail_ws a), snd (split_tail_ws a) ++ w).
Proof.
  intros Hw. induction a as [|c a IH].
  - cbn [app]. now rewrite (stw_blank w Hw).
  - cbn [app split_tail_ws]. rewrite IH. destruct (split_tail_ws a) as [p v]. cbn [fst snd].
    destruct p; [destruct (is_space c)|]; reflexivity.
Qed.

(* a non-empty text before the match is followed by at least one blank (the look-behind) *)
Lemma adm_search_pretext x c pre ind ty post :
  adm_search x = Some (c :: pre, ind, ty, post) ->
  x = (c :: pre) ++ ind ++ start_marker ty ++ post /\ blank ind /\ ind <> [].
Proof.
  unfold adm_search. destruct (scan_start true x) as [[[b ty'] post']|] eqn:ES; [|discriminate].
  destruct (split_tail_ws b) as [p w] eqn:Eb. intros H. injection H as -> -> -> ->.
  destruct (scan_start_some _ _ _ _ _ ES) as (y & -> & Hy & Hf).
  destruct (start_here_spec _ _ _ Hy) as [-> _]. destruct (stw_spec _ _ _ Eb) as [-> Hw].
  split; [now rewrite <- app_assoc|]. split; [exact Hw|]. intros ->. rewrite app_nil_r in *.
  (* the last character of c :: pre would be a blank, so the trailing blank run is not empty *)
  destruct (exists_last (l := c :: pre) ltac:(discriminate)) as (q & d & Eq). rewrite Eq in *.
  assert (Hd : is_space d = true).
  { clear -Hf. unfold flag_after in Hf. rewrite fold_left_app in Hf. exact Hf. }
  rewrite (stw_app_blank q [d]) in Eb by (repeat constructor; exact Hd).
  injection Eb as _ Eb. destruct (snd (split_tail_ws q)); discriminate Eb.
Qed.

Lemma split_line_words x : flat_map lw (split_line x) = lw x.
Proof.
  unfold split_line. destruct (adm_search x) as [[[[p ind] ty] post]|] eqn:E; [|cbn; apply app_nil_r].
  destruct p as [|c pre]; [cbn; apply app_nil_r|].
  destruct (adm_search_pretext _ _ _ _ _ _ E) as (Hx & Hind & Hne).
  cbn [flat_map]. rewrite app_nil_r. unfold lw. rewrite <- lw_split. f_equal. f_equal.
  change (lead_ws (c :: pre) ++ at_ch :: ty ++ post) with (lead_ws (c :: pre) ++ start_marker ty ++ post).
  rewrite (words_blank_app _ _ (lead_ws_blank (c :: pre))). rewrite Hx.
  destruct ind as [|d ind]; [congruence|]. inversion Hind as [|? ? Hd Hind']; subst.
  change ((d :: ind) ++ start_marker ty ++ post) with (d :: ind ++ start_marker ty ++ post).
  rewrite (words_app_sp (c :: pre) d _ Hd). now rewrite (words_blank_app _ _ Hind').
Qed.

Lemma split_words l : spec_words (split_leading_text l) = spec_words l.
Proof.
  rewrite !spec_words_flat. unfold split_leading_text. induction l as [|x l IH]; [reflexivity|].
  cbn [flat_map]. now rewrite flat_map_app, split_line_words, IH.
Qed.

(* ====================================================================== *)
(* 3. list surgery by index, on lists given as concatenations              *)
(* ====================================================================== *)

Lemma firstn_mid {A} (a : list A) (b : list A) : firstn (length a) (a ++ b) = a.
Proof. rewrite firstn_app, Nat.sub_diag, firstn_all. simpl. apply app_nil_r. Qed.
Lemma skipn_mid {A} (a : list A) (b : list A) : skipn (length a) (a ++ b) = b.
Proof. rewrite skipn_app, Nat.sub_diag, skipn_all. reflexivity. Qed.
Lemma nth_error_mid {A} (a : list A) (x : A) (b : list A) : nth_error (a ++ x :: b) (length a) = Some x.
Proof. rewrite nth_error_app2, Nat.sub_diag by lia. reflexivity. Qed.
Lemma skipn_mid_S {A} (a : list A) (x : A) (b : list A) : skipn (S (length a)) (a ++ x :: b) = b.
Proof. induction a as [|z a IH]; [reflexivity|]. exact IH. Qed.
Lemma insert_at_mid {A} (a : list A) (y : A) (b : list A) : insert_at (length a) y (a ++ b) = a ++ y :: b.
Proof. unfold insert_at. now rewrite firstn_mid, skipn_mid. Qed.
Lemma set_at_mid {A} (a : list A) (x : A) (y : A) (b : list A) : set_at (length a) y (a ++ x :: b) = a ++ y :: b.
Proof.
  unfold set_at. now rewrite firstn_mid, skipn_mid_S.
Qed.
Lemma delete_at_mid {A} (a : list A) (x : A) (b : list A) : delete_at (length a) (a ++ x :: b) = a ++ b.
Proof.
  unfold delete_at. now rewrite firstn_mid, skipn_mid_S.
Qed.
Lemma insert_at_S {A} (a : list A) (x : A) (y : A) (b : list A) : insert_at (S (length a)) y (a ++ x :: b) = a ++ x :: y :: b.
Proof. unfold insert_at. rewrite skipn_mid_S.
  replace (a ++ x :: b) with ((a ++ [x]) ++ b) by (now rewrite <- app_assoc).
  replace (S (length a)) with (length (a ++ [x])) by (rewrite app_length; simpl; lia).
  rewrite firstn_mid. now rewrite <- app_assoc. Qed.
Lemma insert_at_1 {A} (a : list A) (x : A) (y : A) (b : list A) : insert_at (length a + 1) y (a ++ x :: b) = a ++ x :: y :: b.
Proof. rewrite Nat.add_1_r. apply insert_at_S. Qed.
Lemma insert_at_2 {A} (a : list A) (x1 : A) (x2 : A) (y : A) (b : list A) : insert_at (length a + 2) y (a ++ x1 :: x2 :: b) = a ++ x1 :: x2 :: y :: b.
Proof.
  replace (length a + 2) with (S (length (a ++ [x1]))) by (rewrite app_length; simpl; lia).
  replace (a ++ x1 :: x2 :: b) with ((a ++ [x1]) ++ x2 :: b) by (now rewrite <- app_assoc).
  rewrite insert_at_S. now rewrite <- app_assoc.
Qed.
Lemma reassoc {A} (a : list A) (x : A) (m : list A) (z : list A) : (a ++ x :: m) ++ z = a ++ x :: m ++ z.
Proof. now rewrite <- app_assoc. Qed.

Lemma indent_range_zero l : forall a, indent_range a 0 l = l.
Proof. destruct l; reflexivity. Qed.

Lemma indent_range_skip p : forall n m l,
  indent_range (length p + n) (length p + m) (p ++ l) = p ++ indent_range n m l.
Proof.
  induction p as [|x p IH]; intros n m l; [reflexivity|]. cbn [length app plus indent_range].
  now rewrite IH.
Qed.

Lemma indent_range_map m : forall k l,
  indent_range 0 (length m + k) (m ++ l) = map indent1 m ++ indent_range 0 k l.
Proof.
  induction m as [|x m IH]; intros k l; [reflexivity|]. cbn [length app plus indent_range map].
  now rewrite IH.
Qed.

Lemma indent_range_clip l : forall a b, indent_range a (Nat.min (length l) b) l = indent_range a b l.
Proof.
  induction l as [|x l IH]; intros a b; [reflexivity|]. destruct b as [|b]; [reflexivity|].
  cbn [length Nat.min indent_range]. destruct a; now rewrite IH.
Qed.

Lemma indent_range_one x l : indent_range 0 1 (x :: l) = indent1 x :: l.
Proof. cbn [indent_range]. now rewrite indent_range_zero. Qed.

(* the range (length p0, length p0 + length m + k) of p0 ++ m ++ z *)
Lemma indent_range_block p0 m k z :
  indent_range (length p0) (length p0 + length m + k) (p0 ++ m ++ z)
  = p0 ++ map indent1 m ++ indent_range 0 k z.
Proof.
  rewrite <- (Nat.add_0_r (length p0)) at 1. rewrite <- Nat.add_assoc.
  now rewrite indent_range_skip, indent_range_map.
Qed.

Definition title_block (ind ty post : str) : list str :=
  title_line ind ty :: match post with [] => [] | _ => [INDENT ++ ind ++ post] end.

(* rewriting of the line that carries the end marker: the kept text before it, the new lines after it *)
Definition end_keep (pre : str) : list str := if all_space pre then [] else [pre].
Definition end_extra (epost : str) : list str := match epost with [] => [] | _ => [[]; epost] end.

Lemma indent_range_le l : forall a b, b <= a -> indent_range a b l = l.
Proof.
  induction l as [|x l IH]; intros a b H; [reflexivity|]. destruct b as [|b]; [reflexivity|].
  destruct a as [|a]; [lia|]. cbn [indent_range]. rewrite IH by lia. reflexivity.
Qed.

(* range (start+1, e) where e is the index of the first line of z: exactly the lines m *)
Lemma indent_range_IR1 a1 ls m z :
  indent_range (S (length a1)) (length (a1 ++ ls :: m)) (a1 ++ ls :: m ++ z)
  = a1 ++ ls :: map indent1 m ++ z.
Proof.
  replace (S (length a1)) with (length (a1 ++ [ls])) by (rewrite app_length; simpl; lia).
  replace (length (a1 ++ ls :: m)) with (length (a1 ++ [ls]) + length m + 0)
    by (rewrite !app_length; simpl; lia).
  replace (a1 ++ ls :: m ++ z) with ((a1 ++ [ls]) ++ m ++ z) by app_norm.
  rewrite indent_range_block, indent_range_zero. app_norm.
Qed.

(* the same with one more line (the text kept before an end marker) *)
Lemma indent_range_IR2 a1 ls m x z :
  indent_range (S (length a1)) (S (length (a1 ++ ls :: m))) (a1 ++ ls :: m ++ x :: z)
  = a1 ++ ls :: map indent1 m ++ indent1 x :: z.
Proof.
  replace (S (length a1)) with (length (a1 ++ [ls])) by (rewrite app_length; simpl; lia).
  replace (S (length (a1 ++ ls :: m))) with (length (a1 ++ [ls]) + length m + 1)
    by (rewrite !app_length; simpl; lia).
  replace (a1 ++ ls :: m ++ x :: z) with ((a1 ++ [ls]) ++ m ++ x :: z) by app_norm.
  rewrite indent_range_block, indent_range_one. app_norm.
Qed.

(* the start line is rewritten last *)
Lemma step_finish ty a1 ls rest p ind ty' post :
  adm_search ls = Some (p, ind, ty', post) ->
  match nth_error (a1 ++ ls :: rest) (length a1) with
  | None => Err EIndex
  | Some ls0 =>
    match adm_search ls0 with
    | None => Err EMissingStart
    | Some (_, ind0, _, post0) =>
      let lines3 := set_at (length a1) (title_line ind0 ty) (a1 ++ ls :: rest) in
      Ok (match post0 with
          | [] => lines3
          | _ => insert_at (S (length a1)) (INDENT ++ ind0 ++ post0) lines3
          end)
    end
  end = Ok (a1 ++ title_block ind ty post ++ rest).
Proof.
  intros HS. rewrite nth_error_mid, HS. cbv zeta. rewrite set_at_mid. unfold title_block.
  destruct post as [|c post]; [reflexivity|]. now rewrite insert_at_S.
Qed.

Lemma nth_error_end {A} (a : list A) : nth_error a (length a) = None.
Proof. apply nth_error_None. lia. Qed.

(* the first line after the box carries no end marker (or there is no such line): the lines m
   strictly inside the box are indented and nothing else changes *)
Definition no_end_at (rest : list str) : Prop :=
  match rest with [] => True | le :: _ => end_search le = None end.

Lemma step_far_noend ty a1 ls m rest p ind ty' post :
  adm_search ls = Some (p, ind, ty', post) -> no_end_at rest ->
  step (ty, length a1, length (a1 ++ ls :: m)) (a1 ++ ls :: m ++ rest)
  = Ok (a1 ++ title_block ind ty post ++ map indent1 m ++ rest).
Proof.
  intros HS HE. unfold step. rewrite <- (reassoc a1 ls m rest).
  assert (Hend : match nth_error ((a1 ++ ls :: m) ++ rest) (length (a1 ++ ls :: m)) with
                 | Some le => end_search le | None => None end = None).
  { destruct rest as [|le r]; [now rewrite app_nil_r, nth_error_end|now rewrite nth_error_mid]. }
  rewrite Hend, indent_range_clip, reassoc, indent_range_IR1.
  exact (step_finish ty a1 ls _ p ind ty' post HS).
Qed.

(* end line further down, with an end marker *)
Lemma step_far_end ty a1 ls m le r p ind ty' post pre ety epost :
  adm_search ls = Some (p, ind, ty', post) -> end_search le = Some (pre, ety, epost) ->
  step (ty, length a1, length (a1 ++ ls :: m)) (a1 ++ ls :: m ++ le :: r)
  = Ok (a1 ++ title_block ind ty post ++ map indent1 m ++ map indent1 (end_keep pre)
           ++ end_extra epost ++ r).
Proof.
  intros HS HE. unfold step. rewrite <- (reassoc a1 ls m (le :: r)).
  rewrite nth_error_mid, HE. unfold end_keep, end_extra.
  destruct epost as [|c epost].
  - rewrite set_at_mid. destruct (all_space pre).
    + rewrite delete_at_mid, indent_range_clip, reassoc, indent_range_IR1.
      exact (step_finish ty a1 ls _ p ind ty' post HS).
    + rewrite indent_range_clip, reassoc, indent_range_IR2.
      exact (step_finish ty a1 ls _ p ind ty' post HS).
  - rewrite insert_at_1, insert_at_2, set_at_mid. destruct (all_space pre).
    + rewrite delete_at_mid, indent_range_clip, reassoc, indent_range_IR1.
      exact (step_finish ty a1 ls _ p ind ty' post HS).
    + rewrite indent_range_clip, reassoc, indent_range_IR2.
      exact (step_finish ty a1 ls _ p ind ty' post HS).
Qed.

(* box that starts and ends on the same line *)
Lemma step_same_end ty a1 ls r pre ety epost p ind ty' postS :
  end_search ls = Some (pre, ety, epost) -> all_space pre = false ->
  adm_search pre = Some (p, ind, ty', postS) ->
  step (ty, length a1, length a1) (a1 ++ ls :: r)
  = Ok (a1 ++ title_block ind ty postS ++ end_extra epost ++ r).
Proof.
  intros HE Hb HS. unfold step. rewrite nth_error_mid, HE. unfold end_extra.
  destruct epost as [|c epost].
  - rewrite set_at_mid, Hb, indent_range_clip, indent_range_le by lia.
    exact (step_finish ty a1 pre _ p ind ty' postS HS).
  - rewrite insert_at_1, insert_at_2, set_at_mid, Hb, indent_range_clip, indent_range_le by lia.
    exact (step_finish ty a1 pre _ p ind ty' postS HS).
Qed.

(* ====================================================================== *)
(* 4. the two passes, in a form suited to induction                        *)
(* ====================================================================== *)
Definition lift {A} (acc : list A) (r : result (list A)) : result (list A) :=
  match r with Ok x => Ok (acc ++ x) | Err e => Err e end.

(* _find_admonitions, emitting the records in order instead of appending to an accumulator *)
Fixpoint find_emit (idx : nat) (cur : option cur_t) (l : list str) : result (list adm) :=
  match l with
  | [] => Ok (match cur with Some c => [close_at c idx] | None => [] end)
  | line :: rest =>
    let '(em, cur1) :=
      match adm_search line with
      | Some (_, _, ty, _) =>
        (match cur with Some c => [close_at c idx] | None => [] end, Some (ty, idx, None))
      | None => ([], cur)
      end in
    match end_search line with
    | Some (_, ety, _) =>
      match cur1 with
      | None => Err EEndNoStart
      | Some (ty, st, _) =>
        if str_eqb (lower ety) (lower ty)
        then lift (em ++ [(ty, st, idx)]) (find_emit (S idx) None rest)
        else Err ETypeMismatch
      end
    | None =>
      match cur1 with
      | None => lift em (find_emit (S idx) None rest)
      | Some (ty, st, eo) =>
        let eo' := match eo with
                   | None => if is_empty line then Some idx else None
                   | Some _ => eo
                   end in
        lift em (find_emit (S idx) (Some (ty, st, eo')) rest)
      end
    end
  end.

Lemma lift_lift {A} (a b : list A) r : lift a (lift b r) = lift (a ++ b) r.
Proof. destruct r; simpl; [now rewrite app_assoc|reflexivity]. Qed.

Lemma find_loop_emit l : forall idx acc cur,
  find_loop idx acc cur l = lift acc (find_emit idx cur l).
Proof.
  induction l as [|x l IH]; intros idx acc cur.
  - simpl. destruct cur; simpl; [reflexivity|now rewrite app_nil_r].
  - cbn [find_loop find_emit].
    destruct (adm_search x) as [[[[p ind] ty] post]|]; destruct (end_search x) as [[[pre ety] epost]|];
      destruct cur as [[[cty cst] ceo]|]; cbn [fst snd];
      try destruct (str_eqb (lower ety) (lower ty)); try destruct (str_eqb (lower ety) (lower cty));
      try reflexivity; rewrite IH, ?lift_lift, ?app_nil_r, <- ?app_assoc; reflexivity.
Qed.

Lemma find_admonitions_emit l : find_admonitions l = find_emit 0 None l.
Proof.
  unfold find_admonitions. rewrite find_loop_emit. destruct (find_emit 0 None l); reflexivity.
Qed.

(* _process_admonitions: the last record first *)
Fixpoint process_rec (adms : list adm) (lines : list str) : result (list str) :=
  match adms with
  | [] => Ok lines
  | a :: more => bind (process_rec more lines) (step a)
  end.

Lemma process_admonitions_rec adms lines : process_admonitions adms lines = process_rec adms lines.
Proof.
  unfold process_admonitions. induction adms as [|a adms IH]; [reflexivity|].
  cbn [rev process_rec]. now rewrite fold_left_app, IH.
Qed.

Lemma process_rec_app a b lines :
  process_rec (a ++ b) lines = bind (process_rec b lines) (process_rec a).
Proof.
  induction a as [|x a IH]; simpl.
  - now destruct (process_rec b lines).
  - rewrite IH. destruct (process_rec b lines); reflexivity.
Qed.

(* ====================================================================== *)
(* 5. words of the rewritten pieces                                        *)
(* ====================================================================== *)
Lemma words_app l1 l2 : words (l1 ++ l2) = words l1 ++ words l2.
Proof. apply flat_map_app. Qed.
Lemma words_cons x l : words (x :: l) = words_line x ++ words l.
Proof. reflexivity. Qed.

Lemma INDENT_blank : blank INDENT.
Proof. repeat constructor. Qed.

Lemma words_indent1 x : words_line (indent1 x) = words_line x.
Proof. destruct x as [|c x]; [reflexivity|]. unfold indent1. apply words_blank_app, INDENT_blank. Qed.

Lemma words_map_indent1 m : words (map indent1 m) = words m.
Proof. induction m as [|x m IH]; [reflexivity|]. cbn [map]. now rewrite !words_cons, words_indent1, IH. Qed.

Lemma words_end_keep pre : words (map indent1 (end_keep pre)) = words_line pre.
Proof.
  unfold end_keep. destruct (all_space pre) eqn:E.
  - apply all_space_blank in E. now rewrite words_blank.
  - cbn [map]. rewrite words_cons, words_indent1. apply app_nil_r.
Qed.

Lemma words_end_extra epost : words (end_extra epost) = words_line epost.
Proof. destruct epost as [|c e]; [reflexivity|]. unfold end_extra. rewrite !words_cons. cbn [words_line words flat_map app]. apply app_nil_r. Qed.

(* the capitalised type is one solid word without '@' *)
Lemma upper_of_letter c : is_lower (lower_ch c) = true -> upper_ch c <> at_ch /\ is_space (upper_ch c) = false.
Proof.
  destruct c as [[] [] [] [] [] [] [] []]; vm_compute; intros H; first [discriminate H | split; [discriminate|reflexivity]].
Qed.

Lemma capitalize_good ty : typ_ok ty ->
  capitalize ty <> [] /\ solid (capitalize ty) /\ Forall (fun c => c <> at_ch) (capitalize ty).
Proof.
  intros H. destruct ty as [|c ty]; [now destruct (typ_solid [] H)|].
  split; [discriminate|]. cbn [capitalize].
  assert (Hc : is_lower (lower_ch c) = true /\ Forall (fun d => is_lower d = true) (lower ty)).
  { destruct (typ_cases _ H) as [E|[E|[E|[E|E]]]]; injection E as -> ->; split; repeat constructor. }
  destruct Hc as [Hc Hty]. destruct (upper_of_letter c Hc) as [H1 H2]. split; constructor; auto.
  - eapply Forall_impl; [|exact Hty]. intros d Hd. destruct (is_space d) eqn:E; [|reflexivity].
    exfalso. revert Hd E. clear. destruct d as [[] [] [] [] [] [] [] []]; vm_compute; congruence.
  - eapply Forall_impl; [|exact Hty]. intros d Hd ->. discriminate.
Qed.

Definition titled (y : str) : Prop :=
  exists ind ty, blank ind /\ typ_ok ty /\ y = title_line ind ty.

Lemma words_title ind ty : blank ind -> typ_ok ty ->
  words_line (title_line ind ty) = [s "@note"; capitalize ty].
Proof.
  intros Hi Hty. unfold title_line. destruct (capitalize_good ty Hty) as (Hne & Hsol & _).
  change (s "@note " ++ capitalize ty) with (s "@note" ++ " "%char :: capitalize ty).
  rewrite words_token0; [|exact Hi|discriminate|repeat constructor|reflexivity].
  f_equal. rewrite words_cons_space by reflexivity.
  rewrite <- (app_nil_r (capitalize ty)) at 1.
  rewrite words_solid_app; [reflexivity|exact Hne|exact Hsol|reflexivity].
Qed.

Lemma titled_end y : titled y -> end_search y = None.
Proof.
  intros (ind & ty & Hi & Hty & ->). unfold end_search, title_line.
  rewrite (scan_skip end_here ind _ end_here_at (blank_no_at ind Hi)).
  destruct (capitalize_good ty Hty) as (_ & _ & Hat).
  assert (E : scan end_here (s "@note " ++ capitalize ty) = None).
  { change (s "@note " ++ capitalize ty) with (at_ch :: s "note " ++ capitalize ty).
    cbn [scan]. assert (Hh : end_here (at_ch :: s "note " ++ capitalize ty) = None) by reflexivity.
    rewrite Hh. rewrite <- (app_nil_r (s "note " ++ capitalize ty)).
    rewrite (scan_skip end_here _ [] end_here_at).
    - reflexivity.
    - apply Forall_app. split; [repeat constructor; discriminate|exact Hat]. }
  now rewrite E.
Qed.

Lemma titled_indent y : titled y -> titled (indent1 y).
Proof.
  intros (ind & ty & Hi & Hty & ->). exists (INDENT ++ ind), ty. repeat split; auto.
  - apply Forall_app. split; [apply INDENT_blank|exact Hi].
  - unfold indent1, title_line. destruct (ind ++ s "@note " ++ capitalize ty) eqn:E.
    + destruct ind; discriminate E.
    + rewrite <- E. now rewrite <- app_assoc.
Qed.

Lemma words_title_block ind ty post : blank ind -> typ_ok ty ->
  words (title_block ind ty post) = [s "@note"; capitalize ty] ++ words_line post.
Proof.
  intros Hi Hty. unfold title_block. rewrite words_cons, words_title by assumption.
  destruct post as [|c post]; [reflexivity|]. rewrite words_cons. cbn [words flat_map].
  rewrite app_nil_r. f_equal. rewrite app_assoc. apply words_blank_app.
  apply Forall_app. split; [apply INDENT_blank|exact Hi].
Qed.

(* ====================================================================== *)
(* 6. the global argument                                                  *)
(* ====================================================================== *)
Definition plain (x : str) : Prop := adm_search x = None /\ end_search x = None.

(* an admonition opened at line [ls] (index length a1), lines a2 seen since, all plain *)
Record open_ok (a1 : list str) (ls : str) (a2 : list str) (ty : str) (eo : option nat)
       (ind post : str) : Prop := {
  oo_start : adm_search ls = Some ([], ind, ty, post);
  oo_noend : end_search ls = None;
  oo_ind : blank ind;
  oo_ty : typ_ok ty;
  oo_lw : lw ls = [s "@note"; capitalize ty] ++ words_line post;
  oo_plain : Forall plain a2;
  oo_eo : match eo with
          | None => True
          | Some e0 => exists m m2, a2 = m ++ [] :: m2 /\ e0 = length (a1 ++ ls :: m)
          end
}.

Lemma end_search_nil : end_search [] = None.
Proof. reflexivity. Qed.

Ltac wsolve :=
  repeat (rewrite words_app || rewrite words_end_keep || rewrite words_map_indent1 || rewrite words_cons
          || rewrite words_indent1 || rewrite words_end_extra);
  cbn [indent1 words_line app words flat_map]; rewrite <- ?app_assoc; cbn [app]; rewrite ?app_nil_r; reflexivity.

Lemma reassoc2 {A} (a : list A) x m z w : (a ++ x :: m ++ z) ++ w = a ++ x :: m ++ z ++ w.
Proof. app_norm. Qed.

(* closing the open admonition when the first line after it carries no end marker: that line is
   an earlier empty line, or the first line of [rest] (a title line), or there is none *)
Lemma close_noend a1 ls a2 ty eo ind post rest :
  open_ok a1 ls a2 ty eo ind post -> no_end_at rest ->
  exists T',
    step (ty, length a1, match eo with Some e0 => e0 | None => length (a1 ++ ls :: a2) end)
         ((a1 ++ ls :: a2) ++ rest) = Ok (a1 ++ title_block ind ty post ++ T')
    /\ words T' = words a2 ++ words rest.
Proof.
  intros [HS HE Hi Hty Hlw Hpl Heo] Hy. destruct eo as [e0|].
  - destruct Heo as (m & m2 & -> & ->). rewrite reassoc2. cbn [app].
    rewrite (step_far_noend ty a1 ls m _ [] ind ty post HS); [|exact end_search_nil].
    eexists. split; [reflexivity|]. wsolve.
  - rewrite reassoc.
    rewrite (step_far_noend ty a1 ls a2 rest [] ind ty post HS Hy).
    eexists. split; [reflexivity|]. wsolve.
Qed.

(* closing at a line [x] that carries the end marker *)
Lemma close_end a1 ls a2 ty eo ind post x pre ety epost T :
  open_ok a1 ls a2 ty eo ind post -> end_search x = Some (pre, ety, epost) ->
  exists T',
    step (ty, length a1, length (a1 ++ ls :: a2)) ((a1 ++ ls :: a2) ++ x :: T)
    = Ok (a1 ++ title_block ind ty post ++ T')
    /\ words T' = words a2 ++ words_line pre ++ words_line epost ++ words T.
Proof.
  intros [HS HE Hi Hty Hlw Hpl Heo] Hx. rewrite reassoc.
  rewrite (step_far_end ty a1 ls a2 x T [] ind ty post pre ety epost HS Hx).
  eexists. split; [reflexivity|]. wsolve.
Qed.

Definition starts_titled (T : list str) : Prop := exists y T', T = y :: T' /\ titled y.

Lemma title_block_titled ind ty post T : blank ind -> typ_ok ty ->
  starts_titled (title_block ind ty post ++ T).
Proof. intros Hi Hty. unfold title_block. eexists _, _. split; [reflexivity|]. now exists ind, ty. Qed.

(* what processing the records found in [r] (scanned from index length a in state cur) does *)
Definition post_cond (a : list str) (cur : option cur_t) (r : list str) (adms : list adm) : Prop :=
  match cur with
  | None =>
    exists T, process_rec adms (a ++ r) = Ok (a ++ T) /\ words T = flat_map lw r /\
              (match r with
               | x :: _ => (adm_search x <> None -> starts_titled T) /\ (plain x -> exists T', T = x :: T')
               | [] => True
               end)
  | Some (ty, st, eo) =>
    forall a1 ls a2 ind post,
      a = a1 ++ ls :: a2 -> st = length a1 -> open_ok a1 ls a2 ty eo ind post ->
      exists T', process_rec adms (a ++ r) = Ok (a1 ++ title_block ind ty post ++ T') /\
                 words T' = words a2 ++ flat_map lw r
  end.

Lemma lift_ok {A} (acc : list A) r x : lift acc r = Ok x -> exists y, r = Ok y /\ x = acc ++ y.
Proof. destruct r as [y|e]; simpl; intros H; [|discriminate]. injection H as <-. now exists y. Qed.

Lemma adm_search_nil : adm_search [] = None.
Proof. reflexivity. Qed.

Lemma process_one c L : process_rec [c] L = step c L.
Proof. reflexivity. Qed.

Lemma main r : forall a cur adms,
  Forall LF r -> find_emit (length a) cur r = Ok adms -> post_cond a cur r adms.
Proof.
  induction r as [|x r IH]; intros a cur adms HLF Hfind.
  - (* end of the text *)
    cbn [find_emit] in Hfind. injection Hfind as <-. destruct cur as [[[ty st] eo]|]; cbn [post_cond].
    + intros a1 ls a2 ind post -> -> Hopen. cbn [process_rec bind]. unfold close_at.
      destruct (close_noend a1 ls a2 ty eo ind post [] Hopen I) as (T' & Hs & Hw).
      exists T'. split; [exact Hs|]. cbn [flat_map]. exact Hw.
    + exists []. repeat split; auto.
  - inversion HLF as [|? ? Hx HLF']; subst. cbn [find_emit] in Hfind. unfold LF in Hx.
    assert (Hlen : S (length a) = length (a ++ [x])) by (rewrite app_length; simpl; lia).
    assert (Happ : forall z, a ++ x :: z = (a ++ [x]) ++ z) by (intros; app_norm).
    destruct (adm_search x) as [[[[p ind'] ty'] post']|] eqn:ES;
      destruct (end_search x) as [[[pre ety] epost]|] eqn:EE.
    + (* ---- start and end marker on x ---- *)
      destruct Hx as (-> & Hi' & Hty' & Hpre & postS & HSpre & Hlwx).
      destruct (str_eqb (lower ety) (lower ty')); [|destruct cur as [[[? ?] ?]|]; discriminate].
      assert (Hcommon : exists adms0 T0 em,
                 adms = (em ++ [(ty', length a, length a)]) ++ adms0 /\
                 em = match cur with Some c => [close_at c (length a)] | None => [] end /\
                 process_rec adms0 (a ++ x :: r) = Ok (a ++ x :: T0) /\ words T0 = flat_map lw r).
      { destruct cur as [[[cty cst] ceo]|]; apply lift_ok in Hfind as (adms0 & Hf0 & ->);
          rewrite Hlen in Hf0; destruct (IH _ _ _ HLF' Hf0) as (T0 & Hp0 & Hw0 & _);
          rewrite <- Happ in Hp0; rewrite <- (Happ T0) in Hp0; eauto 10. }
      destruct Hcommon as (adms0 & T0 & em & -> & Hem & Hp0 & Hw0).
      pose proof (step_same_end ty' a x T0 pre ety epost [] ind' ty' postS EE Hpre HSpre) as Hstep.
      set (T1 := end_extra epost ++ T0) in *.
      assert (Hw1 : words (title_block ind' ty' postS ++ T1) = lw x ++ flat_map lw r).
      { rewrite words_app, words_title_block by assumption. subst T1.
        rewrite words_app, words_end_extra, Hw0, Hlwx. now rewrite <- !app_assoc. }
      destruct cur as [[[cty cst] ceo]|]; cbn [post_cond]; subst em.
      * intros a1 ls a2 ind post -> -> Hopen.
        rewrite !process_rec_app, Hp0. cbn [process_rec bind app]. rewrite Hstep. cbn [bind].
        unfold close_at.
        unfold title_block at 1. cbn [app].
        match goal with |- context [ (a1 ++ ls :: a2) ++ title_line ind' ty' :: ?TT ] =>
          destruct (close_noend a1 ls a2 cty ceo ind post (title_line ind' ty' :: TT) Hopen
                      (titled_end _ (ex_intro _ ind' (ex_intro _ ty' (conj Hi' (conj Hty' eq_refl))))))
            as (T' & Hs & Hw) end.
        exists T'. split; [exact Hs|]. rewrite Hw. f_equal. exact Hw1.
      * rewrite !process_rec_app, Hp0. cbn [bind app process_rec]. rewrite Hstep. cbn [bind process_rec].
        eexists. split; [reflexivity|]. split; [exact Hw1|]. split.
        -- intros _. now apply title_block_titled.
        -- intros [Hc _]. congruence.
    + (* ---- start marker only ---- *)
      destruct Hx as (-> & Hi' & Hty' & Hlwx).
      assert (Hne : is_empty x = false).
      { destruct x; [rewrite adm_search_nil in ES; discriminate|reflexivity]. }
      rewrite Hne in Hfind.
      assert (Hopen' : open_ok a x [] ty' None ind' post').
      { constructor; auto. }
      assert (Hcommon : exists adms0 T0 em,
                 adms = em ++ adms0 /\
                 em = match cur with Some c => [close_at c (length a)] | None => [] end /\
                 process_rec adms0 (a ++ x :: r) = Ok (a ++ title_block ind' ty' post' ++ T0) /\
                 words T0 = flat_map lw r).
      { destruct cur as [[[cty cst] ceo]|]; apply lift_ok in Hfind as (adms0 & Hf0 & ->);
          rewrite Hlen in Hf0; pose proof (IH _ _ _ HLF' Hf0) as Hpc; cbn [post_cond] in Hpc;
          destruct (Hpc a x [] ind' post' eq_refl eq_refl Hopen') as (T0 & Hp0 & Hw0);
          rewrite <- Happ in Hp0; eauto 10. }
      destruct Hcommon as (adms0 & T0 & em & -> & Hem & Hp0 & Hw0).
      assert (Hw1 : words (title_block ind' ty' post' ++ T0) = lw x ++ flat_map lw r).
      { rewrite words_app, words_title_block by assumption. now rewrite Hw0, Hlwx. }
      destruct cur as [[[cty cst] ceo]|]; cbn [post_cond]; subst em.
      * intros a1 ls a2 ind post -> -> Hopen.
        rewrite process_rec_app, Hp0. cbn [process_rec bind app]. unfold close_at.
        unfold title_block at 1. cbn [app].
        match goal with |- context [ (a1 ++ ls :: a2) ++ title_line ind' ty' :: ?TT ] =>
          destruct (close_noend a1 ls a2 cty ceo ind post (title_line ind' ty' :: TT) Hopen
                      (titled_end _ (ex_intro _ ind' (ex_intro _ ty' (conj Hi' (conj Hty' eq_refl))))))
            as (T' & Hs & Hw) end.
        exists T'. split; [exact Hs|]. rewrite Hw. f_equal. exact Hw1.
      * cbn [app]. rewrite Hp0. eexists. split; [reflexivity|]. split; [exact Hw1|]. split.
        -- intros _. now apply title_block_titled.
        -- intros [Hc _]. congruence.
    + (* ---- end marker only ---- *)
      destruct cur as [[[cty cst] ceo]|]; [|discriminate].
      destruct (str_eqb (lower ety) (lower cty)); [|discriminate].
      apply lift_ok in Hfind as (adms0 & Hf0 & ->). rewrite Hlen in Hf0.
      destruct (IH _ _ _ HLF' Hf0) as (T0 & Hp0 & Hw0 & _).
      rewrite <- Happ in Hp0. rewrite <- (Happ T0) in Hp0.
      cbn [post_cond]. intros a1 ls a2 ind post -> -> Hopen. cbn [app].
      cbn [process_rec]. rewrite Hp0. cbn [bind].
      destruct (close_end a1 ls a2 cty ceo ind post x pre ety epost T0 Hopen EE) as (T' & Hs & Hw).
      exists T'. split; [exact Hs|]. rewrite Hw, Hw0. cbn [flat_map]. rewrite Hx.
      now rewrite <- !app_assoc.
    + (* ---- plain line ---- *)
      destruct cur as [[[cty cst] ceo]|].
      * apply lift_ok in Hfind as (adms0 & Hf0 & ->). rewrite Hlen in Hf0. cbn [app].
        pose proof (IH _ _ _ HLF' Hf0) as Hpc. cbn [post_cond] in *.
        intros a1 ls a2 ind post -> -> [HS HE Hi Hty Hlw Hpl Heo].
        assert (Hopen' : open_ok a1 ls (a2 ++ [x]) cty
                           match ceo with
                           | Some _ => ceo
                           | None => if is_empty x then Some (length (a1 ++ ls :: a2)) else None
                           end ind post).
        { constructor; auto.
          - apply Forall_app. split; auto. constructor; [now split|constructor].
          - destruct ceo as [e0|].
            + destruct Heo as (m & m2 & -> & ->). exists m, (m2 ++ [x]). split; [app_norm|reflexivity].
            + destruct (is_empty x) eqn:Hemp; [|exact I]. apply is_empty_spec in Hemp. subst x.
              exists a2, []. split; reflexivity. }
        destruct (Hpc a1 ls (a2 ++ [x]) ind post ltac:(app_norm) eq_refl Hopen') as (T' & Hp & Hw).
        rewrite <- Happ in Hp. exists T'. split; [exact Hp|].
        rewrite Hw, words_app, words_cons. cbn [words flat_map]. rewrite Hx, app_nil_r.
        now rewrite <- !app_assoc.
      * apply lift_ok in Hfind as (adms0 & Hf0 & ->). rewrite Hlen in Hf0. cbn [app].
        destruct (IH _ _ _ HLF' Hf0) as (T0 & Hp0 & Hw0 & _).
        rewrite <- Happ in Hp0. rewrite <- (Happ T0) in Hp0. cbn [post_cond].
        exists (x :: T0). split; [exact Hp0|]. split.
        -- rewrite words_cons, Hw0. cbn [flat_map]. now rewrite Hx.
        -- split; [congruence|]. intros _. now exists T0.
Qed.

(* ====================================================================== *)
(* 7. theorems                                                             *)
(* ====================================================================== *)
Lemma admon_ok_LF l : admon_ok l = true -> Forall LF (split_leading_text l).
Proof.
  unfold admon_ok, split_leading_text. rewrite forallb_forall. intros H. apply Forall_forall.
  intros y Hy. apply in_flat_map in Hy as (x & Hx & Hy). apply clean_LF.
  specialize (H x Hx). unfold line_clean in H. rewrite forallb_forall in H. now apply H.
Qed.

Lemma run_unfold l :
  run_passes l = bind (find_emit 0 None l) (fun adms => process_rec adms l).
Proof.
  unfold run_passes. rewrite find_admonitions_emit. destruct (find_emit 0 None l); simpl; [|reflexivity].
  apply process_admonitions_rec.
Qed.

(* the two passes on clean lines: when the first pass accepts the text, the second pass succeeds
   and the words of the result are exactly the specified ones *)
Lemma passes_total l adms :
  Forall LF l -> find_admonitions l = Ok adms ->
  exists out, run_passes l = Ok out /\ words out = flat_map lw l.
Proof.
  intros Hok Hf. rewrite find_admonitions_emit in Hf. rewrite run_unfold, Hf. cbn [bind].
  destruct (main l [] None adms Hok Hf) as (T & Hp & Hw & _). now exists T.
Qed.

Theorem admon_total l adms :
  admon_ok l = true -> find_admonitions (split_leading_text l) = Ok adms ->
  exists out, run l = Ok out /\ words out = spec_words l.
Proof.
  intros Hok Hf. destruct (passes_total _ _ (admon_ok_LF l Hok) Hf) as (out & Hr & Hw).
  exists out. split; [exact Hr|]. now rewrite Hw, <- spec_words_flat, split_words.
Qed.

Theorem admon_words l out :
  admon_ok l = true -> run l = Ok out -> words out = spec_words l.
Proof.
  intros Hok Hrun. destruct (find_admonitions (split_leading_text l)) as [adms|e] eqn:Hf.
  - destruct (admon_total l adms Hok Hf) as (out' & Hr & Hw). congruence.
  - unfold run, run_passes in Hrun. rewrite Hf in Hrun. discriminate.
Qed.

(* ---- errors ---- *)
Lemma lift_err {A} (acc : list A) r e : lift acc r = Err e -> r = Err e.
Proof. destruct r; simpl; congruence. Qed.

Lemma find_emit_errors l : forall i cur e,
  find_emit i cur l = Err e -> e = EEndNoStart \/ e = ETypeMismatch.
Proof.
  induction l as [|x l IH]; intros i cur e H; [discriminate|]. cbn [find_emit] in H.
  destruct (adm_search x) as [[[[p ind] ty] post]|]; destruct (end_search x) as [[[pre ety] epost]|];
    destruct cur as [[[cty cst] ceo]|];
    try destruct (str_eqb (lower ety) (lower ty)); try destruct (str_eqb (lower ety) (lower cty));
    try (injection H as <-; auto; fail); try (apply lift_err in H; eapply IH; exact H).
Qed.

(* on clean lines the only exceptions are the two documented ones, raised by the first pass:
   nothing is dropped silently and the second pass cannot fail *)
Theorem admon_errors l e :
  admon_ok l = true -> run l = Err e -> e = EEndNoStart \/ e = ETypeMismatch.
Proof.
  intros Hok Hrun. destruct (find_admonitions (split_leading_text l)) as [adms|e'] eqn:Hf.
  - destruct (admon_total l adms Hok Hf) as (out & Hr & _). congruence.
  - unfold run, run_passes in Hrun. rewrite Hf in Hrun. cbn [bind] in Hrun. injection Hrun as <-.
    rewrite find_admonitions_emit in Hf. eapply find_emit_errors; eauto.
Qed.

Lemma find_emit_plain_none P : forall i r,
  Forall plain P -> find_emit i None (P ++ r) = find_emit (i + length P) None r.
Proof.
  induction P as [|x P IH]; intros i r H; [cbn [app length]; now rewrite Nat.add_0_r|].
  inversion H as [|? ? [HS HE] HP]; subst. cbn [app find_emit]. rewrite HS, HE, IH by assumption.
  replace (i + length (x :: P)) with (S i + length P) by (simpl; lia).
  now destruct (find_emit (S i + length P) None r).
Qed.

Lemma find_emit_plain_some M : forall i ty st eo r,
  Forall plain M ->
  exists eo', find_emit i (Some (ty, st, eo)) (M ++ r) = find_emit (i + length M) (Some (ty, st, eo')) r.
Proof.
  induction M as [|x M IH]; intros i ty st eo r H.
  - exists eo. cbn [app length]. now rewrite Nat.add_0_r.
  - inversion H as [|? ? [HS HE] HM]; subst. cbn [app find_emit]. rewrite HS, HE.
    match goal with |- context [find_emit (S i) (Some (ty, st, ?e)) (M ++ r)] =>
      destruct (IH (S i) ty st e r HM) as (eo' & ->) end.
    exists eo'. replace (i + length (x :: M)) with (S i + length M) by (simpl; lia).
    now destruct (find_emit (S i + length M) (Some (ty, st, eo')) r).
Qed.

(* lines without a start marker, or with nothing before it, are not split *)
Lemma split_line_none x : adm_search x = None -> split_line x = [x].
Proof. unfold split_line. now intros ->. Qed.
Lemma split_line_nopre x ind ty post : adm_search x = Some ([], ind, ty, post) -> split_line x = [x].
Proof. unfold split_line. now intros ->. Qed.

Lemma split_plain P R : Forall plain P -> split_leading_text (P ++ R) = P ++ split_leading_text R.
Proof.
  intros H. induction H as [|x P [HS _] _ IH]; [reflexivity|].
  unfold split_leading_text in *. cbn [app flat_map]. now rewrite (split_line_none x HS), IH.
Qed.

Lemma split_cons x R : split_line x = [x] -> split_leading_text (x :: R) = x :: split_leading_text R.
Proof. intros H. unfold split_leading_text. cbn [flat_map]. now rewrite H. Qed.

(* an end marker with no box open raises *)
Theorem end_without_start P x R :
  Forall plain P -> adm_search x = None -> end_search x <> None ->
  run (P ++ x :: R) = Err EEndNoStart.
Proof.
  intros HP HS HE. unfold run. rewrite (split_plain P _ HP), (split_cons x R (split_line_none x HS)).
  rewrite run_unfold, find_emit_plain_none by assumption. cbn [find_emit].
  rewrite HS. destruct (end_search x) as [[[pre ety] epost]|]; [reflexivity|congruence].
Qed.

(* an end marker of another type than the open box raises *)
Theorem end_type_mismatch P st M x R ind ty post pre ety epost :
  Forall plain P -> adm_search st = Some ([], ind, ty, post) -> end_search st = None ->
  Forall plain M -> adm_search x = None -> end_search x = Some (pre, ety, epost) ->
  lower ety <> lower ty ->
  run (P ++ st :: M ++ x :: R) = Err ETypeMismatch.
Proof.
  intros HP HS HE HM HSx HEx Hne. unfold run.
  rewrite (split_plain P _ HP), (split_cons st _ (split_line_nopre st _ _ _ HS)), (split_plain M _ HM),
    (split_cons x R (split_line_none x HSx)).
  rewrite run_unfold, find_emit_plain_none by assumption.
  cbn [find_emit]. rewrite HS, HE.
  match goal with |- context [find_emit ?i (Some (ty, ?s, ?e)) (M ++ x :: ?R')] =>
    destruct (find_emit_plain_some M i ty s e (x :: R') HM) as (eo' & ->) end.
  cbn [find_emit]. rewrite HSx, HEx.
  assert (str_eqb (lower ety) (lower ty) = false) as -> by now apply str_eqb_neq.
  reflexivity.
Qed.

(* ---- the former defect doc-text-before-note-dropped: text before "@type" is kept ---- *)
Definition pretext_witness : list str := [s "alpha beta @note gamma"].

Theorem pretext_fixed :
  admon_ok pretext_witness = true /\
  run pretext_witness = Ok [s "alpha beta"; s "@note Note"; s "     gamma"] /\
  words [s "alpha beta"; s "@note Note"; s "     gamma"] = spec_words pretext_witness /\
  spec_words pretext_witness = [s "alpha"; s "beta"; s "@note"; s "Note"; s "gamma"].
Proof. vm_compute. repeat split. Qed.

(* "@note" inside a word is no marker *)
Theorem inside_word_fixed :
  admon_ok [s "mail joe@notebook.org now"] = true /\
  run [s "mail joe@notebook.org now"] = Ok [s "mail joe@notebook.org now"].
Proof. vm_compute. split; reflexivity. Qed.

(* ---- indentation: exactly the lines strictly inside a box get four more blanks ---- *)
(* one iteration of the second pass, any position of the box in the text: the lines strictly
   between the start line and the first line after the box are indented (empty lines stay empty),
   the lines before the box are untouched *)
Theorem step_indents ty a1 ls m rest p ind ty' post out :
  adm_search ls = Some (p, ind, ty', post) ->
  step (ty, length a1, length (a1 ++ ls :: m)) (a1 ++ ls :: m ++ rest) = Ok out ->
  exists tail, out = a1 ++ title_block ind ty post ++ map indent1 m ++ tail.
Proof.
  intros HS. destruct rest as [|le r].
  - rewrite (step_far_noend ty a1 ls m [] p ind ty' post HS I).
    intros H. injection H as <-. eexists. reflexivity.
  - destruct (end_search le) as [[[pre ety] epost]|] eqn:HE.
    + rewrite (step_far_end ty a1 ls m le r p ind ty' post pre ety epost HS HE).
      intros H. injection H as <-. eexists. reflexivity.
    + rewrite (step_far_noend ty a1 ls m (le :: r) p ind ty' post HS HE).
      intros H. injection H as <-. eexists. reflexivity.
Qed.

(* and the text after the box is left alone *)
Theorem step_rest_untouched ty a1 ls m rest p ind ty' post :
  adm_search ls = Some (p, ind, ty', post) -> no_end_at rest ->
  step (ty, length a1, length (a1 ++ ls :: m)) (a1 ++ ls :: m ++ rest)
  = Ok (a1 ++ title_block ind ty post ++ map indent1 m ++ rest).
Proof. exact (step_far_noend ty a1 ls m rest p ind ty' post). Qed.

(* the whole pre-processor on a box closed by its end marker, preceded by plain text and followed
   by any clean text *)
Record box_hyps (P : list str) (st : str) (M : list str) (x : str) (Q : list str)
       (ind ty post pre ety epost : str) : Prop := {
  bh_P : Forall plain P;
  bh_start : adm_search st = Some ([], ind, ty, post);
  bh_noend : end_search st = None;
  bh_ind : blank ind;
  bh_ty : typ_ok ty;
  bh_M : Forall plain M;
  bh_x : adm_search x = None;
  bh_end : end_search x = Some (pre, ety, epost);
  bh_same : lower ety = lower ty;
  bh_Q : admon_ok Q = true
}.

Lemma box_run P st M x Q ind ty post pre ety epost out :
  box_hyps P st M x Q ind ty post pre ety epost ->
  run (P ++ st :: M ++ x :: Q) = Ok out ->
  exists T0,
    out = P ++ title_block ind ty post ++ map indent1 M ++ map indent1 (end_keep pre)
            ++ end_extra epost ++ T0
    /\ words T0 = spec_words Q
    /\ match split_leading_text Q with q :: _ => plain q -> exists T', T0 = q :: T' | [] => T0 = [] end.
Proof.
  intros [HP HS HE Hi Hty HM HSx HEx Hsame HQ]. unfold run.
  rewrite (split_plain P _ HP), (split_cons st _ (split_line_nopre st _ _ _ HS)), (split_plain M _ HM),
    (split_cons x Q (split_line_none x HSx)).
  pose proof (admon_ok_LF Q HQ) as HLF. pose proof (split_words Q) as HspQ.
  set (Q' := split_leading_text Q) in *.
  rewrite run_unfold.
  rewrite find_emit_plain_none by assumption. cbn [find_emit]. rewrite HS, HE.
  assert (Hne : is_empty st = false).
  { destruct st; [rewrite adm_search_nil in HS; discriminate|reflexivity]. }
  rewrite Hne.
  destruct (find_emit_plain_some M (S (0 + length P)) ty (0 + length P) None (x :: Q') HM) as (eo' & ->).
  cbn [find_emit]. rewrite HSx, HEx.
  assert (str_eqb (lower ety) (lower ty) = true) as -> by now apply str_eqb_eq.
  cbn [app].
  assert (Hidx : S (S (0 + length P) + length M) = length ((P ++ st :: M) ++ [x]))
    by (repeat (rewrite app_length || cbn [length]); lia).
  rewrite Hidx.
  destruct (find_emit (length ((P ++ st :: M) ++ [x])) None Q') as [adms0|e] eqn:Hf0; [|discriminate].
  cbn [lift bind app process_rec].
  destruct (main Q' ((P ++ st :: M) ++ [x]) None adms0 HLF Hf0) as (T0 & Hp0 & Hw0 & Hhd).
  replace (P ++ st :: M ++ x :: Q') with (((P ++ st :: M) ++ [x]) ++ Q') by app_norm.
  rewrite Hp0. cbn [bind].
  replace (((P ++ st :: M) ++ [x]) ++ T0) with (P ++ st :: M ++ x :: T0) by app_norm.
  replace (0 + length P) with (length P) by lia.
  replace (S (length P) + length M) with (length (P ++ st :: M)) by (rewrite app_length; simpl; lia).
  rewrite (step_far_end ty P st M x T0 [] ind ty post pre ety epost HS HEx).
  intros H. injection H as <-. exists T0. split; [reflexivity|]. split.
  - now rewrite Hw0, <- spec_words_flat.
  - destruct Q' as [|q Q'']; [|exact (proj2 Hhd)].
    cbn [find_emit] in Hf0. injection Hf0 as <-. cbn [process_rec] in Hp0. injection Hp0 as Hp0.
    apply app_inv_head in Hp0. now symmetry.
Qed.

Theorem box_indent P st M x Q ind ty post pre ety epost out :
  box_hyps P st M x Q ind ty post pre ety epost ->
  run (P ++ st :: M ++ x :: Q) = Ok out ->
  exists T,
    out = P ++ title_block ind ty post ++ map indent1 M ++ map indent1 (end_keep pre) ++ T
    /\ words T = words_line epost ++ spec_words Q.
Proof.
  intros Hb Hrun. destruct (box_run _ _ _ _ _ _ _ _ _ _ _ _ Hb Hrun) as (T0 & -> & Hw & _).
  eexists. split; [reflexivity|]. now rewrite words_app, words_end_extra, Hw.
Qed.

(* exactness (the former defect doc-line-after-box-indented): the plain line that follows the
   end-marker line keeps its indentation *)
Theorem box_exact P st M x q Q ind ty post pre ety epost out :
  box_hyps P st M x (q :: Q) ind ty post pre ety epost -> plain q ->
  run (P ++ st :: M ++ x :: q :: Q) = Ok out ->
  exists T', out = P ++ title_block ind ty post ++ map indent1 M ++ map indent1 (end_keep pre)
                     ++ end_extra epost ++ q :: T'.
Proof.
  intros Hb Hq Hrun. destruct (box_run _ _ _ _ _ _ _ _ _ _ _ _ Hb Hrun) as (T0 & -> & _ & Hhd).
  rewrite (split_cons q Q (split_line_none q (proj1 Hq))) in Hhd.
  destruct (Hhd Hq) as (T' & ->). now exists T'.
Qed.

Definition pullin_witness : list str := [s "@note"; s "a"; s "@endnote"; s "b"].

(* the former witnesses: the line after the box is not pulled in, consecutive boxes do not nest *)
Theorem pullin_fixed :
  run pullin_witness = Ok [s "@note Note"; s "    a"; s "b"] /\
  run [s "@note a"; s "@warning b"] = Ok [s "@note Note"; s "     a"; s "@note Warning"; s "     b"].
Proof. split; reflexivity. Qed.

(* ---- non-vacuity ---- *)
Definition sample_body : list str :=
  [s "intro words"; s "@note first box"; s "- item one"; s "  @endnote"; []; s "between";
   s "  @Warning"; s "text inside"; s "tail @endwarning after"; s "lead text @todo one line @endtodo";
   s "mail joe@notebook.org"; s "@bug"; s "last words"].

Example admon_words_ex :
  admon_ok sample_body = true /\
  exists out, run sample_body = Ok out /\ words out = spec_words sample_body /\
              In (s "Warning") (words out) /\ In (s "after") (words out) /\ In (s "lead") (words out).
Proof.
  split; [reflexivity|]. eexists. split; [reflexivity|]. split; [reflexivity|].
  repeat split; vm_compute; tauto.
Qed.

Example admon_errors_ex :
  admon_ok [s "text"; s "@endnote"] = true /\ run [s "text"; s "@endnote"] = Err EEndNoStart /\
  admon_ok [s "@note"; s "x"; s "@endbug"] = true /\ run [s "@note"; s "x"; s "@endbug"] = Err ETypeMismatch.
Proof. repeat split. Qed.

Example box_hyps_ex :
  box_hyps [s "intro"] (s "  @note title") [s "  body"; []; s "  more"] (s "  last @endnote")
           [s "after"; s "pre @bug x"] (s "  ") (s "note") (s " title") (s "  last") (s "note") [] /\
  plain (s "after").
Proof. split; [constructor; try reflexivity; repeat constructor|split; reflexivity]. Qed.
