(* Base/StrXFacts.v -- lemmas about Base/StrX.v and about strip / lower of Base/Str.v *)
From Coq Require Import Lia.
From Ford Require Import Base.Str Base.StrFacts Base.StrX.

Lemma seqb_refl a : seqb a a = true.
Proof. induction a as [|c a IH]; simpl; [reflexivity|]. now rewrite Ascii.eqb_refl. Qed.

Lemma seqb_eq a b : seqb a b = true <-> a = b.
Proof.
  split.
  - revert b; induction a as [|c a IH]; intros [|d b] H; simpl in H; try discriminate; auto.
    destruct (Ascii.eqb c d) eqn:E; [|discriminate]. apply Ascii.eqb_eq in E. subst. f_equal. auto.
  - intros ->. apply seqb_refl.
Qed.

Lemma seqb_neq a b : seqb a b = false <-> a <> b.
Proof.
  split.
  - intros H E. apply seqb_eq in E. congruence.
  - intros H. destruct (seqb a b) eqn:E; auto. apply seqb_eq in E. contradiction.
Qed.

(* ------------------------------------------------------------------ strip *)
Lemma lstrip_head c x : is_space c = false -> lstrip (c :: x) = c :: x.
Proof. intros H. simpl. now rewrite H. Qed.

Lemma lstrip_space c x : is_space c = true -> lstrip (c :: x) = lstrip x.
Proof. intros H. simpl. now rewrite H. Qed.

Lemma rev_last_head (x : str) d : x <> [] -> exists y, rev x = last x d :: y.
Proof.
  intros N. destruct (exists_last N) as (x' & a & ->).
  rewrite rev_app_distr, last_last. simpl. eauto.
Qed.

Lemma rstrip_id x : (forall d, x <> [] -> is_space (last x d) = false) -> rstrip x = x.
Proof.
  intros H. unfold rstrip. destruct x as [|c x]; [reflexivity|].
  destruct (rev_last_head (c :: x) c) as (y & E); [discriminate|].
  rewrite E, lstrip_head by (apply H; discriminate). rewrite <- E. apply rev_involutive.
Qed.

Lemma last_indep (x : str) d d' : x <> [] -> last x d = last x d'.
Proof.
  induction x as [|a x IH]; intros N; [congruence|].
  destruct x as [|b x]; [reflexivity|].
  change (last (a :: b :: x) d) with (last (b :: x) d).
  change (last (a :: b :: x) d') with (last (b :: x) d'). apply IH. discriminate.
Qed.

Lemma last_app (a b : str) d : b <> [] -> last (a ++ b) d = last b d.
Proof. intros N. destruct (exists_last N) as (b' & z & ->). now rewrite app_assoc, !last_last. Qed.

(* first and last character are not white space *)
Definition stripped (x : str) : bool :=
  match x with
  | [] => true
  | c :: _ => negb (is_space c) && negb (is_space (last x c))
  end.

Lemma stripped_strip x : stripped x = true -> strip x = x.
Proof.
  unfold stripped, strip. destruct x as [|c x]; [reflexivity|].
  intros H. apply andb_true_iff in H as [H1 H2]. apply negb_true_iff in H1, H2.
  rewrite lstrip_head by exact H1. apply rstrip_id. intros d N.
  now rewrite (last_indep (c :: x) d c N).
Qed.

Lemma strip_space_head c x : is_space c = true -> strip (c :: x) = strip x.
Proof. intros H. unfold strip. now rewrite lstrip_space. Qed.

Lemma stripped_app (a b : str) c r :
  a = c :: r -> is_space c = false -> b <> [] -> is_space (last b c) = false -> stripped (a ++ b) = true.
Proof.
  intros -> Hc Nb Hl. unfold stripped. cbn [app]. apply andb_true_iff. split; [now rewrite Hc|].
  apply negb_true_iff. change (c :: r ++ b) with ((c :: r) ++ b). now rewrite last_app.
Qed.

(* ------------------------------------------------------------------ blanks *)
Definition sp : ascii := " "%char.

Lemma strip_blanks n x : strip (repeat sp n ++ x) = strip x.
Proof. induction n as [|n IH]; [reflexivity|]. simpl. rewrite strip_space_head by reflexivity. exact IH. Qed.

Lemma skip_ws_blanks n x : skip_ws (repeat sp n ++ x) = skip_ws x.
Proof. induction n as [|n IH]; [reflexivity|]. simpl. exact IH. Qed.

Lemma skip_ws_head c x : is_space c = false -> skip_ws (c :: x) = c :: x.
Proof. intros H. simpl. now rewrite H. Qed.

Lemma remove_ws_app x y : remove_ws (x ++ y) = remove_ws x ++ remove_ws y.
Proof. unfold remove_ws. apply filter_app. Qed.

Lemma remove_ws_blanks n : remove_ws (repeat sp n) = [].
Proof. induction n as [|n IH]; [reflexivity|]. simpl. exact IH. Qed.

Lemma remove_ws_id x : existsb is_space x = false -> remove_ws x = x.
Proof.
  induction x as [|c x IH]; simpl; [reflexivity|]. intros H. apply orb_false_iff in H as [H1 H2].
  unfold remove_ws in *. simpl. rewrite H1. simpl. now rewrite IH.
Qed.

Lemma remove_ws_lstrip x : remove_ws (lstrip x) = remove_ws x.
Proof.
  induction x as [|c x IH]; [reflexivity|]. cbn [lstrip]. destruct (is_space c) eqn:E; [|reflexivity].
  unfold remove_ws in *. cbn [filter]. rewrite E. exact IH.
Qed.

Lemma remove_ws_rev x : remove_ws (rev x) = rev (remove_ws x).
Proof.
  unfold remove_ws. induction x as [|c x IH]; [reflexivity|]. simpl.
  rewrite filter_app, IH. simpl. destruct (negb (is_space c)); simpl; [reflexivity|now rewrite app_nil_r].
Qed.

Lemma remove_ws_strip x : remove_ws (strip x) = remove_ws x.
Proof.
  unfold strip, rstrip. rewrite remove_ws_rev, remove_ws_lstrip, remove_ws_rev, rev_involutive.
  apply remove_ws_lstrip.
Qed.

(* ------------------------------------------------------------------ take_while *)
Lemma take_while_all p k c r : forallb p k = true -> p c = false ->
  take_while p (k ++ c :: r) = (k, c :: r).
Proof.
  intros H N. induction k as [|a k IH]; simpl.
  - now rewrite N.
  - simpl in H. apply andb_true_iff in H as [Ha Hk]. rewrite Ha, (IH Hk). reflexivity.
Qed.

Lemma take_while_end p k : forallb p k = true -> take_while p k = (k, []).
Proof.
  intros H. induction k as [|a k IH]; simpl; [reflexivity|].
  simpl in H. apply andb_true_iff in H as [Ha Hk]. rewrite Ha, (IH Hk). reflexivity.
Qed.

(* ------------------------------------------------------------------ letter case *)
Lemma lower_ch_idem c : lower_ch (lower_ch c) = lower_ch c.
Proof.
  unfold lower_ch. destruct (is_upper c) eqn:U; [|now rewrite U].
  unfold is_upper in *. apply andb_true_iff in U as [U1 U2]. apply Nat.leb_le in U1, U2.
  unfold code in *. rewrite nat_ascii_embedding by lia.
  replace ((65 <=? nat_of_ascii c + 32) && (nat_of_ascii c + 32 <=? 90)) with false; [reflexivity|].
  symmetry. apply andb_false_iff. right. apply Nat.leb_gt. lia.
Qed.

Lemma lower_upper_ch c : is_lower c = true -> lower_ch (upper_ch c) = c.
Proof.
  intros L. unfold upper_ch. rewrite L. unfold lower_ch, is_upper, is_lower, code in *.
  apply andb_true_iff in L as [L1 L2]. apply Nat.leb_le in L1, L2.
  rewrite nat_ascii_embedding by lia.
  replace ((65 <=? nat_of_ascii c - 32) && (nat_of_ascii c - 32 <=? 90)) with true.
  - replace (nat_of_ascii c - 32 + 32) with (nat_of_ascii c) by lia. apply ascii_nat_embedding.
  - symmetry. apply andb_true_iff. split; apply Nat.leb_le; lia.
Qed.

Lemma lower_ch_lower c : is_lower c = true -> lower_ch c = c.
Proof.
  intros L. unfold lower_ch, is_upper, is_lower in *. apply andb_true_iff in L as [L1 L2].
  apply Nat.leb_le in L1, L2.
  replace ((65 <=? code c) && (code c <=? 90)) with false; [reflexivity|].
  symmetry. apply andb_false_iff. right. apply Nat.leb_gt. lia.
Qed.

Lemma upper_ch_alpha c : is_lower c = true -> is_upper (upper_ch c) = true.
Proof.
  intros L. unfold upper_ch. rewrite L. unfold is_upper, is_lower, code in *.
  apply andb_true_iff in L as [L1 L2]. apply Nat.leb_le in L1, L2.
  rewrite nat_ascii_embedding by lia. apply andb_true_iff. split; apply Nat.leb_le; lia.
Qed.

(* [w] matches, up to case, any prefix whose lower-cased form it is *)
Lemma match_ci_app p w r : map lower_ch p = w -> match_ci w (p ++ r) = Some r.
Proof.
  revert w. induction p as [|c p IH]; intros w E; subst w; simpl; [reflexivity|].
  rewrite Ascii.eqb_refl. now apply IH.
Qed.

(* a failure on the lower-cased text is a failure on the text *)
Lemma match_ci_lower w x : match_ci w (map lower_ch x) = None -> match_ci w x = None.
Proof.
  revert x. induction w as [|a w IH]; intros [|b x]; simpl; try discriminate; auto.
  rewrite lower_ch_idem. destruct (Ascii.eqb a (lower_ch b)); auto.
Qed.
