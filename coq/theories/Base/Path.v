(* Base/Path.v -- POSIX paths as component lists, with the three operations the URL model needs:
   [normalise] (os.path.normpath of an absolute path), [relpath target start] (os.path.relpath of
   two absolute paths) and [resolve dir rel] (what a browser / the file system does with a
   relative reference [rel] found in a document that lives in directory [dir]).
   A path is the list of its components below the root; "/" itself is [].
   Executable definitions only; lemmas are in Out/UrlsProofs.v. *)
From Ford Require Import Base.Str.

Definition dot : str := s ".".
Definition dotdot : str := s "..".
Definition slash : ascii := "/"%char.

(* a "real" component: not empty, not "." and not ".." *)
Definition real (x : str) : bool :=
  negb (str_eqb x [] || str_eqb x dot || str_eqb x dotdot).

(* a clean component additionally contains no '/' (so that rendering and splitting round-trip) *)
Definition no_slash (x : str) : bool := forallb (fun c => negb (ch_eqb c slash)) x.
Definition clean_comp (x : str) : bool := real x && no_slash x.
Definition clean (p : list str) : bool := forallb clean_comp p.

(* one step of normpath on a *reversed* stack of components: empty and "." are dropped,
   ".." pops (and is dropped at the root, as POSIX normpath does for absolute paths) *)
Definition step (stk : list str) (x : str) : list str :=
  if str_eqb x [] || str_eqb x dot then stk
  else if str_eqb x dotdot then tl stk
  else x :: stk.

Definition normalise (p : list str) : list str := rev (fold_left step p []).

(* the document in directory [dir] (absolute) refers to [rel] (relative reference) *)
Definition resolve (dir rel : list str) : list str := normalise (dir ++ rel).

Fixpoint strip_common (a b : list str) : list str * list str :=
  match a, b with
  | x :: a', y :: b' => if str_eqb x y then strip_common a' b' else (a, b)
  | _, _ => (a, b)
  end.

(* os.path.relpath(target, start) for absolute arguments: both are normalised, the common
   prefix of the component lists is dropped, one ".." per remaining component of [start];
   "." when nothing is left *)
Definition relpath (target start : list str) : list str :=
  let (t, st) := strip_common (normalise target) (normalise start) in
  match repeat dotdot (length st) ++ t with
  | [] => [dot]
  | r => r
  end.

Definition parent (p : list str) : list str := removelast p.

(* ---------- strings <-> component lists ---------- *)

Fixpoint split_on (sep : ascii) (x : str) (cur : str) : list str :=
  match x with
  | [] => [rev cur]
  | c :: x' => if ch_eqb c sep then rev cur :: split_on sep x' [] else split_on sep x' (c :: cur)
  end.
(* "/a//b/" -> ["";"a";"";"b";""]  (empties are dropped by [step]) *)
Definition split_path (x : str) : list str := split_on slash x [].

Definition render_rel (p : list str) : str := join [slash] p.
Definition render_abs (p : list str) : str := slash :: join [slash] p.

(* os.path.relpath on strings naming absolute paths *)
Definition relpath_str (target start : str) : str :=
  render_rel (relpath (split_path target) (split_path start)).
(* os.path.normpath on a string naming an absolute path (without the POSIX "//" special case) *)
Definition normpath_str (x : str) : str := render_abs (normalise (split_path x)).
