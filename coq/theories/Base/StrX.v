(* Base/StrX.v -- further string operations for the models (definitions only).
   Short-circuit versions of equality / prefix tests (the ones of Base/Str.v use [&&], which the
   strict evaluation of vm_compute turns into full traversals), case-insensitive matching,
   Python's str.find / split / strip on ASCII. *)
From Coq Require Import ZArith.
From Ford Require Import Base.Str.

Fixpoint seqb (a b : str) : bool :=
  match a, b with
  | [], [] => true
  | x :: a', y :: b' => if Ascii.eqb x y then seqb a' b' else false
  | _, _ => false
  end.

Fixpoint sin (x : str) (l : list str) : bool :=
  match l with [] => false | y :: l' => if seqb x y then true else sin x l' end.

Fixpoint prefix (p x : str) : bool :=
  match p, x with
  | [], _ => true
  | a :: p', b :: x' => if Ascii.eqb a b then prefix p' x' else false
  | _ :: _, [] => false
  end.

(* [w] (lower case) is a prefix of [x] up to letter case: the rest of [x] after it *)
Fixpoint match_ci (w x : str) : option str :=
  match w, x with
  | [], _ => Some x
  | a :: w', b :: x' => if Ascii.eqb a (lower_ch b) then match_ci w' x' else None
  | _ :: _, [] => None
  end.

Fixpoint skip_ws (x : str) : str :=
  match x with c :: x' => if is_space c then skip_ws x' else x | [] => [] end.

(* re.sub(r"\s", "", x) and x.replace(" ", "") *)
Definition remove_ws (x : str) : str := filter (fun c => negb (is_space c)) x.
Definition is_blank (c : ascii) : bool := Ascii.eqb c " "%char.
Definition remove_blanks (x : str) : str := filter (fun c => negb (is_blank c)) x.

Fixpoint take_while (p : ascii -> bool) (x : str) : str * str :=
  match x with
  | c :: x' => if p c then let (a, b) := take_while p x' in (c :: a, b) else ([], x)
  | [] => ([], [])
  end.

(* str.find(c): index of the first occurrence *)
Fixpoint find_ch (c : ascii) (x : str) : option nat :=
  match x with
  | [] => None
  | d :: x' => if Ascii.eqb c d then Some 0 else option_map S (find_ch c x')
  end.

(* text before the LAST occurrence of [c], when there is one *)
Fixpoint before_last (c : ascii) (x : str) : option str :=
  match x with
  | [] => None
  | d :: x' =>
    match before_last c x' with
    | Some y => Some (d :: y)
    | None => if Ascii.eqb c d then Some [] else None
    end
  end.

(* position of the first occurrence of the two-character text "::": text before and after *)
Fixpoint split_dcolon (x : str) : option (str * str) :=
  match x with
  | a :: ((b :: r) as x') =>
    if Ascii.eqb a ":"%char && Ascii.eqb b ":"%char then Some ([], r)
    else match split_dcolon x' with Some (u, v) => Some (a :: u, v) | None => None end
  | _ => None
  end.

Definition chr_eq (a b : ascii) : bool := Ascii.eqb a b.

(* str.split(c): pieces between occurrences of [c], empty pieces kept *)
Fixpoint split_on_go (c : ascii) (x cur : str) : list str :=
  match x with
  | [] => [rev cur]
  | d :: x' => if Ascii.eqb d c then rev cur :: split_on_go c x' [] else split_on_go c x' (d :: cur)
  end.
Definition split_on (c : ascii) (x : str) : list str := split_on_go c x [].
