(* Corr/C04.v — judge for the C04 correspondence.
   A case is (scope kind, scope body, what FORD returned): None = the parser raised, Some l = the
   entities of the scope with `entity.permission`, in the order functions, subroutines, types,
   interfaces, absinterfaces, variables, procedures of nameless/abstract interfaces, then the
   components and bindings of every type. *)
From Ford Require Import Base.Str Sem.Access.

Definition case := (scope_kind * list sstmt * option (list ent))%type.

(* the type body an entity belongs to (first type of that name) *)
Fixpoint find_type (owner : str) (body : list sstmt) : option (list tstmt) :=
  match body with
  | [] => None
  | SType n _ tb :: r => if str_eqb owner n then Some tb else find_type owner r
  | _ :: r => find_type owner r
  end.

Definition count_types (owner : str) (body : list sstmt) : nat :=
  length (filter (fun st => match st with SType n _ _ => str_eqb owner n | _ => false end) body).

Definition same_child (e x : ent) : bool :=
  ekind_eqb (e_kind e) (e_kind x) && str_eqb (e_name e) (e_name x).

(* Some code = the implementation's answer for e violates the Spec; code = region bits (0 = none) *)
Definition check_ent (sk : scope_kind) (body : list sstmt) (e : ent) : option nat :=
  if top_level e then
    if valid_for sk body (e_kind e) (e_name e)
       && negb (perm_eqb (e_perm e) (fortran_perm sk body (e_kind e) (e_name e)))
    then Some (match sk with ScModule => region body (e_kind e) (e_name e) | ScSubmodule => 0 end)
    else None
  else
    match find_type (e_owner e) body with
    | Some tb =>
        if twf 0 tb && Nat.eqb (count_types (e_owner e) body) 1 then
          match filter (same_child e) (fortran_tperms (e_owner e) tb) with
          | [x] => if perm_eqb (e_perm e) (e_perm x) then None else Some 0
          | _ => None
          end
        else None
    | None => None
    end.

Fixpoint collect (l : list (option nat)) : list nat :=
  match l with
  | [] => []
  | Some c :: r => c :: collect r
  | None :: r => collect r
  end.

(* every declared entity must be reported when the program is structurally fine *)
Definition all_twf (body : list sstmt) : bool :=
  forallb (fun st => match st with SType _ _ tb => twf 0 tb | _ => true end) body.
Definition complete (sk : scope_kind) (body : list sstmt) (out : list ent) : bool :=
  negb (all_twf body) || Nat.eqb (length out) (length (fortran_perms sk body)).

Definition judge (c : case) : nat :=
  let '(sk, body, impl) := c in
  let mismatch := negb (opt_eqb (list_eqb ent_eqb) (ford_perms sk body) impl) in
  match impl with
  | None => verdict mismatch false 0
  | Some out =>
      let bad := collect (map (check_ent sk body) out) in
      let incomplete := struct_ok false body && negb (complete sk body out) in
      if incomplete || existsb (Nat.eqb 0) bad then verdict mismatch true 0
      else match bad with
           | [] => verdict mismatch false 0
           | _ => verdict mismatch true (fold_left Nat.lor bad 0)
           end
  end.

(* the model's answer, for diagnostics *)
Definition model_of (c : case) : option (list ent) := let '(sk, body, _) := c in ford_perms sk body.
