(* Corr/C20.v — judge for the rejection half of property C20: files that are invalid by
   construction (cut inside a unit, END with nothing open) against ford.sourceform.FortranSourceFile.
   case: file name, statements, implementation result (tree, or error), must_reject (the generator
   built the file so that it is invalid: Props/C20.v proves the model rejects every such file) *)
From Ford Require Import Base.Str Sem.Tree Corr.C01.

Definition judge_reject (c : str * list stmt * (ent + nat) * bool) : nat :=
  let '(fname, stmts, impl, must_reject) := c in
  let model := parse_file fname stmts in
  let m := match model, impl with
           | POk e [], inl t => negb (ent_eqb (S (ent_size e + ent_size t)) e t)
           | PErr _, inr _ => false
           | _, _ => true
           end in
  (* Spec: an invalid file is rejected, whatever else FORD makes of it *)
  let sp := match impl with inl _ => must_reject | inr _ => false end in
  verdict m sp 0.
