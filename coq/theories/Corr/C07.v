(* Corr/C07.v — judge for the C07 correspondence: reference slots of one program unit after
   Project.correlate(), compared with the model (Sem/Scope.v correlate) and with the Spec *)
From Ford Require Import Base.Str Sem.Scope.

(* short constructors for the harness *)
Definition V (n : str) (r : option tyref) : var := {| v_name := n; v_ref := r |}.
Definition B (n : str) (d : bool) (p : option str) (ts : list str) : binding :=
  {| b_name := n; b_deferred := d; b_proto := p; b_targets := ts |}.
Definition T (n : str) (e : option str) (cs : list var) (bs : list binding) (fs : list str) : dtype :=
  {| t_name := n; t_extends := e; t_comps := cs; t_binds := bs; t_finals := fs |}.
Definition G (n : str) (ps : list str) : generic := {| g_name := n; g_modprocs := ps |}.
Definition Sr (p : list str) (k : skind) (procs abs : list str) (ts : list dtype) (gs : list generic)
              (vs : list var) (imps : list (cls * (str * ent))) : srec :=
  {| s_path := p; s_kind := k; s_procs := procs; s_abs := abs; s_types := ts; s_generics := gs;
     s_vars := vs; s_imports := imps |}.
(* an observed slot: scope path, slot, entity found by the implementation (None = still a string) *)
Definition O (p : list str) (d : sdesc) (e : option ent) : list str * sdesc * option ent := (p, d, e).

Definition sdesc_eqb (a b : sdesc) : bool :=
  match a, b with
  | SVar x, SVar y => str_eqb x y
  | SComp t x, SComp t' y => str_eqb t t' && str_eqb x y
  | SExtends t, SExtends t' => str_eqb t t'
  | SBindTarget t x i, SBindTarget t' y j => str_eqb t t' && str_eqb x y && Nat.eqb i j
  | SBindProto t x, SBindProto t' y => str_eqb t t' && str_eqb x y
  | SFinal t i, SFinal t' j => str_eqb t t' && Nat.eqb i j
  | SCtor t, SCtor t' => str_eqb t t'
  | SModproc g i, SModproc g' j => str_eqb g g' && Nat.eqb i j
  | _, _ => false
  end.
Definition find_res (l : list res) (p : list str) (d : sdesc) : option res :=
  find (fun r => list_eqb str_eqb (r_scope r) p && sdesc_eqb (r_slot r) d) l.

(* every observed slot is a slot of [l] with the same entity, and the numbers of slots agree *)
Definition agrees (l : list res) (obs : list (list str * sdesc * option ent)) : bool :=
  Nat.eqb (length l) (length obs)
  && forallb (fun o => match find_res l (fst (fst o)) (snd (fst o)) with
                       | Some r => opt_eqb ent_eqb (r_ent r) (snd o)
                       | None => false
                       end) obs.

(* regions of the known findings, decidable on the input:
   1  a scope contains a procedure whose name a host scope also gives to a procedure
      (all_procs is updated WITH the parent's: the contained procedure does not shadow)
   2  an identifier is declared more than once in the unit, or is referenced from a scope where it
      is not visible although another scope of the unit declares it (declarations leak to siblings
      and hosts through the shared dictionaries); 1 is a special case of 2 *)
Definition region_shadow (evs : list event) : bool :=
  let all := scopes_of evs in
  existsb (fun Sc => match s_kind Sc with
                     | KUnit => false
                     | _ => existsb (fun n => match resolve_in all (removelast (s_path Sc)) CProc n with
                                              | Some _ => true
                                              | None => false
                                              end) (s_procs Sc)
                     end) all.
Definition region_leak (evs : list event) : bool :=
  negb (names_unique_per_root evs) || negb (refs_visible_or_undeclared evs).

Definition case := (list event * list (list str * sdesc * option ent))%type.
Definition judge (c : case) : nat :=
  let evs := fst c in
  verdict (negb (agrees (correlate evs) (snd c))) (negb (agrees (spec evs) (snd c)))
          ((if region_shadow evs then 1 else 0) + (if region_leak evs then 2 else 0)
           + (if wf_events evs then 0 else 4)).

(* ancestor_module / parent_submodule: (names of the candidate units in project order, the name
   written in the SUBMODULE statement, the unit the implementation attached) *)
Definition judge_unit (c : list str * str * option str) : nat :=
  let units := fst (fst c) in
  let n := snd (fst c) in
  let found := snd c in
  verdict (negb (opt_eqb str_eqb (find_unit units n) found))
          (match found with
           | Some u => negb (str_in u units && str_eqb (lower u) (lower n))
           | None => existsb (fun u => str_eqb (lower u) (lower n)) units
           end) 0.
