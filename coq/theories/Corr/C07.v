(* Corr/C07.v — judge for the C07 correspondence: reference slots of one program unit after
   Project.correlate(), compared with the model (Sem/Scope.v correlate) and with the Spec *)
From Ford Require Import Base.Str Sem.Scope.

(* short constructors for the harness *)
Definition V (n : str) (r : option tyref) : var := {| v_name := n; v_ref := r |}.
Definition B (n : str) (d : bool) (p : option str) (ts : list str) : binding :=
  {| b_name := n; b_deferred := d; b_proto := p; b_targets := ts |}.
Definition T (n : str) (e : option str) (cs : list var) (bs : list binding) (fs : list str) : dtype :=
  {| t_name := n; t_extends := e; t_comps := cs; t_binds := bs; t_finals := fs |}.
Definition G (n : str) (ps : list str) : generic := {| g_name := n; g_modprocs := ps |}.
Definition Sr (p : list str) (k : skind) (procs abs : list str) (ts : list dtype) (gs : list generic)
              (vs : list var) (imps : list (cls * (str * ent))) (host : list str) : srec :=
  {| s_path := p; s_kind := k; s_procs := procs; s_abs := abs; s_types := ts; s_generics := gs;
     s_vars := vs; s_imports := imps; s_host := host |}.
(* an observed slot: scope path, slot, entity found by the implementation (None = still a string) *)
Definition O (p : list str) (d : sdesc) (e : option ent) : list str * sdesc * option ent := (p, d, e).

Definition sdesc_eqb (a b : sdesc) : bool :=
  match a, b with
  | SVar x, SVar y => str_eqb x y
  | SComp t x, SComp t' y => str_eqb t t' && str_eqb x y
  | SExtends t, SExtends t' => str_eqb t t'
  | SBindTarget t x i, SBindTarget t' y j => str_eqb t t' && str_eqb x y && Nat.eqb i j
  | SBindProto t x, SBindProto t' y => str_eqb t t' && str_eqb x y
  | SFinal t i, SFinal t' j => str_eqb t t' && Nat.eqb i j
  | SCtor t, SCtor t' => str_eqb t t'
  | SModproc g i, SModproc g' j => str_eqb g g' && Nat.eqb i j
  | _, _ => false
  end.
Definition find_res (l : list res) (p : list str) (d : sdesc) : option res :=
  find (fun r => list_eqb str_eqb (r_scope r) p && sdesc_eqb (r_slot r) d) l.

(* every observed slot is a slot of [l] with the same entity, and the numbers of slots agree *)
Definition agrees (l : list res) (obs : list (list str * sdesc * option ent)) : bool :=
  Nat.eqb (length l) (length obs)
  && forallb (fun o => match find_res l (fst (fst o)) (snd (fst o)) with
                       | Some r => opt_eqb ent_eqb (r_ent r) (snd o)
                       | None => false
                       end) obs.

(* The Spec is only asked about legal units (scopes_legal: no own/import clash, no ambiguous
   import in one scope). *)
Definition case := (list event * list (list str * sdesc * option ent))%type.
(* the implementation agrees with the Spec on every slot on which the model agrees with the Spec
   (on legal, well-formed units the model agrees with the Spec on every slot: C07_full) *)
Definition agrees_x (lm ls : list res) (obs : list (list str * sdesc * option ent)) : bool :=
  Nat.eqb (length ls) (length obs)
  && forallb (fun o => match find_res ls (fst (fst o)) (snd (fst o)), find_res lm (fst (fst o)) (snd (fst o)) with
                       | Some rs, Some rm => negb (opt_eqb ent_eqb (r_ent rm) (r_ent rs))
                                             || opt_eqb ent_eqb (r_ent rs) (snd o)
                       | _, _ => false
                       end) obs.
(* bit 1: the implementation differs from the Spec on a slot where the model agrees with the Spec;
   region value: 2 not a legal unit (Spec not asked), 4 not a well-formed event list, 8 the
   implementation differs from the Spec somewhere *)
Definition judge (c : case) : nat :=
  let evs := fst c in
  let legal := scopes_legal evs in
  verdict (negb (agrees (correlate evs) (snd c))) (legal && negb (agrees_x (correlate evs) (spec evs) (snd c)))
          ((if legal then 0 else 2)
           + (if wf_events evs then 0 else 4) + (if legal && negb (agrees (spec evs) (snd c)) then 8 else 0)).

(* ancestor_module / parent_submodule: (names of the candidate units in project order, the name
   written in the SUBMODULE statement, the unit the implementation attached) *)
Definition judge_unit (c : list str * str * option str) : nat :=
  let units := fst (fst c) in
  let n := snd (fst c) in
  let found := snd c in
  verdict (negb (opt_eqb str_eqb (find_unit units n) found))
          (match found with
           | Some u => negb (str_in u units && str_eqb (lower u) (lower n))
           | None => existsb (fun u => str_eqb (lower u) (lower n)) units
           end) 0.
