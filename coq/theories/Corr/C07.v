(* Corr/C07.v — judge for the C07 correspondence: reference slots of one program unit after
   Project.correlate(), compared with the model (Sem/Scope.v correlate) and with the Spec *)
From Ford Require Import Base.Str Sem.Scope.

(* short constructors for the harness *)
Definition V (n : str) (r : option tyref) : var := {| v_name := n; v_ref := r |}.
Definition B (n : str) (d : bool) (p : option str) (ts : list str) : binding :=
  {| b_name := n; b_deferred := d; b_proto := p; b_targets := ts |}.
Definition T (n : str) (e : option str) (cs : list var) (bs : list binding) (fs : list str) : dtype :=
  {| t_name := n; t_extends := e; t_comps := cs; t_binds := bs; t_finals := fs |}.
Definition G (n : str) (ps : list str) : generic := {| g_name := n; g_modprocs := ps |}.
Definition Sr (p : list str) (k : skind) (procs abs : list str) (ts : list dtype) (gs : list generic)
              (vs : list var) (imps : list (cls * (str * ent))) : srec :=
  {| s_path := p; s_kind := k; s_procs := procs; s_abs := abs; s_types := ts; s_generics := gs;
     s_vars := vs; s_imports := imps |}.
(* an observed slot: scope path, slot, entity found by the implementation (None = still a string) *)
Definition O (p : list str) (d : sdesc) (e : option ent) : list str * sdesc * option ent := (p, d, e).

Definition sdesc_eqb (a b : sdesc) : bool :=
  match a, b with
  | SVar x, SVar y => str_eqb x y
  | SComp t x, SComp t' y => str_eqb t t' && str_eqb x y
  | SExtends t, SExtends t' => str_eqb t t'
  | SBindTarget t x i, SBindTarget t' y j => str_eqb t t' && str_eqb x y && Nat.eqb i j
  | SBindProto t x, SBindProto t' y => str_eqb t t' && str_eqb x y
  | SFinal t i, SFinal t' j => str_eqb t t' && Nat.eqb i j
  | SCtor t, SCtor t' => str_eqb t t'
  | SModproc g i, SModproc g' j => str_eqb g g' && Nat.eqb i j
  | _, _ => false
  end.
Definition find_res (l : list res) (p : list str) (d : sdesc) : option res :=
  find (fun r => list_eqb str_eqb (r_scope r) p && sdesc_eqb (r_slot r) d) l.

(* every observed slot is a slot of [l] with the same entity, and the numbers of slots agree *)
Definition agrees (l : list res) (obs : list (list str * sdesc * option ent)) : bool :=
  Nat.eqb (length l) (length obs)
  && forallb (fun o => match find_res l (fst (fst o)) (snd (fst o)) with
                       | Some r => opt_eqb ent_eqb (r_ent r) (snd o)
                       | None => false
                       end) obs.

(* regions of the known findings, decidable on the input:
   1  a scope contains a procedure whose name a host scope also gives to a procedure
      (all_procs is updated WITH the parent's: the contained procedure does not shadow)
   2  an identifier of a shared dictionary (types, abstract interfaces) is declared more than once
      in the unit, or is referenced from a scope where it is not visible although another scope of
      the unit declares it (declarations leak to siblings and hosts through the shared dictionaries) *)
Definition all_decls (c : cls) (all : list srec) : list (str * ent) :=
  flat_map (fun Sc => own Sc (own_names Sc c) ++ imports_of Sc c) all.
Fixpoint functional_b (l : list (str * ent)) : bool :=
  match l with
  | [] => true
  | (n, e) :: l' => forallb (fun kv => negb (str_eqb (fst kv) n) || ent_eqb (snd kv) e) l' && functional_b l'
  end.
Definition region_shadow (evs : list event) : bool :=
  let all := scopes_of evs in
  existsb (fun Sc => match s_kind Sc with
                     | KUnit => false
                     | _ => existsb (fun n => match resolve_in all (removelast (s_path Sc)) CProc n with
                                              | Some _ => true
                                              | None => false
                                              end) (s_procs Sc)
                     end) all.
Definition declared_in (all : list srec) (c : cls) (n : str) : bool := str_in n (map fst (all_decls c all)).
Definition region_leak (evs : list event) : bool :=
  let all := scopes_of evs in
  negb (functional_b (all_decls CType all)) || negb (functional_b (all_decls CAbs all ++ all_decls CProc all))
  || existsb (fun r => match r_ent r with
                       | Some _ => false
                       | None => match r_look r with
                                 | LType => declared_in all CType (r_name r)
                                 | LProc => declared_in all CProc (r_name r)
                                 | LProcAbs => declared_in all CProc (r_name r) || declared_in all CAbs (r_name r)
                                 end
                       end) (spec evs).

Definition case := (list event * list (list str * sdesc * option ent))%type.
Definition judge (c : case) : nat :=
  let evs := fst c in
  verdict (negb (agrees (correlate evs) (snd c))) (negb (agrees (spec evs) (snd c)))
          ((if region_shadow evs then 1 else 0) + (if region_leak evs then 2 else 0)).

(* ancestor_module / parent_submodule: (names of the candidate units in project order, the name
   written in the SUBMODULE statement, the unit the implementation attached) *)
Definition judge_unit (c : list str * str * option str) : nat :=
  let units := fst (fst c) in
  let n := snd (fst c) in
  let found := snd c in
  verdict (negb (opt_eqb str_eqb (find_unit units n) found))
          (match found with
           | Some u => negb (str_in u units && str_eqb (lower u) (lower n))
           | None => existsb (fun u => str_eqb (lower u) (lower n)) units
           end) 0.
