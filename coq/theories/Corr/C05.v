(* Corr/C05.v — judge for the C05 correspondence.
   A case is (configuration, entity tree of one source file, what FORD did): for every node
   (id, still reachable through the entity lists after Project.correlate(), `visible` flag), and the ids of
   the entities that are in the project's page lists. *)
From Ford Require Import Base.Str Sem.Access Sem.Display.

Definition case := (cfg * node * list out * list nat)%type.

Fixpoint lookup (i : nat) (l : list out) : option (bool * bool) :=
  match l with
  | [] => None
  | (j, k, v) :: r => if Nat.eqb i j then Some (k, v) else lookup i r
  end.

Definition mem (i : nat) (l : list nat) : bool := existsb (Nat.eqb i) l.
Definition subset (a b : list nat) : bool := forallb (fun i => mem i b) a.
Definition same_set (a b : list nat) : bool := subset a b && subset b a.

Definition out_agrees (impl : list out) (o : out) : bool :=
  match lookup (fst (fst o)) impl with
  | Some (k, v) => Bool.eqb k (snd (fst o)) && Bool.eqb v (snd o)
  | None => false
  end.

Fixpoint region_lookup (i : nat) (l : list (nat * nat)) : nat :=
  match l with
  | [] => 64
  | (j, r) :: rest => if Nat.eqb i j then r else region_lookup i rest
  end.

Definition clean (r : nat) : nat := r.

(* ids on which FORD's outcome differs from the Spec *)
Definition spec_bad (c : cfg) (t : node) (impl : list out) (pg : list nat) : list nat :=
  let s := selected c t in
  let kept := map (fun o => fst (fst o)) (filter (fun o => snd (fst o)) impl) in
  let vis := map (fun o => fst (fst o)) (filter (fun o => snd o) impl) in
  let sp := spec_pages c t in
  filter (fun i => negb (mem i s)) kept              (* documented although not selected *)
  ++ filter (fun i => negb (mem i kept)) s           (* selected but dropped *)
  ++ filter (fun i => negb (mem i s)) vis            (* may be linked although not selected *)
  ++ filter (fun i => negb (mem i sp)) pg            (* has a page although not selected *)
  ++ filter (fun i => negb (mem i pg)) sp.           (* selected, of a kind with a page, but no page *)

Definition judge (x : case) : nat :=
  let '(c, t, impl, pg) := x in
  let model := run c t in
  let mismatch := negb (forallb (out_agrees impl) model && Nat.eqb (length model) (length impl)
                        && same_set (pages c t) pg) in
  if negb (cfg_ok c && well_kinded t && is_file t) then verdict mismatch false 0
  else
    let rs := regions c t in
    let bad := map (fun i => clean (region_lookup i rs)) (spec_bad c t impl pg) in
    match bad with
    | [] => verdict mismatch false 0
    | _ => if existsb (Nat.eqb 0) bad then verdict mismatch true 0
           else verdict mismatch true (fold_left Nat.lor bad 0)
    end.

(* diagnostics: nodes on which the model and FORD differ, page sets, ids on which FORD and the Spec differ *)
Definition diagnose (x : case) :=
  let '(c, t, impl, pg) := x in
  (filter (fun o => negb (out_agrees impl o)) (run c t), pages c t, pg,
   map (fun i => (i, region_lookup i (regions c t))) (spec_bad c t impl pg)).
