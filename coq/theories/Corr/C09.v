(* Corr/C09.v -- judge for the C09 correspondence: each case carries an input and what the real
   FORD code returned for it; the judge compares with the model (bit 0) and evaluates the
   property on the implementation's output (bit 1); bits >= 2 give the known region. *)
From Ford Require Import Base.Str Base.Path Out.Names Out.Urls Gen.NavConds Out.Nav.

Inductive case :=
| CRelpath (target start out : str)                  (* os.path.relpath(target, start) *)
| CProjectUrl (outdir page out : str)                (* BasePage(...).project_url, relative mode *)
| CRelurl (pre href post : str) (has_link dead_only : bool) (page out : str)
      (* relative_url(pre+href+post, page); has_link: href is the href of the first <a> that has one;
         dead_only: the text has <a> elements but none with href *)
| CUrlOf (e : entity) (out : option str)             (* e.get_url() *)
| CDocLink (base ctx target : str) (frag : option str) (out : str)
      (* href of [[ref]] converted with context=entity whose get_url() is ctx; ref's get_url() = target#frag *)
| CPageLink (base current target : str) (frag : option str) (out : str)
      (* href of [[ref]] converted with path=current (static pages, project front page) *)
| CMdLink (base current target out : str)            (* [t](target) through RelativeLinksTreeProcessor *)
| CNav (c : counts) (emitted pages targets_exist : list bool).

Definition opt_str_eqb := opt_eqb str_eqb.

Definition with_frag (x : str) (frag : option str) : str :=
  x ++ match frag with Some f => s "#" ++ f | None => [] end.

(* the part of [x] before the first '#' *)
Fixpoint before_hash (x : str) : str :=
  match x with
  | [] => []
  | c :: x' => if ch_eqb c "#"%char then [] else c :: before_hash x'
  end.

Definition middle (pre post out : str) : str :=
  rev (skipn (length post) (rev (skipn (length pre) out))).

Definition is_prefix (p x : list str) : bool :=
  list_eqb str_eqb p (firstn (length p) x).

(* model of RelativeLinksTreeProcessor._fix_attrib *)
Definition md_link (base current target : str) : str :=
  let b := normalise (split_path base) in
  let t := normalise (split_path target) in
  if is_prefix b t && (length b <? length t)
  then render_rel (relpath t (split_path current)) else target.

Fixpoint any_broken (emitted exist : list bool) : bool :=
  match emitted, exist with
  | e :: es, x :: xs => (e && negb x) || any_broken es xs
  | _, _ => false
  end.

Definition count_slashes (x : str) : nat := length (filter (ch_eqb slash) x).

Definition judge (k : case) : nat :=
  match k with
  | CRelpath target start out =>
      verdict (negb (str_eqb (relpath_str target start) out))
              (negb (list_eqb str_eqb (resolve (split_path start) (split_path out))
                                      (normalise (split_path target)))) 0
  | CProjectUrl outdir page out =>
      verdict (negb (str_eqb (page_project_url true [] (normalise (split_path outdir))
                                 (skipn (length (normalise (split_path outdir))) (normalise (split_path page)))) out))
              (negb (list_eqb str_eqb (resolve (parent (split_path page)) (split_path out))
                                      (normalise (split_path outdir)))) 0
  | CRelurl pre href post has_link dead_only page out =>
      let absolute := starts_with [slash] href && has_link in
      verdict (negb (str_eqb (relative_url_str pre href post has_link dead_only page) out))
              (absolute &&
               negb (list_eqb str_eqb
                       (resolve (parent (split_path page)) (split_path (middle pre post out)))
                       (normalise (split_path href)))) 0
  | CUrlOf e out =>
      verdict (negb (opt_str_eqb (option_map render_url (url_of e)) out)
               || negb (opt_str_eqb (obj_of (e_kind e)) (Some (e_obj e))) && negb (opt_str_eqb (obj_of (e_kind e)) None))
              (match out with
               | Some u => negb (url_is_relative u) || negb (count_slashes (before_hash u) =? 1)
                           || (1 <? length (filter (ch_eqb "#"%char) u))
               | None => false
               end) 0
  | CDocLink base ctx target frag out =>
      let b := normalise (split_path base) in
      let t := split_path target in
      verdict (negb (str_eqb (with_frag (render_rel (doc_link b (split_path ctx) t)) frag) out))
              (negb (list_eqb str_eqb (resolve (b ++ [s "lists"]) (split_path (before_hash out))) (b ++ t))
               || negb (str_eqb (with_frag (before_hash out) frag) out)) 0
  | CPageLink base current target frag out =>
      let b := normalise (split_path base) in
      let t := split_path target in
      verdict (negb (str_eqb (with_frag (render_rel (relpath (b ++ t) (split_path current))) frag) out))
              (negb (list_eqb str_eqb (resolve (split_path current) (split_path (before_hash out))) (b ++ t))
               || negb (str_eqb (with_frag (before_hash out) frag) out)) 0
  | CMdLink base current target out =>
      verdict (negb (str_eqb (md_link base current target) out))
              (negb (starts_with [slash] out) &&
               negb (list_eqb str_eqb (resolve (split_path current) (split_path out))
                                      (normalise (split_path target)))) 0
  | CNav c emitted pages texist =>
      verdict (negb (list_eqb Bool.eqb (model_emitted c) emitted)
               || negb (list_eqb Bool.eqb (model_pages c) pages))
              (any_broken emitted texist)
              0
  end.
