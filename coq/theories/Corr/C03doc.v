(* Corr/C03doc.v — judges for the documentation-text half of C03:
   meta_preprocessor / read_metadata and AdmonitionPreprocessor.run *)
From Ford Require Import Base.Str Doc.Meta Doc.Admon.

(* ---------- metadata ---------- *)
Definition mdict_eqb (a b : mdict) : bool :=
  list_eqb (pair_eqb str_eqb (list_eqb str_eqb)) a b.

(* is [b] a suffix of [l]? then the consumed header *)
Definition header_of (l b : list str) : option (list str) :=
  let n := length l - length b in
  if (length b <=? length l) && list_eqb str_eqb (skipn n l) b then Some (firstn n l) else None.

(* a consumed line must be a metadata line (key or continuation) or a delimiter (blank, ---, ...) *)
Definition meta_or_delim_b (x : str) : bool :=
  Meta.is_blank x || m_end x
  || match m_meta x with Some _ => true | None => false end
  || match m_more x with Some _ => true | None => false end.

Definition meta_spec_ok (l b : list str) : bool :=
  match header_of l b with
  | Some h => forallb meta_or_delim_b h
  | None => false
  end.

(* case: (mode, field names, input lines, impl meta, impl body);
   mode 0 = utils.meta_preprocessor, mode 1 = read_metadata (pre-step + meta_preprocessor).
   Spec: the body is a suffix of the comment and every consumed line is a metadata line or a
   delimiter; in mode 1 with the protecting empty line, the whole comment is the body. *)
Definition judge_meta (c : nat * list str * list str * mdict * list str) : nat :=
  let '(mode, fields, l, im, ib) := c in
  let '(mm, mb) := match mode with 0 => meta_preprocessor l | _ => read_metadata fields l end in
  verdict (negb (mdict_eqb mm im && list_eqb str_eqb mb ib)) (negb (meta_spec_ok l ib)) 0.

(* ---------- admonitions ---------- *)
Definition aerr_code (e : aerr) : nat :=
  match e with EEndNoStart => 1 | ETypeMismatch => 2 | EMissingStart => 3 | EIndex => 4 end.

Definition res_eqb (m : result (list str)) (i : list str + nat) : bool :=
  match m, i with
  | Ok a, inl b => list_eqb str_eqb a b
  | Err e, inr n => Nat.eqb (aerr_code e) n
  | _, _ => false
  end.

(* region: 2 = some line is not clean (markers glued to other text / several markers of a kind on
   one line: outside the word-level specification), 0 = the domain of C03_admon_words.
   (Region 1, text before a start marker, was the recorded defect doc-text-before-note-dropped;
   it is repaired and belongs to region 0 now.) *)
Definition admon_region (l : list str) : nat := if admon_ok l then 0 else 2.

(* Spec on the implementation's output: no word dropped, duplicated or reordered; an exception
   is not a silent loss, but on clean lines only the two documented exceptions may occur
   (C03_admon_errors / C03_admon_total) *)
Definition admon_spec_ok (l : list str) (i : list str + nat) : bool :=
  match i with
  | inl out => list_eqb str_eqb (words out) (spec_words l)
  | inr n => negb (admon_ok l) || Nat.eqb n 1 || Nat.eqb n 2
  end.

Definition judge_admon (c : list str * (list str + nat)) : nat :=
  let '(l, impl) := c in
  verdict (negb (res_eqb (run l) impl)) (negb (admon_spec_ok l impl)) (admon_region l).

(* ---------- one comment shared by the variables of one declaration ---------- *)
(* case: (field names, the doc lines delivered for the declaration, per declared variable in order:
   the metadata found and the doc lines left).  Every variable is documented by the whole comment:
   model: each gets read_metadata of the delivered lines; spec: all variables get the same metadata
   and the same body, and that body is the comment minus a documented header. *)
Definition shared_res_eqb (a b : mdict * list str) : bool :=
  mdict_eqb (fst a) (fst b) && list_eqb str_eqb (snd a) (snd b).

Definition judge_shared (c : list str * list str * list (mdict * list str)) : nat :=
  let '(fields, l, rs) := c in
  let m := read_metadata fields l in
  let l' := read_metadata_pre fields l in
  verdict (negb (forallb (shared_res_eqb m) rs))
          (negb (match rs with
                 | [] => true
                 | r0 :: _ => forallb (shared_res_eqb r0) rs && forallb (fun r => meta_spec_ok l' (snd r)) rs
                 end)) 0.
