(* Corr/C19.v — judge for the C19 correspondence: traced file-system operations and before/after
   snapshots of real FORD runs in a sandbox vs. Out/FsModel.v *)
From Ford Require Import Base.Str Out.FsModel.
From Coq Require Import String NArith.

Definition op_eqb (a b : op) : bool :=
  match a, b with
  | RmTree p, RmTree q | Unlink p, Unlink q | MkDir p, MkDir q
  | MkDirParents p, MkDirParents q | Write p, Write q => path_eqb p q
  | Copy a1 b1, Copy a2 b2 | CopyTree a1 b1, CopyTree a2 b2 | Rename a1 b1, Rename a2 b2 =>
    path_eqb a1 a2 && path_eqb b1 b2
  | _, _ => false
  end.

Definition node_eqb (a b : node) : bool :=
  match a, b with
  | Dir, Dir => true
  | File x, File y => Nat.eqb x y
  | Link a, Link b => path_eqb a b
  | _, _ => false
  end.

Fixpoint lookup {V} (p : path) (l : list (path * V)) : option V :=
  match l with
  | [] => None
  | (k, v) :: l' => if path_eqb p k then Some v else lookup p l'
  end.

Fixpoint prefix_ops (a b : list op) : bool :=
  match a, b with
  | [], _ => true
  | x :: a', y :: b' => op_eqb x y && prefix_ops a' b'
  | _ :: _, [] => false
  end.

Fixpoint subseq_ops (a b : list op) : bool :=
  match b with
  | [] => match a with [] => true | _ => false end
  | y :: b' =>
    match a with
    | [] => true
    | x :: a' => if op_eqb x y then subseq_ops a' b' else subseq_ops a b'
    end
  end.

(* metadata snapshot entry: (is a directory, identifier of (kind, content hash, mode, mtime)) *)
Definition meta := (bool * N)%type.
Definition meta_eqb (a b : meta) : bool := Bool.eqb (fst a) (fst b) && N.eqb (snd a) (snd b).

Record case := {
  k_mode : nat;                        (* 0 complete run, 1 crash (prefix), 2 injected OSError *)
  k_links : links; k_dir : path; k_pkg : path;
  k_rcfg : rcfg; k_proj : proj; k_cands : list cand;
  k_pre : list (path * node);          (* sandbox before the run (content ids by hash) *)
  k_pkgfs : list (path * node);        (* the package's asset directories *)
  k_pre_meta : list (path * meta);
  (* what the implementation did *)
  i_refused : bool;
  i_out : path; i_gd : option path; i_srcs : list path; i_excl : list path;
  i_ops : list op;
  k_candidates : list path;            (* files of the sandbox with a source-file extension *)
  i_found : option (list path);        (* project.allfiles, when the project was built *)
  i_post : list (path * node);
  i_post_meta : list (path * meta) }.

Definition model_cfg (k : case) : cfg := normalise_cfg (k_links k) (k_dir k) (k_pkg k) (k_rcfg k).
Definition model_fs0 (k : case) : fs := of_list (k_pre k ++ k_pkgfs k).
Definition model_ops (k : case) : list op :=
  let c := model_cfg k in
  ford_ops (is_file (model_fs0 k) (out c)) (k_pkg k) c (k_proj k) (k_cands k).

Definition cfg_agrees (k : case) : bool :=
  let c := model_cfg k in
  path_eqb (out c) (i_out k) && opt_eqb path_eqb (graph_dir c) (i_gd k)
  && list_eqb path_eqb (srcs c) (i_srcs k) && list_eqb path_eqb (excl c) (i_excl k).

(* find_all_files: the files FORD documents are the candidates the model's [discovered] keeps *)
Definition mem_path (p : path) (l : list path) : bool := existsb (path_eqb p) l.
Definition discovery_agrees (k : case) : bool :=
  match i_found k with
  | None => true
  | Some found =>
    let kept := filter (discovered (model_cfg k)) (k_candidates k) in
    forallb (fun f => mem_path f kept) found && forallb (fun f => mem_path f found) kept
  end.

Definition final_agrees (k : case) : bool :=
  let f := run (model_ops k) (model_fs0 k) in
  forallb (fun p => opt_eqb node_eqb (f p) (lookup p (i_post k)))
          (map fst (k_pre k) ++ map fst (i_post k) ++ flat_map targets (model_ops k)).

Definition model_mismatch (k : case) : bool :=
  negb (cfg_agrees k)
  || negb (Bool.eqb (refuse (model_cfg k)) (i_refused k))
  || negb (discovery_agrees k)
  || match k_mode k with
     | 0 => negb (list_eqb op_eqb (model_ops k) (i_ops k)) || negb (final_agrees k)
     | 1 => negb (prefix_ops (i_ops k) (model_ops k))
     | 2 => negb (subseq_ops (i_ops k) (model_ops k))
     | _ => false                        (* 3: untraced subprocess run, snapshots only *)
     end.

(* ---- the property, evaluated on what the implementation reported and did ---- *)

Definition i_roots (k : case) : list path :=
  i_out k :: match i_gd k with Some g => [g] | None => [] end.

Definition proper_anc (rs : list path) (p : path) : bool :=
  existsb (fun r => prefixb p r && negb (path_eqb p r)) rs.

(* a copy of a tree onto itself cannot create, change or delete anything (the destination
   exists whenever the source does): not counted as touching its target *)
Definition self_copy (o : op) : bool :=
  match o with CopyTree a b => path_eqb a b | _ => false end.

Definition targets_ok (rs : list path) (ops : list op) : bool :=
  forallb (fun o => self_copy o || forallb (under_anyb rs) (targets o)) ops.

Definition snap_agree_outside (rs : list path) (pre post : list (path * meta)) : bool :=
  forallb (fun e => under_anyb rs (fst e) || opt_eqb meta_eqb (lookup (fst e) post) (Some (snd e))) pre
  && forallb (fun e => under_anyb rs (fst e) ||
                       match lookup (fst e) pre with
                       | Some m => meta_eqb m (snd e)
                       | None => fst (snd e) && proper_anc rs (fst e)
                       end) post.

Definition must_refuse (k : case) : bool := existsb (fun sd => prefixb (i_out k) sd) (i_srcs k).

Definition spec_violation (k : case) : bool :=
  if must_refuse k
  then negb (i_refused k && match i_ops k with [] => true | _ => false end
             && snap_agree_outside [] (k_pre_meta k) (i_post_meta k))
  else negb (targets_ok (i_roots k) (i_ops k))
       || negb (snap_agree_outside (i_roots k) (k_pre_meta k) (i_post_meta k)).

(* no known region is left: both recorded defects are repaired and their witnesses are ordinary
   regression inputs *)
Definition region (k : case) : nat := 0.

Definition rp (a : bool) (l : list str) : rpath := {| rp_abs := a; rp_comps := l |}.
Definition cd (entries : list str) (idx : bool) (stem : str) (cp : list rpath) (files : list str) : cand :=
  {| cd_entries := entries; cd_index := idx; cd_stem := stem; cd_copy := cp; cd_files := files |}.

Definition judge (k : case) : nat := verdict (model_mismatch k) (spec_violation k) (region k).

(* ---- readable diagnostics for replays ---- *)

Definition show_path (p : path) : string :=
  string_of_list_ascii (flat_map (fun c => "/"%char :: c) p).

Definition show_op (o : op) : string :=
  match o with
  | RmTree p => "RmTree " ++ show_path p
  | Unlink p => "Unlink " ++ show_path p
  | MkDir p => "MkDir " ++ show_path p
  | MkDirParents p => "MkDirParents " ++ show_path p
  | Write p => "Write " ++ show_path p
  | Copy a b => "Copy " ++ show_path a ++ " " ++ show_path b
  | CopyTree a b => "CopyTree " ++ show_path a ++ " " ++ show_path b
  | Rename a b => "Rename " ++ show_path a ++ " " ++ show_path b
  end%string.

Definition show_node (n : option node) : string :=
  match n with None => "-" | Some Dir => "dir" | Some (File _) => "file" | Some (Link _) => "link" end%string.

Definition explain (k : case) : list string :=
  let c := model_cfg k in
  [("model out: " ++ show_path (out c))%string;
   (if refuse c then "model: refuse" else "model: run")%string;
   (if cfg_agrees k then "cfg agrees" else "cfg DIFFERS")%string;
   (if discovery_agrees k then "source discovery agrees" else "source discovery DIFFERS")%string]
  ++ map (fun o => ("model " ++ show_op o)%string) (model_ops k)
  ++ map (fun p => ("final differs at " ++ show_path p ++ " model="
                    ++ show_node (run (model_ops k) (model_fs0 k) p) ++ " impl="
                    ++ show_node (lookup p (i_post k)))%string)
         (filter (fun p => negb (opt_eqb node_eqb (run (model_ops k) (model_fs0 k) p) (lookup p (i_post k))))
                 (map fst (k_pre k) ++ map fst (i_post k) ++ flat_map targets (model_ops k)))
  ++ map (fun o => ("unconfined " ++ show_op o)%string)
         (filter (fun o => negb (self_copy o || forallb (under_anyb (i_roots k)) (targets o))) (i_ops k)).
