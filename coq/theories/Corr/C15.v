(* Corr/C15.v -- judges for the C15 correspondence.

   [judge_group]: one set of abstract typed options written in the three formats (plus the
   markdown form run from a second working directory and a run with the command line alone);
   compares every implementation outcome with the model (bit 0), the outcomes with each other
   (the property, bit 1), and names the recorded region a disagreement lies in.
   [judge_raw]: one arbitrary input (ill-typed values, unknown keys, malformed metadata, ...). *)
From Coq Require Import ZArith.
From Ford Require Import Base.Str Out.SettingsTypes Gen.Schema Out.Settings.

(* what the implementation returned: the fields that differ from the no-option run of the same
   project directory and the keys it warned about, or the exception *)
Inductive iout : Type :=
| IOk (diff : list (str * pv)) (warned : list str)
| IErr (ety msg : str).

Definition settings_eqb (a b : settings) : bool :=
  list_eqb (pair_eqb str_eqb pv_eqb) a b.

(* code 1000: the model declines (outside its stated scope); the harness counts and skips these *)
Definition unmodelled_code : nat := 1000.
(* code 2000: the harness produced a malformed case (options not well typed, or its own encoders
   disagree with enc_md / enc_toml): reported as a broken correspondence *)
Definition malformed_code : nat := 2000.

Definition is_unmodelled {A} (r : res A) : bool := match r with Unmodelled _ => true | _ => false end.

(* [extensions] is built from a Python set: its order is not part of the behaviour.  Both sides
   are compared with that list sorted (duplicates kept); the harness sorts the implementation's. *)
Fixpoint insert_dup (x : str) (l : list str) : list str :=
  match l with
  | [] => [x]
  | y :: l' => if str_ltb y x then y :: insert_dup x l' else x :: l
  end.
Definition canon_settings (st : settings) : settings :=
  match sget (s "extensions") st with
  | PList l => match all_strs l with
               | Some xs => sset (s "extensions") (PList (map PStr (fold_right insert_dup [] xs))) st
               | None => st
               end
  | _ => st
  end.

Definition match_out (base : settings) (m : res (settings * list str)) (i : iout) : bool :=
  match m, i with
  | Ok (st, w), IOk diff w' => settings_eqb (canon_settings st) (overlay base diff) && list_eqb str_eqb w w'
  | Err e o n, IErr e' msg => str_eqb e e' && Bool.eqb n (contains o msg)
  | _, _ => false
  end.

(* two implementation outcomes denote the same effective configuration *)
Definition same_out (a b : iout) : bool :=
  match a, b with
  | IOk d w, IOk d' w' => settings_eqb d d'
  | IErr e _, IErr e' _ => str_eqb e e'
  | _, _ => false
  end.

Definition base_input (cwd dir ford : str) : input := mkinput [] None None [] cwd dir ford.
Definition base_settings (cwd dir ford : str) : settings :=
  match effective (base_input cwd dir ford) with Ok (st, _) => canon_settings st | _ => [] end.

Record gcase := mkg {
  g_opts : list (str * aval);
  g_cli : list (str * pv);
  g_cwd : str; g_dir : str;            (* first working directory and directory argument *)
  g_cwd2 : str; g_dir2 : str;          (* second working directory, same project directory *)
  g_ford : str;
  g_pre : list str; g_post : list str; (* lines around the metadata block of the project file *)
  g_lines : list str;                  (* the project file as the harness wrote it *)
  g_toml : list (str * pv);            (* [extra.ford] as tomllib parsed what the harness wrote *)
  g_cfg : list (str * pv);             (* --config as tomllib parsed what the harness passed *)
  g_md : iout; g_tm : iout; g_cf : iout; g_md2 : iout;
  g_clionly : iout                     (* command line alone *)
}.

Definition pairs_eqb (a b : list (str * pv)) : bool := list_eqb (pair_eqb str_eqb pv_eqb) a b.

(* field k of an outcome, once the diff is laid over the base *)
Definition out_field (base : settings) (k : str) (i : iout) : option pv :=
  match i with IOk d _ => Some (sget k (overlay base d)) | IErr _ _ => None end.

(* the command line value wins: every field set on the command line has the value that the
   command line alone produces.  One field is derived afterwards: exclude_dir is the command line
   value (normalised against the project directory) followed by the effective output_dir of the
   same run unless that is already in the list. *)
Definition cli_field_wins (base : settings) (projdir : str) (i only : iout) (kv : str * pv) : bool :=
  match field_ty (fst kv) with
  | None => true
  | Some _ =>
    if str_eqb (fst kv) (s "exclude_dir") then
      match snd kv, out_field base (s "exclude_dir") i, out_field base (s "output_dir") i with
      | PList vals, Some (PList got), Some od =>
        match all_strs vals with
        | Some xs =>
          let l := map (fun x => PPath (norm_path projdir x)) xs in
          list_eqb pv_eqb got (if existsb (pv_eqb od) l then l else l ++ [od])
        | None => false
        end
      | _, _, _ => false
      end
    else opt_eqb pv_eqb (out_field base (fst kv) i) (out_field base (fst kv) only)
  end.

Definition cli_wins (base : settings) (c : gcase) (i : iout) : bool :=
  match i, g_clionly c with
  | IOk _ _, IOk _ _ =>
    forallb (cli_field_wins base (norm_path (g_cwd c) (g_dir c)) i (g_clionly c)) (g_cli c)
  | _, _ => true
  end.

Definition judge_group (c : gcase) : nat :=
  let base := base_settings (g_cwd c) (g_dir c) (g_ford c) in
  let lines := g_pre c ++ enc_md_all (g_opts c) ++ g_post c in
  let kv := enc_toml_all (g_opts c) in
  let i1 := mkinput lines None None (g_cli c) (g_cwd c) (g_dir c) (g_ford c) in
  let i2 := mkinput [] (Some kv) None (g_cli c) (g_cwd c) (g_dir c) (g_ford c) in
  let i3 := mkinput [] None (Some kv) (g_cli c) (g_cwd c) (g_dir c) (g_ford c) in
  let i4 := mkinput lines None None (g_cli c) (g_cwd2 c) (g_dir2 c) (g_ford c) in
  let i5 := mkinput [] None None (g_cli c) (g_cwd c) (g_dir c) (g_ford c) in
  let m1 := effective i1 in let m2 := effective i2 in let m3 := effective i3 in
  let m4 := effective i4 in let m5 := effective i5 in
  if negb (wt_options (g_opts c)) || negb (list_eqb str_eqb lines (g_lines c))
     || negb (pairs_eqb kv (g_toml c)) || negb (pairs_eqb kv (g_cfg c))
  then malformed_code
  else if is_unmodelled m1 || is_unmodelled m2 || is_unmodelled m3 || is_unmodelled m4 || is_unmodelled m5
  then unmodelled_code
  else
    let mismatch := negb (match_out base m1 (g_md c) && match_out base m2 (g_tm c)
                          && match_out base m3 (g_cf c) && match_out base m4 (g_md2 c)
                          && match_out base m5 (g_clionly c)) in
    let md_toml := same_out (g_md c) (g_tm c) in
    let toml_cfg := same_out (g_tm c) (g_cf c) in
    let cwds := same_out (g_md c) (g_md2 c) in
    let prec := cli_wins base c (g_md c) && cli_wins base c (g_tm c) && cli_wins base c (g_cf c) in
    let violation := negb (md_toml && toml_cfg && cwds && prec) in
    (* no recorded region for well-typed options: the three formats must agree *)
    verdict mismatch violation 0.

(* ------------------------------------------------------------------ raw inputs *)
Inductive spec : Type :=
| SNone                               (* correspondence only *)
| SIll (fmt : nat) (opt : str)        (* an ill-typed value for [opt] in format 0 md / 1 toml / 2 config:
                                         must be rejected with a message naming the option *)
| SUnk (fmt : nat) (key : str)        (* an unknown key: reported, run not aborted *)
| SCli (clionly : iout)               (* every field set on the command line has the value that the
                                         command line alone produces *)
| SSame (md : iout).                  (* a flag or number given as text in fpm.toml / --config: the same
                                         effective configuration as the same text in the project file,
                                         whose outcome is [md] *)

Record rcase := mkr { r_in : input; r_out : iout; r_spec : spec }.

(* regions of the recorded findings for raw inputs: in fpm.toml and --config the values of list,
   key/value-table, file-type and path options are not checked against the declared type (region 4,
   nonscalar-values-unchecked); bool / int / str options have no region in any format *)
Definition ill_region (fmt : nat) (opt : str) : nat :=
  match fmt with
  | 1 | 2 => match field_ty opt with
             | Some t => if is_scalar_ty t then 0 else 4
             | None => 0
             end
  | _ => 0
  end.
Definition unk_region (fmt : nat) : nat := 0.

(* the message of ExtraFileType.from_string says 'extra_filetype': accepted as naming the option *)
Definition names_option (opt msg : str) : bool :=
  contains opt msg || (str_eqb opt (s "extra_filetypes") && contains (s "extra_filetype") msg).

Definition judge_raw (c : rcase) : nat :=
  let i := r_in c in
  let base := base_settings (i_cwd i) (i_dir i) (i_ford i) in
  let m := effective i in
  if is_unmodelled m then unmodelled_code
  else
    let mismatch := negb (match_out base m (r_out c)) in
    match r_spec c with
    | SNone => verdict mismatch false 0
    | SIll fmt opt =>
      let ok := match r_out c with IErr _ msg => names_option opt msg | IOk _ _ => false end in
      verdict mismatch (negb ok) (if ok then 0 else ill_region fmt opt)
    | SUnk fmt key =>
      let ok := match r_out c with IOk _ w => sin key w | IErr _ _ => false end in
      verdict mismatch (negb ok) (if ok then 0 else unk_region fmt)
    | SCli only =>
      let ok := match r_out c, only with
                | IOk _ _, IOk _ _ =>
                  forallb (cli_field_wins base (project_dir i) (r_out c) only) (i_cli i)
                | _, _ => true
                end in
      verdict mismatch (negb ok) 0
    | SSame md => verdict mismatch (negb (same_out (r_out c) md)) 0
    end.

(* full comparison of the no-option run (the base every diff refers to) *)
Definition judge_base (c : input * list (str * pv)) : nat :=
  match effective (fst c) with
  | Ok (st, []) => verdict (negb (settings_eqb (canon_settings st) (snd c))) false 0
  | _ => verdict true false 0
  end.
