(* Corr/C18.v -- judge for the C18 correspondence.  bit 0: model <> implementation; bit 1: the
   implementation's output violates the property; bits >= 2: known region.
   U+00A0 (the non-breaking blank FORD substitutes) is transported as the tilde, which the generated
   inputs never contain. *)
From Ford Require Import Base.Str Out.Names Lex.Mask Gen.EscapeSites Out.Escape.

Definition nb : ascii := "~"%char.

(* [lw] in the cases below: the project option `lower` (the statement is lower-cased after its literals
   have been cut out, so literal bodies stay as written whatever the option says) *)
Inductive case :=
| CMask (lw : bool) (line masked : str) (strs : list str)
    (* the statement as written; what line_to_variables received: the masked statement and parent.strings *)
| CInitial (lw : bool) (prefix expr : str) (out : option str)
    (* var.initial of the single declarator of the statement prefix ++ expr (prefix ends with the equals sign) *)
| CParamStmt (lw : bool) (name expr : str) (out : option str)
    (* var.initial after the statement PARAMETER (name = expr) *)
| CSelector (lw : bool) (pre sel post : str) (out : option str)
    (* the kind / length selector sel of the statement pre ++ sel ++ post (a declaration, or a typed FUNCTION
       statement whose prefix is parsed with the line's literal table), as stored in kind / strlen *)
| CEscape (x out : str)                       (* the e filter of FORD's Jinja environment *)
| CEscapeText (x out : str)                   (* ford.sourceform._esc *)
| CView (x text : str) (ntags : nat)          (* an HTML parser's reading of the fragment x *)
| CSite (key : str) (unescaped_seen : bool).  (* a probe run: did text printed at this site create markup? *)

(* drop blanks outside character literals *)
Fixpoint squash_from (q : option ascii) (x : str) : str :=
  match x with
  | [] => []
  | c :: x' =>
    match q with
    | None => if is_quote c then c :: squash_from (Some c) x'
              else if ch_eqb c space then squash_from None x' else c :: squash_from None x'
    | Some d => c :: squash_from (if ch_eqb c d then None else q) x'
    end
  end.
Definition squash (x : str) : str := squash_from None x.

Definition has_quote (x : str) : bool := existsb is_quote x.

(* lower-case the code outside character literals *)
Fixpoint lower_from (q : option ascii) (x : str) : str :=
  match x with
  | [] => []
  | c :: x' =>
    match q with
    | None => if is_quote c then c :: lower_from (Some c) x' else lower_ch c :: lower_from None x'
    | Some d => c :: lower_from (if ch_eqb c d then None else q) x'
    end
  end.
Definition lower_outside (x : str) : str := lower_from None x.
Definition maybe_lower (lw : bool) (x : str) : str := if lw then lower x else x.
(* the comparison the property asks for: literal bodies verbatim; code outside literals exactly as written,
   or up to letter case when `lower` is on *)
Definition same_text (lw : bool) (a b : str) : bool :=
  if lw then str_eqb (lower_outside a) (lower_outside b) else str_eqb a b.

Definition model_initial (lw : bool) (prefix expr : str) : option str :=
  match mask (prefix ++ expr) with
  | Some (m, strs) => initial_of nb strs (maybe_lower lw (skipn (length prefix) m))
  | None => None
  end.

(* PARAMETER (name = expr): the text after the equals sign is formatted like an initial value given
   on the declaration -- blanks removed, a blank after each comma, then the literals put back
   (_restore_strings: NBSP substitution included) *)
Definition model_param (lw : bool) (name expr : str) : option str :=
  let prefix := s "parameter (" ++ name ++ s " = " in
  match mask (prefix ++ expr ++ s ")") with
  | Some (m, strs) => initial_of nb strs (maybe_lower lw (removelast (skipn (length prefix) m)))
  | None => None
  end.

(* parse_type: white space removed from the parenthesised selectors, literals put back afterwards
   (_restore_strings, NBSP substitution included); pre and post carry no literals *)
Definition model_selector (lw : bool) (pre sel post : str) : option str :=
  match mask (pre ++ sel ++ post) with
  | Some (m, strs) =>
      let msel := firstn (length m - length pre - length post) (skipn (length pre) m) in
      unmask_in (nbsp_sub nb) strs (remove_spaces (maybe_lower lw msel))
  | None => None
  end.

Definition opt_str_eqb := opt_eqb str_eqb.

Definition judge (k : case) : nat :=
  match k with
  | CMask lw line masked strs =>
      verdict (negb (opt_eqb (pair_eqb str_eqb (list_eqb str_eqb))
                       (match mask line with Some (m, l) => Some (maybe_lower lw m, l) | None => None end)
                       (Some (masked, strs))))
              (negb (opt_str_eqb (unmask_in (fun x => x) strs masked)
                                 (Some (if lw then lower_outside line else line)))) 0
  | CInitial lw prefix expr out =>
      verdict (negb (opt_str_eqb (model_initial lw prefix expr) out))
              (match out with
               | Some o => negb (same_text lw (squash (un_nbsp nb o)) (squash expr))
               | None => true
               end) 0
  | CParamStmt lw name expr out =>
      verdict (negb (opt_str_eqb (model_param lw name expr) out))
              (match out with
               | Some o => negb (same_text lw (squash (un_nbsp nb o)) (squash expr))
               | None => true
               end) 0
  | CSelector lw pre sel post out =>
      verdict (negb (opt_str_eqb (model_selector lw pre sel post) out))
              (match out with
               | Some o => negb (same_text lw (squash (un_nbsp nb o)) (squash sel))
               | None => true
               end) 0
  | CEscape x out =>
      verdict (negb (str_eqb (html_escape x) out))
              (negb (no_markup out) || negb (str_eqb (unescape out) x)) 0
  | CEscapeText x out =>
      verdict (negb (str_eqb (escape_text x) out))
              (negb (pair_eqb str_eqb Nat.eqb (render_text out) (x, 0))) 0
  | CView x text ntags =>
      verdict (negb (pair_eqb str_eqb Nat.eqb (render_text x) (text, ntags))) false 0
  | CSite key seen =>
      (* model: markup is possible exactly at the sites that print declaration text unescaped *)
      let expected := match find_site key sites with
                      | Some st => reads_source_text st && negb (escaped st)
                      | None => false
                      end in
      verdict (negb (Bool.eqb expected seen)) seen
              (if str_in key known_unescaped then 1 else 0)
  end.
