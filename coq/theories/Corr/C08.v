(* Corr/C08.v — judges for the correspondence of the call-recording model (Sem/Calls.v) with
   ford.utils.strip_paren, the regular expressions of ford.sourceform as Python's re runs them,
   FortranContainer._add_procedure_calls, Associations and unit.calls after correlate(). *)
From Coq Require Import ZArith.
From Ford Require Import Base.Str Gen.Intrinsics Sem.Calls Sem.CallsSpec Sem.CallsDefs.

Definition chains_eqb (a b : list chain) : bool := list_eqb (list_eqb str_eqb) a b.
Definition strs_eqb (a b : list str) : bool := list_eqb str_eqb a b.

(* ---- CALL_RE.finditer tried at every character position (no short cuts), raw match texts ---- *)
Definition match_call_any (x : str) : option (str * str) :=
  match x with
  | c :: _ =>
    if is_space c then
      (* a match that starts on white space needs at least one prefix iteration *)
      let (its, r) := parse_items (length x) x in
      match its with
      | [] => None
      | (_, _, whole1) :: t =>
        let pre := concat (map (fun it => snd it) its) in
        match match_req r with
        | Some (m, rest) => Some (pre ++ m, rest)
        | None =>
          match fallback whole1 t None with
          | Some m => Some (m, skipn (length m) x)
          | None => None
          end
        end
      end
    else match_call x
  | [] => None
  end.

Fixpoint call_finditer_naive (fuel : nat) (x : str) : list str :=
  match fuel with
  | 0 => []
  | S f =>
    match x with
    | [] => []
    | _ :: x' =>
      match match_call_any x with
      | Some (m, rest) => m :: call_finditer_naive f rest
      | None => call_finditer_naive f x'
      end
    end
  end.

(* ---- strip_paren: (line, retlevel, impl result) ---- *)
Definition judge_strip (c : str * nat * list str) : nat :=
  let '(line, d, impl) := c in
  verdict (negb (strs_eqb (strip_paren line d) impl)) false 0.

(* ---- the regular expressions on one string:
   (text, CALL_RE.finditer texts, SUBCALL_RE.search group, FORMAT_RE / END ASSOCIATE,
    ASSOCIATE_RE group, the text with the ARITH_GOTO_RE match replaced by "goto", QUOTES_RE-masked text) ---- *)
Definition judge_re (c : str * list str * option str * (bool * bool) * option str * option str * str) : nat :=
  let '(x, calls, sub, (fm, ea), asc, gt, masked) := c in
  let ok :=
    strs_eqb (call_finditer_naive (S (length x)) x) calls
    && chains_eqb (map norm_chain (call_matches x)) (map norm_chain calls)
    && strs_eqb (map strip_cw (call_matches x)) (map strip_cw calls)
    && opt_eqb str_eqb (subcall_match x) sub
    && Bool.eqb (format_re x) fm && opt_eqb str_eqb (goto_rewrite false [] x) gt && Bool.eqb (end_associate_re x) ea
    && opt_eqb str_eqb (associate_re x) asc
    && str_eqb (mask_quotes x) masked in
  verdict (negb ok) false 0.

(* ---- _add_procedure_calls on a stub with the given association batches and earlier calls:
   (batches as item lists, earlier calls, line, impl: Some calls | None = exception) ---- *)
Fixpoint add_batches (a : assocs) (bs : list (list str)) : option assocs :=
  match bs with
  | [] => Some a
  | b :: bs' => match add_batch a b with Some a' => add_batches a' bs' | None => None end
  end.

(* each procedure recorded once: no entry of the list twice *)
Fixpoint nodup_b {A} (eqb : A -> A -> bool) (l : list A) : bool :=
  match l with
  | [] => true
  | x :: l' => negb (existsb (eqb x) l') && nodup_b eqb l'
  end.

Definition pair_chains_eqb (a b : list chain * list chain) : bool :=
  chains_eqb (fst a) (fst b) && chains_eqb (snd a) (snd b).

(* (batches, earlier calls, earlier candidates [chains ending in an INTRINSICS entry], line,
    impl: Some (calls, candidates) | None = exception) *)
Definition judge_add (c : list (list str) * list chain * list chain * str * option (list chain * list chain)) : nat :=
  let '(bs, calls, named, line, impl) := c in
  let model := match add_batches [] bs with
               | Some a => Some (add_calls a calls line, add_named a named line)
               | None => None
               end in
  (* Spec side: the earlier calls being pairwise different, the implementation's lists are so as well *)
  let dup := match impl with
             | Some (l, n) => (nodup_b (list_eqb str_eqb) calls && negb (nodup_b (list_eqb str_eqb) l))
                              || (nodup_b (list_eqb str_eqb) named && negb (nodup_b (list_eqb str_eqb) n))
             | None => false
             end in
  verdict (negb (opt_eqb pair_chains_eqb model impl)) dup 0.

(* ---- a whole executable part:
   (FORD's label tables when the unit's calls were resolved, the tables Fortran's scoping gives,
    the statements as the reader delivers them, impl: Some (identities/names in unit.calls) | None = exception,
    the statements' ASTs when the text was rendered from the grammar, region number) ---- *)
Fixpoint incl_b (a b : list str) : bool :=
  match a with [] => true | x :: a' => str_in x b && incl_b a' b end.
Definition set_eqb (a b : list str) : bool := incl_b a b && incl_b b a.

Definition judge_unit (c : symtab * symtab * list str * option (list str) * option (list stmt) * bool) : nat :=
  let '(tb_ford, tb_true, srcs, impl, asts, strict) := c in
  let model_bad := negb (opt_eqb strs_eqb (recorded tb_ford srcs) impl) in
  match asts with
  | None => verdict model_bad false 0
  | Some ss =>
    (* the harness renderer must agree with the Coq renderer, and the ASTs must be well formed *)
    (* (not [strict]: the source was re-spaced — blanks between a name and "(", around "%" — which
       Fortran ignores; the ASTs are then compared through the Spec only) *)
    if negb ((negb strict || strs_eqb (map mask_quotes srcs) (map render_stmt ss)) && forallb wf_stmt ss) then 1024
    else
      let spec_bad :=
        match impl with
        | Some names => negb (set_eqb names (calls_of tb_true ss) && nodup_b str_eqb names)
        | None => true
        end in
      verdict model_bad spec_bad (region_of tb_ford tb_true ss)
  end.

(* how many generated units satisfy the hypothesis of C08_exact (with the tables Fortran's scoping
   gives): 1 = resolvable; the conclusion is re-evaluated as well (2 = it fails — impossible) *)
Definition judge_resolvable (c : symtab * list str * list stmt) : nat :=
  let '(tb, srcs, ss) := c in
  if resolvable tb ss then
    match recorded tb srcs with
    | Some l => if set_eqb l (calls_of tb ss) then 1 else 2
    | None => 2
    end
  else 0.

(* ---- _add_procedure_calls on a statement rendered from the grammar, no ASSOCIATE in force:
   (earlier calls, the statement, its masked text, impl: Some calls | None = exception).
   Spec side, without any name table: every reference of the statement that does not end in an
   INTRINSICS entry and is not merely an inner part of a designator must be among the recorded
   chains; every chain added must be a reference of the statement; none twice. ---- *)
Definition chain_in (ch : chain) (l : list chain) : bool := existsb (list_eqb str_eqb ch) l.

Definition judge_add_stmt (c : list chain * stmt * str * option (list chain * list chain)) : nat :=
  let '(calls, st, line, impl) := c in
  let model_bad := negb (opt_eqb pair_chains_eqb (Some (add_calls [] calls line, add_named [] [] line)) impl) in
  let applicable := seg_stmt st && wf_stmt st && plain_ok st && str_eqb line (render_stmt st) in
  let spec_bad :=
    applicable &&
    match impl with
    | None => true
    | Some (l, n) =>
      let outer := filter (fun ch => negb (chain_in ch (stmt_inner st))) (stmt_refs st) in
      let want := filter (fun ch => negb (str_in (last_of ch) INTRINSICS)) outer in
      (* a reference that ends in an INTRINSICS spelling may be to a procedure of the project: it must be
         among the candidates, wherever it stands in the statement *)
      let want_named := filter (fun ch => str_in (last_of ch) INTRINSICS) outer in
      negb (forallb (fun ch => chain_in ch l) want
            && forallb (fun ch => chain_in ch n) want_named
            && forallb (fun ch => chain_in ch calls || chain_in ch (stmt_refs st)) l
            && (negb (nodup_b (list_eqb str_eqb) calls) || nodup_b (list_eqb str_eqb) l)
            && nodup_b (list_eqb str_eqb) n)
    end in
  verdict model_bad spec_bad 0.
