(* Corr/C11.v — judge for the C11 correspondence: one [[reference]] converted by the real markdown
   pipeline in a context of a real project, against Model (Out/Links.v convert_link on the abstract
   project read off the same Project object) and Spec (spec_accepts). *)
From Ford Require Import Base.Str Gen.LinkTypes Out.Links.

(* what the implementation produced: a link whose target URL is the URL of these entities (one,
   unless two entities share a URL), plain text, or an exception *)
Inductive ires := ILink (cands : list nat) | IPlain | IErr.

Definition mk_ent (n : str) (attrs : list (str * aval)) (par : option nat) (u own v ip : bool) : ent :=
  {| e_name := n; e_attrs := attrs; e_parent := par; e_has_url := u;
     e_owns_page := own; e_visible := v; e_iface_proc := ip |}.
Definition mk_ref (n : str) (k c ck : option str) : ref :=
  {| r_name := n; r_kind := k; r_child := c; r_ckind := ck |}.

Definition case := (proj * (option nat * ref) * ires)%type.

Definition agrees (m : result) (i : ires) : bool :=
  match m, i with
  | RLink x, ILink l => nat_in x l
  | RPlain, IPlain => true
  | RErr, IErr => true
  | _, _ => false
  end.

Definition impl_accepted (p : proj) (ctx : option nat) (r : ref) (i : ires) : bool :=
  match i with
  | ILink l => existsb (fun x => spec_accepts p ctx r (RLink x)) l
  | IPlain => spec_accepts p ctx r RPlain
  | IErr => spec_accepts p ctx r RErr
  end.

(* diagnostic only: a candidate has an attribute that FortranBase.children does not chain *)
Definition uncovered (p : proj) (i : nat) : bool :=
  match get_ent p i with Some e => negb (attrs_covered e) | None => false end.
Definition region3 (p : proj) (ctx : option nat) (r : ref) : bool :=
  existsb (uncovered p) (comp_cands p ctx r) ||
  match ctx with
  | Some c =>
    match get_ent p c with
    | Some e => negb (attrs_covered e) ||
                match e_parent e with
                | Some par => match get_ent p par with Some e' => negb (attrs_covered e') | None => false end
                | None => false
                end
    | None => false
    end
  | None => false
  end.

Definition judge (c : case) : nat :=
  let p := fst (fst c) in
  let ctx := fst (snd (fst c)) in
  let r := snd (snd (fst c)) in
  let i := snd c in
  verdict (negb (agrees (render p ctx r) i))
          (negb (impl_accepted p ctx r i))
          (if region3 p ctx r then 4 else 0).
