(* Corr/C16.v — judge for the C16 correspondence.
   bit0: the model (Out/External.v) disagrees with what FORD returned on the same input;
   bit1: FORD's output violates the Spec (Out/ExternalSpec.v); bits>=2: known region. *)
From Ford Require Import Base.Str Base.Path Out.Names Out.External Out.ExternalSpec.

(* ---------- equality of the data exchanged ---------- *)

Fixpoint json_eqb (n : nat) (a b : json) : bool :=
  match n with
  | 0 => false
  | S n =>
    match a, b with
    | JNull, JNull => true
    | JBool x, JBool y => Bool.eqb x y
    | JNum x, JNum y => Nat.eqb x y
    | JStr x, JStr y => str_eqb x y
    | JList x, JList y => list_eqb (json_eqb n) x y
    | JDict x, JDict y =>
      (* objects are compared as finite maps (distinct keys on both sides) *)
      Nat.eqb (length x) (length y) &&
      forallb (fun kv => match assoc_get (fst kv) y with Some w => json_eqb n (snd kv) w | None => false end) x
    | _, _ => false
    end
  end.
Definition json_eq (a b : json) : bool := json_eqb (jsize a + jsize b) a b.

Fixpoint xsize (v : xval) : nat :=
  match v with
  | XO _ _ _ a => S ((fix go (l : list (str * xval)) := match l with [] => 0 | (_, x) :: r => xsize x + go r end) a)
  | XL l => S ((fix go (l : list xval) := match l with [] => 0 | x :: r => xsize x + go r end) l)
  | XD l => S ((fix go (l : list (str * xval)) := match l with [] => 0 | (_, x) :: r => xsize x + go r end) l)
  | _ => 1
  end.
Fixpoint xval_eqb (n : nat) (a b : xval) : bool :=
  match n with
  | 0 => false
  | S n =>
    match a, b with
    | XO c1 n1 u1 a1, XO c2 n2 u2 a2 =>
      xcls_eqb c1 c2 && json_eq n1 n2 && json_eq u1 u2 &&
      list_eqb (pair_eqb str_eqb (xval_eqb n)) a1 a2
    | XS x, XS y => str_eqb x y
    | XL x, XL y => list_eqb (xval_eqb n) x y
    | XD x, XD y => list_eqb (pair_eqb str_eqb (xval_eqb n)) x y
    | XV x, XV y => json_eq x y
    | _, _ => false
    end
  end.
Definition xval_eq (a b : xval) : bool := xval_eqb (xsize a + xsize b) a b.

Definition exn_eqb (a b : exn) : bool :=
  match a, b with
  | KeyError, KeyError | TypeError, TypeError | AttributeError, AttributeError | ValueError, ValueError
  | FileNotFoundError, FileNotFoundError | UnicodeDecodeError, UnicodeDecodeError | OutOfFuel, OutOfFuel
  | JSONDecodeError, JSONDecodeError | URLError, URLError => true
  | _, _ => false
  end.

(* ---------- what the implementation returned ---------- *)

Inductive impl_out :=
| ILoaded (mods procs ifaces types vars : list xval)   (* the five ext* lists of the project *)
| IContained                                            (* no exception, "Could not open external URL" printed,
                                                           the five lists empty *)
| IContainedDirty                                       (* ... but something was left in the lists *)
| IRaised (e : exn)
| IRaisedOther.

Inductive answer :=
| ANone | ALocal (c : coll) (i : nat) | ALocalChild (c : coll) (i : nat)
| AExt (c : xcls) (name url : json) | AErr (e : exn) | AErrOther.

Inductive query :=
| QUse (n : str)                                                        (* find_used_modules *)
| QFind (n : str) (entity : option str) (child : option (str * option str))  (* Project.find *)
| QUsed (m : str) (which : str) (n : str).                              (* get_used_entities of module m *)

Inductive case :=
| CExport (A : aproject) (impl : json) (pages : list str)
| CRound (A : aproject) (b : base) (impl : impl_out)
| CLoad (src : source) (mutated : bool) (impl : impl_out) (B : blocal) (qs : list (query * answer))
| CLoadSeq (srcs : list source) (impl : impl_out)       (* several external projects in one run *)
| CJoin (b : base) (rel : str) (impl : str).

Definition lists_of (tops : list xval) : list (list xval) :=
  map (ext_list tops) [PLModules; PLProcedures; PLInterfaces; PLTypes; PLVariables].

Definition out_matches (o : outcome) (i : impl_out) : bool :=
  match o, i with
  | OLoaded tops, ILoaded a b c d e => list_eqb (list_eqb xval_eq) (lists_of tops) [a; b; c; d; e]
  | OContained, IContained => true
  | ORaised x, IRaised y => exn_eqb x y
  | _, _ => false
  end.

Definition hit_answer (r : res (option hit)) : answer :=
  match r with
  | Ok None => ANone
  | Ok (Some (HLocal c i)) => ALocal c i
  | Ok (Some (HLocalChild c i)) => ALocalChild c i
  | Ok (Some (HExt x)) => match x with XO c n u _ => AExt c n u | _ => AErrOther end
  | Err e => AErr e
  end.
Definition answer_eqb (a b : answer) : bool :=
  match a, b with
  | ANone, ANone => true
  | ALocal c i, ALocal d j | ALocalChild c i, ALocalChild d j => coll_eqb c d && Nat.eqb i j
  | AExt c n u, AExt d m v => xcls_eqb c d && json_eq n m && json_eq u v
  | AErr x, AErr y => exn_eqb x y
  | _, _ => false
  end.

Definition run_query (B : blocal) (tops : list xval) (q : query) : answer :=
  match q with
  | QUse n => hit_answer (find_used_module (local_names B CModules) tops n)
  | QFind n e c => hit_answer (project_find B tops n e c)
  | QUsed m w n =>
    match find_first m (map IExt (ext_list tops PLModules)) with
    | Ok (Some (HExt x)) =>
      match used_lookup x w n with
      | Ok (Some (XO c nm u _)) => AExt c nm u
      | Ok (Some _) => AErrOther
      | Ok None => ANone
      | Err e => AErr e
      end
    | Ok _ => ANone
    | Err e => AErr e
    end
  end.

(* ---------- the Spec evaluated on the implementation's outputs ---------- *)

Definition tops_of_impl (i : impl_out) : list xval :=
  match i with ILoaded mods _ _ _ _ => mods | _ => [] end.

(* every importable entity of module m, looked up the way a USE of B does, in FORD's own objects *)
Definition links_ok (idf : nat -> str) (disp : list perm) (b : base) (impl_mods : list xval) (m : ent) : bool :=
  match find_first (e_name m) (map IExt impl_mods) with
  | Ok (Some (HExt xm)) =>
    json_eq (x_url xm) (match module_url idf m with Some u => JStr (spec_join b u) | None => JNull end)
    (* path by path: every object under the module, at the path of an entity of A, has that entity's URL *)
    && path_ok idf b None None m xm
    (* ... and so has every object a USE imports, with everything under it; an importable entity that A
       displays must be there, one that A does not display may be missing (that costs only the link) *)
    && forallb (fun e => if importable e
                         then match class_of e with
                              | Some c => match used_lookup xm c (e_name e) with
                                          | Ok (Some x) =>
                                            (* the key denotes THAT entity: its own name, its own URLs *)
                                            json_eq (x_name x) (JStr (e_name (denoted e)))
                                            && path_ok idf b (Some (e_kind m)) (module_url idf m) e x
                                          | Ok None => negb (displayed disp e)
                                          | Err _ => false
                                          end
                              | None => true
                              end
                         else true) (e_kids m)
  | _ => false
  end.

(* A's own URL of what module m makes accessible under the name of e *)
Definition ent_url (idf : nat -> str) (m e : ent) : option str :=
  match alias_target e with
  | Some t => own_url (Some KModule) (own_url None None KModule (idf (e_id e))) (e_kind t) (idf (e_id t))
  | None => kid_url idf m e
  end.

(* every entity that the description [impl] names in a table of public names of module m has its page
   among the files A wrote (no dead link can come out of the description) *)
Definition targets_written (idf : nat -> str) (pages : list str) (impl : json) (m : ent) : bool :=
  let jm := hd JNull (filter (fun j => str_eqb (jname j) (e_name m)) (jlist (jget (s "modules") impl))) in
  match module_url idf m with Some u => str_in (page_of u) pages | None => false end
  && forallb (fun e => match class_of e with
                       | Some c =>
                         if str_in (lower (e_name e)) (jkeys (jget c jm))
                         then match ent_url idf m e with Some u => str_in (page_of u) pages | None => false end
                         else true
                       | None => true
                       end) (e_kids m).

(* a look-up answered with an imported entity although B defines the name *)
Definition answer_local_first (B : blocal) (q : query) (a : answer) : bool :=
  match q with
  | QUse n => if lower_in n (local_names B CModules)
              then match a with ALocal _ _ => true | _ => false end else true
  | QFind n None _ => if defined_locally B n
                      then match a with ALocal _ _ | ALocalChild _ _ => true | _ => false end else true
  | _ => true
  end.
(* the run goes on and a failed load left nothing behind *)
Definition impl_survives (i : impl_out) : bool :=
  match i with IRaised _ | IRaisedOther | IContainedDirty => false | _ => true end.

Definition judge (c : case) : nat :=
  match c with
  | CExport A impl pages =>
    let idf := ident_of A in
    let exact := exact_on (a_modules A) impl in
    let written := forallb (targets_written idf pages impl) (a_modules A) in
    verdict (negb (json_eq (export A []) impl) || negb (same_set (pages_written A) pages))
            (negb exact || negb written)
            (* a dead link is a violation whatever the display; the description following `display` in its
               lists of names is the recorded finding *)
            (if negb written then 0 else if display_default (c_display (a_cfg A)) then 0 else 1)
  | CRound A b impl =>
    verdict (negb (out_matches (of_res (load_json b (export A []))) impl))
            (negb (forallb (links_ok (ident_of A) (c_display (a_cfg A)) b (tops_of_impl impl)) (a_modules A)))
            0
  | CLoad src mutated impl B qs =>
    let o := load src in
    let tops := match o with OLoaded t => t | _ => [] end in
    let bad_q := existsb (fun qa => negb (answer_eqb (run_query B tops (fst qa)) (snd qa))) qs in
    let lf_bad := filter (fun qa => negb (answer_local_first B (fst qa) (snd qa))) qs in
    verdict (negb (out_matches o impl) || bad_q)
            (negb (impl_survives impl) || negb (Nat.eqb (length lf_bad) 0))
            0
  | CLoadSeq srcs impl =>
    (* "costs only the links" of the broken description: the modules of every readable one are there *)
    let present m := existsb (fun x => json_eq (x_name x) (x_name m)) (tops_of_impl impl) in
    let kept := forallb (fun src => match load src with
                                    | OLoaded l => forallb present (ext_list l PLModules)
                                    | _ => true
                                    end) srcs in
    verdict (negb (out_matches (OLoaded (load_all srcs)) impl)) (negb (impl_survives impl) || negb kept) 0
  | CJoin b rel impl => verdict (negb (str_eqb (rebase b rel) impl)) false 0
  end.
