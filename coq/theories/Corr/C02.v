(* Corr/C02.v — judge for the reader correspondence *)
From Ford Require Import Base.Str Lex.Quote Lex.Reader.

Definition err_code (e : rerr) : nat :=
  match e with EPredocInline => 1 | EPredocAltInline => 2 | EDocAltInline => 3 | EAmpStart => 4 | EIndex => 5 end.

Definition mkcfg (a b c d : str) : cfg :=
  {| docmark := a; predocmark := b; docmark_alt := c; predocmark_alt := d |}.

(* impl result: inl lines | inr error code (1 ValueError predoc inline, 2 RuntimeError, 3 ValueError
   doc_alt inline, 4 ValueError '&', 5 IndexError, 9 anything else) *)
Definition res_eqb (m : read_res) (i : list str + nat) : bool :=
  match m, i with
  | ROk a, inl b => list_eqb str_eqb a b
  | RErr e, inr n => Nat.eqb (err_code e) n
  | _, _ => false
  end.

(* model-only case: (cfg, physical lines, implementation result) *)
Definition judge_lines (c : cfg * list str * (list str + nat)) : nat :=
  let '(cf, lines, impl) := c in
  verdict (negb (res_eqb (read_all cf lines) impl)) false 0.

From Ford Require Import Lex.ReaderSpec.

Definition is_doc (x : str) : bool := first_is bang x.

(* layout case: (physical lines, pieces of every logical line in order, impl result).
   Spec: the non-documentation lines FORD yields are, in canonical form and without empty ones,
   exactly the statements of the pieces.  (No known region is left for these layouts.) *)
Definition spec_ok (pss : list (list piece)) (impl : list str + nat) : bool :=
  match impl with
  | inl outs =>
    list_eqb str_eqb
      (filter (fun x => match x with [] => false | _ => true end) (map canon (filter (fun x => negb (is_doc x)) outs)))
      (flat_map statements pss)
  | inr _ => false
  end.

Definition judge_layout (c : list str * list (list piece) * (list str + nat)) : nat :=
  let '(lines, pss, impl) := c in
  verdict (negb (res_eqb (read_all default_cfg lines) impl)) (negb (spec_ok pss impl)) 0.

(* parser-level case: (the option `lower`, a piece of the source statement as written — an initial
   value, a PARAMETER value, the bind(...) text, a length / kind expression, an attribute —, the text
   the parsed entity carries for it).  Spec: every literal verbatim, the code around the literals
   lower-cased exactly when `lower` is on. *)
From Ford Require Import Lex.QuoteLower.

Definition judge_field (c : bool * str * option str) : nat :=
  let '(lw, src, impl) := c in
  verdict false
    (negb (match impl with
           | Some t => str_eqb t (if lw then lower_outside src else src)
           | None => false
           end)) 0.
