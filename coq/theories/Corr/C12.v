(* Corr/C12.v — judges for the C12 correspondence.

   judge       : one project, several traced runs of the real pipeline; the model must reproduce
                 the parse order, the loop structure and the identifier of every entity in every
                 run (bit0); the runs of the real code must agree with the first one (bit1: the
                 property).  There is no known region any more.
   judge_emit  : node emission of one graph hop.
   judge_edges : child edges of one InheritedByGraph node.
   judge_table : rows of the table that replaces an oversized graph.
   judge_uses  : ford.output.sort_by_name on a set of module names. *)
From Ford Require Import Base.Str Base.Order Out.Names Out.Project.

Definition mk (id : nat) (d n : str) : req := {| r_id := id; r_dir := d; r_name := n |}.

Fixpoint sparse_get {A} (k : nat) (l : list (nat * list A)) : list A :=
  match l with
  | [] => []
  | (k', v) :: l' => if Nat.eqb k k' then v else sparse_get k l'
  end.

Definition dense {A} (n : nat) (l : list (nat * list A)) : list (list A) :=
  map (fun k => sparse_get k l) (seq 0 n).

Definition n_segs : nat := 47.
Definition n_sets : nat := 8.
Definition n_idsets : nat := 3.

(* entity table: id |-> (get_dir() as text, name) *)
Definition ents := list (nat * (str * str)).

Fixpoint ent_get (id : nat) (e : ents) : str * str :=
  match e with
  | [] => ([], [])
  | (k, v) :: e' => if Nat.eqb id k then v else ent_get id e'
  end.

Definition req_of (e : ents) (id : nat) : req := let dn := ent_get id e in mk id (fst dn) (snd dn).

Definition reqs_of (e : ents) (l : list (nat * list nat)) : list (nat * list req) :=
  map (fun kv => (fst kv, map (req_of e) (snd kv))) l.

Definition build_file (e : ents) (f : list str * list (nat * list nat)) : pfile :=
  {| f_path := fst f; f_segs := dense n_segs (reqs_of e (snd f)) |}.

Definition same_ids (a b : list nat) : bool :=
  (length a =? length b) && forallb (fun x => existsb (Nat.eqb x) b) a
  && forallb (fun x => existsb (Nat.eqb x) a) b.

(* one run: (sorted?, pi, observed parse order), the observed sequence of every fixed phase, the
   observed requests of every id-set phase, the identifiers FORD assigned.
   sorted? = true : the real code; pi is the order in which the patched find_all_files handed the
                    set over; Project.__init__ sorts it.
   sorted? = false: the same run with the name `sorted` neutralised inside ford.fortran_project, so
                    that the files are parsed in the order pi: exercises the pipeline model
                    (idents_enum) under arbitrary enumerations. *)
Definition arun := ((bool * list nat * list nat) * list (nat * list nat) * list (nat * list nat)
                    * list (nat * str))%type.

Definition acase := (ents * list (list str * list (nat * list nat)) * list arun)%type.

Definition run_head (r : arun) := fst (fst (fst r)).
Definition run_fixed (r : arun) := snd (fst (fst r)).
Definition run_idsets (r : arun) := snd (fst r).
Definition run_impl (r : arun) := snd r.
Definition run_sorted (r : arun) := fst (fst (run_head r)).
Definition run_pi (r : arun) := snd (fst (run_head r)).
Definition run_obs (r : arun) := snd (run_head r).

Fixpoint impl_get (id : nat) (l : list (nat * str)) : option str :=
  match l with
  | [] => None
  | (k, v) :: l' => if Nat.eqb id k then Some v else impl_get id l'
  end.

Definition project_of (c : acase) : project :=
  let e := fst (fst c) in
  {| p_files := map (build_file e) (snd (fst c));
     p_sets := match snd c with
               | r0 :: _ => dense n_sets (reqs_of e (run_fixed r0))
               | [] => []
               end;
     p_idsel := match snd c with
                | r0 :: _ => dense n_idsets (run_idsets r0)
                | [] => []
                end |}.

(* the enumeration the model predicts for a run *)
Definition model_enum (P : project) (r : arun) : list pfile :=
  if run_sorted r then isort file_leb (enumerate (p_files P) (run_pi r))
  else enumerate (p_files P) (run_pi r).

Definition model_ok (c : acase) (P : project) (r0 r : arun) : bool :=
  let e := fst (fst c) in
  let fixed := dense n_sets (reqs_of e (run_fixed r)) in
  let idt := dense n_idsets (reqs_of e (run_idsets r)) in
  let enum := model_enum P r in
  let st := final_state enum fixed idt in
  let covered := idsel_of pipeline enum fixed (p_idsel P) in
  is_permb (run_pi r) (length (p_files P))
  (* the files are parsed in the model's order *)
  && list_eqb (list_eqb str_eqb) (map f_path enum) (map f_path (enumerate (p_files P) (run_obs r)))
  (* fixed phases: the same sequence in every run of the real code (under another enumeration they are
     whatever that run computed: e.g. which of several equally named procedures makes it to the front page) *)
  && forallb (fun k => negb (run_sorted r)
                       || list_eqb Nat.eqb (sparse_get k (run_fixed r0)) (sparse_get k (run_fixed r)))
             (seq 0 n_sets)
  (* id-set phases: the same entities in every run, all of them requested by an earlier phase *)
  && forallb (fun k => same_ids (sparse_get k (run_idsets r0)) (sparse_get k (run_idsets r))
                       && forallb (fun id => existsb (fun q => Nat.eqb id (r_id q)) (nth k covered []))
                                  (sparse_get k (run_idsets r)))
             (seq 0 n_idsets)
  (* the identifier of every entity *)
  && forallb (fun kv => opt_eqb str_eqb (ident_in st (fst kv)) (Some (snd kv))) (run_impl r)
  && forallb (fun kv => match impl_get (fst kv) (run_impl r) with Some _ => true | None => false end) e.

(* the property: every run of the REAL code agrees with the first one *)
Definition agree (r0 r : arun) : bool :=
  negb (run_sorted r) ||
  ((length (run_impl r0) =? length (run_impl r))
   && forallb (fun kv => opt_eqb str_eqb (impl_get (fst kv) (run_impl r0)) (Some (snd kv))) (run_impl r)).

Definition judge (c : acase) : nat :=
  let P := project_of c in
  match snd c with
  | [] => 0
  | r0 :: rs =>
    verdict (negb (forallb (model_ok c P r0) (r0 :: rs))) (negb (forallb (agree r0) rs)) 0
  end.

(* which run of a case disagrees with the model (for the replay file) *)
Definition bad_runs (c : acase) : list nat :=
  let P := project_of c in
  match snd c with
  | [] => []
  | r0 :: rs => map fst (filter (fun ir => negb (model_ok c P r0 (snd ir))) (combine (seq 0 (S (length rs))) (r0 :: rs)))
  end.

(* graph node emission: [given] = the nodes in some other order, [impl] = the order FORD emitted *)
Definition judge_emit (c : list str * list str) : nat :=
  let given := fst c in let impl := snd c in
  verdict (negb (list_eqb str_eqb (emit_nodes given (seq 0 (length given))) impl))
          (negb (list_eqb str_eqb (isort str_leb impl) impl))
          0.

(* child -> parent edges of one InheritedByGraph node: (parent, children in another order, the
   tails of the solid edges in the order FORD appended them) *)
Definition judge_edges (c : str * list str * list str) : nat :=
  let parent := fst (fst c) in let given := snd (fst c) in let impl := snd c in
  verdict (negb (list_eqb str_eqb (map fst (emit_child_edges parent given (seq 0 (length given)))) impl))
          (negb (list_eqb str_eqb (isort str_leb impl) impl))
          0.

(* the table that replaces an oversized graph: [given] = the neighbours (identifier, label) in
   another order, [impl] = the identifiers in the order of the rows FORD wrote.  A mismatch is a
   violation of the property as well: the rows are then not the function of the set the model
   computes (any other function would have to be modelled first) *)
Definition judge_table (c : list (str * str) * list str) : nat :=
  let given := fst c in let impl := snd c in
  let bad := negb (list_eqb str_eqb (map fst (emit_table_rows given (seq 0 (length given)))) impl) in
  verdict bad bad 0.

(* ford.output.sort_by_name: [given] = the names in another order, [impl] = what the filter returned *)
Definition judge_uses (c : list str * list str) : nat :=
  let given := fst c in let impl := snd c in
  let bad := negb (list_eqb str_eqb (shown_uses given (seq 0 (length given))) impl) in
  verdict bad bad 0.

(* find_all_files against Out/Project.v sources: (paths of the Fortran files below the project directory,
   source directory, excluded directories, what find_all_files returned) — compared as sets.
   A mismatch is a violation as well: files of an excluded (output) directory are then documented. *)
Definition path_inb (p : list str) (l : list (list str)) : bool := existsb (list_eqb str_eqb p) l.
Definition judge_sources (c : list (list str) * list str * list (list str) * list (list str)) : nat :=
  let paths := fst (fst (fst c)) in let src := snd (fst (fst c)) in
  let excl := snd (fst c) in let impl := snd c in
  let model := map fst (sources src excl (map (fun p => (p, [])) paths)) in
  let bad := negb (forallb (fun p => path_inb p impl) model && forallb (fun p => path_inb p model) impl) in
  verdict bad bad 0.
