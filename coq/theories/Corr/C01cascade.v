(* Corr/C01cascade.v -- judges for the statement-classification layer of C01 *)
From Coq Require Import String.
From Ford Require Import Base.Str Base.StrX Sem.Tree Sem.TypeSpec Sem.DeclSpec Sem.CascadeTypes Sem.Cascade Sem.CascadeSpec Sem.CascadeTree Corr.C01.

Definition ckind_tag (k : ckind) : str :=
  match k with
  | KFile => s "KFile" | KModule => s "KModule" | KSubmodule => s "KSubmodule" | KProgram => s "KProgram"
  | KSubroutine => s "KSubroutine" | KFunction => s "KFunction" | KModProcImpl => s "KModProcImpl"
  | KType => s "KType" | KEnum => s "KEnum" | KInterface => s "KInterface" | KBlockData => s "KBlockData"
  end.
Definition lkind_tag (l : lkind) : str :=
  match l with
  | LVariable => s "LVariable" | LNamelist => s "LNamelist" | LCommon => s "LCommon" | LBoundProc => s "LBoundProc"
  | LFinal => s "LFinal" | LModProcRef => s "LModProcRef" | LUse => s "LUse"
  end.

(* the entities a container of kind [k] gains from one statement (structural rules of Sem/Tree.v:
   which container accepts what, procedures only after CONTAINS in a program unit) *)
Definition expected_created (k : ckind) (inc : bool) (st : stmt) : list (str * str) :=
  match st with
  | SUnit c n =>
    let before_contains := match c with KSubroutine | KFunction => is_codeunit k && negb inc | _ => false end in
    if accepts_unit k c && negb before_contains then [(ckind_tag c, n)] else []
  | SModProcImpl n => if accepts_unit k KModProcImpl then [(ckind_tag KModProcImpl, n)] else []
  | SLeaf l names => if accepts_leaf k l then map (fun n => (lkind_tag l, n)) names else []
  | _ => []
  end.
Definition expected_ifaces (k : ckind) (st : stmt) : list (bool * str) :=
  match st with
  | SIface ab n => if accepts_unit k KInterface then [(ab, n)] else []
  | _ => []
  end.

Definition pair_str_eqb (a b : str * str) : bool := seqb (fst a) (fst b) && seqb (snd a) (snd b).
Definition iface_eqb (a b : bool * str) : bool := Bool.eqb (fst a) (fst b) && seqb (snd a) (snd b).

(* what the statement kind says about the branch that must have run *)
Definition key_fits (st : stmt) (key : str) : bool :=
  match st with
  | SContains => seqb key (s "contains")
  | SEnd _ => seqb key (s "END_RE")
  | SBlock => seqb key (s "BLOCK_RE")
  | _ => true
  end.

(* a probe: container kind, after CONTAINS, block level zero, the line; what FORD did: branch,
   entities gained (kind tag, name), interfaces constructed, exception raised while dispatching;
   the statement the generator claims the line to be (or nothing) and a region code for it *)
Definition probe := (ckind * bool * bool * str * (str * list (str * str) * list (bool * str) * bool) * option stmt * nat)%type.

(* an END that would close the source file itself is an error (Sem/Tree.v: EEndAtFile) *)
Definition expects_raise (k : ckind) (lvl0 : bool) (st : stmt) : bool :=
  match st, k with SEnd EndPlain, KFile => lvl0 | _, _ => false end.

Definition observed_fits (k : ckind) (inc lvl0 : bool) (st : stmt)
           (obs : str * list (str * str) * list (bool * str) * bool) : bool :=
  let '(branch, created, ifaces, raised) := obs in
  Bool.eqb raised (expects_raise k lvl0 st)
  && perm_eqb pair_str_eqb (expected_created k inc st) created
  && perm_eqb iface_eqb (expected_ifaces k st) ifaces
  && key_fits st branch.

Definition judge_line (p : probe) : nat :=
  let '(k, inc, lvl0, line, obs, spec, region) := p in
  let '(branch, created, ifaces, raised) := obs in
  match classify (mkctx k inc lvl0) line with
  | Unmod => 1000
  | Fired key st =>
    let m := negb (seqb key branch) || negb (observed_fits k inc lvl0 st obs) in
    let sv := match spec with Some st' => negb (observed_fits k inc lvl0 st' obs) | None => false end in
    verdict m sv region
  end.

(* model against the generator's claim, without the implementation: 0 = the model classifies the
   line as the claimed statement, 1 = differently, 1000 = outside the model *)
Definition stmt_eqb (a b : stmt) : bool :=
  match a, b with
  | SDoc x, SDoc y => seqb x y
  | SContains, SContains | SNoop, SNoop | SBlock, SBlock => true
  | SEnd EndPlain, SEnd EndPlain | SEnd EndBlock, SEnd EndBlock | SEnd EndAssociate, SEnd EndAssociate => true
  | SUnit k x, SUnit k' y => ckind_eqb k k' && seqb x y
  | SIface a x, SIface b y => Bool.eqb a b && seqb x y
  | SLeaf l xs, SLeaf l' ys => lkind_eqb l l' && list_eqb seqb xs ys
  | SModProcImpl x, SModProcImpl y => seqb x y
  | _, _ => false
  end.

(* ------------------------------------------------------------------ spelled statements *)
(* phase 1: the text of a spelled statement, for the harness to probe the implementation with *)
Definition render_text (l : sline) : string := string_of_list_ascii (render l).

(* phase 2: a spelled statement in a parser state: the text as it was probed, what FORD did.
   bit 0: the model classifies the text differently from FORD; bit 1: FORD does not treat the line as
   the statement it is (Spec); region 0 = inside the side conditions of the dispatch theorem
   (line_ok, place_ok), 9 = outside; 2000 = the probed text is not the rendered line *)
Definition sprobe := (ckind * bool * bool * sline * str * (str * list (str * str) * list (bool * str) * bool))%type.
Definition judge_sline (p : sprobe) : nat :=
  let '(k, inc, lvl0, l, text, obs) := p in
  if negb (seqb (render l) text) then 2000 else
  let region := if line_ok l && place_ok k inc lvl0 l then 0 else 9 in
  let '(branch, created, ifaces, raised) := obs in
  let sv := negb (observed_fits k inc lvl0 (stmt_of l) obs) in
  match classify (mkctx k inc lvl0) text with
  | Unmod => if sv then verdict false true region else 1000
  | Fired key st =>
    let m := negb (seqb key branch) || negb (observed_fits k inc lvl0 st obs) in
    verdict m sv region
  end.

(* the dispatch theorem on one instance (always 0 once the theorem is proved): inside the side
   conditions the model classifies the rendered line as its statement *)
Definition theorem_instance (p : ckind * bool * bool * sline) : nat :=
  let '(k, inc, lvl0, l) := p in
  if line_ok l && place_ok k inc lvl0 l then
    match classify (mkctx k inc lvl0) (render l) with
    | Fired _ st => if stmt_eqb st (stmt_of l) then 0 else 1
    | Unmod => 1
    end
  else 1000.

(* ------------------------------------------------------------------ whole files, from the reader's lines *)
(* file name, the logical lines the reader delivers, FORD's tree or an error code: 0 = the text-level
   model (classification + structure) gives the tree FORD gives, 1 = not, 1000 = a line outside the model *)
Definition judge_text (c : str * list str * (ent + nat)) : nat :=
  let '(fname, lines, impl) := c in
  match parse_text fname lines, impl with
  | TUnmod, _ => 1000
  | TOk e [], inl t => if ent_eqb (S (ent_size e + ent_size t)) e t then 0 else 1
  | TErr _, inr _ => 0
  | _, _ => 1
  end.
