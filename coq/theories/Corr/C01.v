(* Corr/C01.v — judge for the entity-tree correspondence (C01, C03 attach, C20) *)
From Ford Require Import Base.Str Sem.Tree.

Definition ckind_eqb (a b : ckind) : bool :=
  match a, b with
  | KFile, KFile | KModule, KModule | KSubmodule, KSubmodule | KProgram, KProgram
  | KSubroutine, KSubroutine | KFunction, KFunction | KModProcImpl, KModProcImpl
  | KType, KType | KEnum, KEnum | KInterface, KInterface | KBlockData, KBlockData => true
  | _, _ => false
  end.
Definition lkind_eqb (a b : lkind) : bool :=
  match a, b with
  | LVariable, LVariable | LNamelist, LNamelist | LCommon, LCommon | LBoundProc, LBoundProc
  | LFinal, LFinal | LModProcRef, LModProcRef | LUse, LUse => true
  | _, _ => false
  end.

Fixpoint remove_first {A} (p : A -> bool) (l : list A) : option (list A) :=
  match l with
  | [] => None
  | x :: l' => if p x then Some l' else
               match remove_first p l' with Some r => Some (x :: r) | None => None end
  end.
Fixpoint perm_eqb {A} (eq : A -> A -> bool) (a b : list A) : bool :=
  match a with
  | [] => match b with [] => true | _ => false end
  | x :: a' => match remove_first (eq x) b with Some b' => perm_eqb eq a' b' | None => false end
  end.

(* entities are compared up to the letter case of names and the order of siblings *)
Fixpoint ent_eqb (fuel : nat) (a b : ent) : bool :=
  match fuel with
  | 0 => false
  | S f =>
    match a, b with
    | Leaf la na da, Leaf lb nb db =>
      lkind_eqb la lb && str_eqb (lower na) (lower nb) && list_eqb str_eqb da db
    | Container ka na aa ga da ca, Container kb nb ab gb db cb =>
      ckind_eqb ka kb && str_eqb (lower na) (lower nb) && Bool.eqb aa ab && Bool.eqb ga gb
      && list_eqb str_eqb da db && perm_eqb (ent_eqb f) ca cb
    | _, _ => false
    end
  end.

Fixpoint ent_size (e : ent) : nat :=
  match e with
  | Leaf _ _ _ => 1
  | Container _ _ _ _ _ c => S (fold_right (fun x acc => ent_size x + acc) 0 c)
  end.

(* implementation result: inl tree | inr error code (1 = file rejected/raised) *)
Definition err_code (e : perr) : nat := 1.

(* case: file name, statements, implementation result, declared (spec) tree or nothing *)
Definition judge (c : str * list stmt * (ent + nat) * option ent) : nat :=
  let '(fname, stmts, impl, spec) := c in
  let model := parse_file fname stmts in
  let m := match model, impl with
           | POk e [], inl t => negb (ent_eqb (S (ent_size e + ent_size t)) e t)
           | PErr _, inr _ => false
           | _, _ => true
           end in
  let sp := match spec, impl with
            | Some d, inl t => negb (ent_eqb (S (ent_size d + ent_size t)) d t)
            | Some _, inr _ => true
            | None, _ => false
            end in
  verdict m sp 0.
