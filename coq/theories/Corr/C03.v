(* Corr/C03.v — judge for the reader's documentation handling *)
From Ford Require Import Base.Str Lex.Quote Lex.Reader Corr.C02.

(* Spec: every statement is followed by exactly its own documentation — the lines written before it
   (pre-marker styles) first, then the lines written after it — all rewritten to the plain marker;
   ordinary comments never appear.  Empty documentation lines (FORD emits one for a blank line that
   follows documentation) are ignored on both sides. *)
Definition doc_line (c : cfg) (t : str) : str := bang :: docmark c ++ t.

Definition expected_out (c : cfg) (items : list (str * list str * list str)) : list str :=
  flat_map (fun it => let '(st, pre, post) := it in st :: map (doc_line c) (pre ++ post)) items.

Definition drop_empty_docs (c : cfg) (l : list str) : list str :=
  filter (fun x => negb (str_eqb x (bang :: docmark c))) l.

Definition judge_docs (k : cfg * list str * list (str * list str * list str) * (list str + nat)) : nat :=
  let '(c, lines, items, impl) := k in
  let sp := match impl with
            | inl outs => negb (list_eqb str_eqb (drop_empty_docs c outs) (expected_out c items))
            | inr _ => true
            end in
  verdict (negb (res_eqb (read_all c lines) impl)) sp 0.

(* the same for a fixed-form file (read through the converter, model Lex/Fixed.v):
   (markers, length limit, fixed-form lines with their newlines, items, impl) *)
From Ford Require Import Lex.Fixed.

Definition judge_docs_fixed (k : cfg * bool * list str * list (str * list str * list str) * (list str + nat)) : nat :=
  let '(c, ll, lines, items, impl) := k in
  let sp := match impl with
            | inl outs => negb (list_eqb str_eqb (drop_empty_docs c outs) (expected_out c items))
            | inr _ => true
            end in
  verdict (negb (res_eqb (read_all c (map chomp (convert_to_free ll lines))) impl)) sp 0.
