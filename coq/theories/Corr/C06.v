(* Corr/C06.v — judge for the C06 correspondence: module graphs through Project.correlate() *)
From Ford Require Import Base.Str Sem.UseAssoc.

(* short constructors for the harness *)
Definition D (n : str) (k : kind) (p : perm) : decl := {| d_name := n; d_kind := k; d_perm := p |}.
Definition Un (i : bool) (t : str) (o : option (list (str * str))) (r : list (str * str)) : use_stmt :=
  {| u_target := t; u_only := o; u_renames := r; u_intrinsic := i |}.
Definition U := Un false.
Definition Ui := Un true.      (* use, intrinsic :: t *)
Definition Md (n : str) (p : perm) (ds : list decl) (a : list (str * bool)) (us : list use_stmt)
              (ns : list nscope) : module :=
  {| m_name := n; m_default := p; m_decls := ds; m_access := a; m_uses := us; m_nested := ns |}.
Definition Ns (path : list str) (kinds : list nkind) (ds : list decl) (us : list use_stmt) : nscope :=
  {| s_path := path; s_kinds := kinds; s_decls := ds; s_uses := us |}.

(* FORD lower-cases every name it stores or looks up *)
Definition lower_pairs (l : list (str * str)) := map (fun lr => (lower (fst lr), lower (snd lr))) l.
Definition lower_decls (ds : list decl) := map (fun d => D (lower (d_name d)) (d_kind d) (d_perm d)) ds.
Definition lower_uses (us : list use_stmt) :=
  map (fun u => Un (u_intrinsic u) (lower (u_target u))
                  (match u_only u with Some i => Some (lower_pairs i) | None => None end)
                  (lower_pairs (u_renames u))) us.
Definition lower_module (M : module) : module :=
  {| m_name := lower (m_name M); m_default := m_default M;
     m_decls := lower_decls (m_decls M);
     m_access := map (fun a => (lower (fst a), snd a)) (m_access M);
     m_uses := lower_uses (m_uses M);
     m_nested := map (fun Sc => Ns (map lower (s_path Sc)) (s_kinds Sc) (lower_decls (s_decls Sc)) (lower_uses (s_uses Sc)))
                     (m_nested M) |}.

(* what the harness observed on the implementation for one unit (module or program):
   its name, whether it is a module (programs have no pub_* tables), and the eight dictionaries
   pub_procs pub_absints pub_types pub_vars all_procs all_absinterfaces all_types all_vars *)
Record unit_obs := { o_name : str; o_is_module : bool; o_pub : list table; o_all : list table }.
(* a reference of unit [name] to the local identifier [id] of class c, resolved by FORD to an
   entity (or left unresolved) *)
(* [f_path] = [] for a reference made by the unit itself, else the path of the nested scope *)
Record ref_obs := { f_unit : str; f_path : list str; f_cls : cls; f_id : str; f_ent : option ent }.
(* the four all_* dictionaries of a nested scope (procs, absinterfaces, types, vars) *)
Record nest_obs := { q_unit : str; q_path : list str; q_all : list table }.
(* what a USE statement of a scope was matched with: b_kind 0 nothing (the name stays text), 1 a
   module of the project (b_name), 2 a link object for an intrinsic / extra module (b_name);
   b_intr: every USE statement of the scope for this name is written USE, INTRINSIC :: *)
Record bind_obs := { b_unit : str; b_path : list str; b_target : str; b_intr : bool; b_kind : nat; b_name : str }.
Record run := { r_files : list str;          (* unit names in the order the files were read *)
                r_order : list str;          (* the order in which FORD correlated the units *)
                r_exc : bool;                (* Project.correlate raised CircularDependencyError *)
                r_units : list unit_obs; r_refs : list ref_obs; r_nested : list nest_obs;
                r_ext : list str;            (* names of the link objects: INTRINSIC_MODS and extra_mods *)
                r_binds : list bind_obs }.
Definition case := (graph * list run)%type.

Definition reorder (g : graph) (files : list str) : graph :=
  flat_map (fun n => match find_module g n with Some M => [M] | None => [] end) files.

(* exact comparison of two dictionaries as finite maps *)
Definition table_eq (a b : table) : bool :=
  Nat.eqb (length a) (length b)
  && forallb (fun kv => match assoc_get (fst kv) b with Some e => ent_eqb e (snd kv) | None => false end) a.
Definition nth_tab (l : list table) (i : nat) : table := nth i l [].
Definition cls_idx (c : cls) : nat := match c with CProc => 0 | CAbs => 1 | CType => 2 | CVar => 3 end.

(* every pair of l is an entry of the dictionary t *)
Definition table_has (t : table) (l : list (str * ent)) : bool :=
  forallb (fun kv => match assoc_get (fst kv) t with Some e => ent_eqb e (snd kv) | None => false end) l.
Definition find_nested (M : module) (path : list str) : option nscope :=
  find (fun Sc => list_eqb str_eqb (s_path Sc) path) (m_nested M).
(* Since /repo 3f6f480 a scope's dictionaries are copies of its host's (C07): nothing leaks from a
   nested scope into the module or into a sibling scope, so the module's dictionaries are compared
   exactly whatever it contains, and of a nested scope's dictionary the use-associated part (the
   entries whose entity is defined in another module) is compared exactly too.  The helpers below
   are kept as identities so that the judge reads as before. *)
Definition shared_with_nested (M : module) (c : cls) : bool := false.
Definition leak_names (c : cls) (g : graph) (order : list str) (M : module) : list str := [].
Definition unleaked (c : cls) (g : graph) (order : list str) (M : module) (l : list (str * ent)) := l.
Definition foreign_names (c : cls) (g : graph) (order : list str) (M : module) (Sc : nscope) : list str := [].
Definition unforeign (c : cls) (g : graph) (order : list str) (M : module) (Sc : nscope) (l : list (str * ent)) := l.
(* every entry of the dictionary t whose entity belongs to another module than M is in l (or in l') *)
Definition foreign_within (M : module) (t : table) (l l' : list (str * ent)) : bool :=
  forallb (fun kv => str_eqb (fst (snd kv)) (m_name M) || in_b (fst kv) (snd kv) l || in_b (fst kv) (snd kv) l') t.
(* what a nested scope may hold at most by use association or from its module: its own imports,
   its hosts' and the module's scope (an interface body reaches its host only through IMPORT, which
   FORD always grants; the Spec's lower bound does not demand it, the upper bound allows it) *)
Definition nested_upper_spec (c : cls) (g : graph) (M : module) (Sc : nscope) : list (str * ent) :=
  scope c g M ++ flat_map (nested_imports c g M) (hosts M Sc).
(* a reference the lists do not resolve may only denote an entity local to the module *)
Definition local_or_none (M : module) (e : option ent) : bool :=
  match e with None => true | Some x => str_eqb (fst x) (m_name M) end.
Definition lookup (n : str) (l : list (str * ent)) : option ent :=
  match find (fun kv => str_eqb (fst kv) n) l with Some kv => Some (snd kv) | None => None end.

(* find_used_modules: first candidate of the name in chain(modules, external_modules), for a name
   in the scope's intrinsic_uses among the link objects only.  The scope is a module / program
   (path []) or a nested scope; b_intr is computed by the harness from the statements, and checked
   here against the model's scope_intrinsic when the scope is found *)
Definition scope_of_bind (g : graph) (b : bind_obs) : option module :=
  match find_module g (b_unit b) with
  | None => None
  | Some M => match b_path b with
              | [] => Some M
              | p => match find (fun Sc => list_eqb str_eqb (s_path Sc) p) (m_nested M) with
                     | Some Sc => Some (as_module M Sc)
                     | None => None
                     end
              end
  end.
Definition bind_intr (g : graph) (b : bind_obs) : bool :=
  match scope_of_bind g b with Some Sc => scope_intrinsic Sc (b_target b) | None => false end.
Definition bind_model_ok (g : graph) (ext : list str) (b : bind_obs) : bool :=
  match find_used_in g ext (bind_intr g b) (b_target b) with
  | Some (CMod M) => Nat.eqb (b_kind b) 1 && str_eqb (b_name b) (m_name M)
  | Some (CExt n) => Nat.eqb (b_kind b) 2 && str_eqb (b_name b) n
  | None => Nat.eqb (b_kind b) 0
  end.
(* Fortran 2018 14.2.2: with INTRINSIC the intrinsic module (never a module of the project);
   otherwise the project's module of the name if there is one, else an intrinsic / extra module *)
Definition bind_spec_ok (g : graph) (ext : list str) (b : bind_obs) : bool :=
  if b_intr b
  then (if str_in (b_target b) ext then Nat.eqb (b_kind b) 2 && str_eqb (b_name b) (b_target b)
        else Nat.eqb (b_kind b) 0)
  else match find_module g (b_target b) with
       | Some M => Nat.eqb (b_kind b) 1 && str_eqb (b_name b) (m_name M)
       | None => if str_in (b_target b) ext then Nat.eqb (b_kind b) 2 && str_eqb (b_name b) (b_target b)
                 else Nat.eqb (b_kind b) 0
       end.
(* the Spec's answer where the model gives the same answer as the Spec *)
Definition bind_spec_ok_x (g : graph) (ext : list str) (b : bind_obs) : bool :=
  let as_model := {| b_unit := b_unit b; b_path := b_path b; b_target := b_target b; b_intr := b_intr b;
                     b_kind := match find_used_in g ext (bind_intr g b) (b_target b) with
                               | Some (CMod _) => 1 | Some (CExt _) => 2 | None => 0 end;
                     b_name := match find_used_in g ext (bind_intr g b) (b_target b) with
                               | Some x => cand_name x | None => b_name b end |} in
  negb (bind_spec_ok g ext as_model) || bind_spec_ok g ext b.

Definition model_ok (g : graph) (r : run) : bool :=
  match toposort g with
  | None => r_exc r
  | Some _ =>
    negb (r_exc r) && topo_b g (r_order r)
    && forallb (bind_model_ok g (r_ext r)) (r_binds r)
    && forallb (fun c =>
         let st := correlate_all c g (r_order r) in
         forallb (fun o => match find_module g (o_name o) with
                           | None => false
                           | Some M =>
                             (negb (o_is_module o) || table_eq (nth_tab (o_pub o) (cls_idx c)) (fst (st_tabs st M)))
                             && (if shared_with_nested M c
                                 then table_has (nth_tab (o_all o) (cls_idx c))
                                                (unleaked c g (r_order r) M (snd (st_tabs st M)))
                                 else table_eq (nth_tab (o_all o) (cls_idx c)) (snd (st_tabs st M)))
                           end) (r_units r)
         && forallb (fun q => match find_module g (q_unit q) with
                              | None => false
                              | Some M =>
                                match find_nested M (q_path q) with
                                | None => false
                                | Some Sc =>
                                  (* with clashing identifiers the dictionary holds one of them: no claim *)
                                  negb (functional_b (nested_lower_model c g (r_order r) M Sc))
                                  || (table_has (nth_tab (q_all q) (cls_idx c))
                                                (unforeign c g (r_order r) M Sc (nested_lower_model c g (r_order r) M Sc))
                                      && foreign_within M (nth_tab (q_all q) (cls_idx c))
                                                        (nested_lower_model c g (r_order r) M Sc) [])
                                end
                              end) (r_nested r)
         && forallb (fun f => negb (cls_eqb (f_cls f) c) ||
                              match find_module g (f_unit f) with
                              | None => false
                              | Some M =>
                                match f_path f with
                                | [] => match assoc_get (f_id f) (snd (st_tabs st M)) with
                                        | None => shared_with_nested M c   (* a leak may resolve it: C07 *)
                                                  || opt_eqb ent_eqb None (f_ent f)
                                        | Some e => (shared_with_nested M c && str_in (f_id f) (leak_names c g (r_order r) M))
                                                    || opt_eqb ent_eqb (Some e) (f_ent f)
                                        end
                                | _ => match find_nested M (f_path f) with
                                       | None => false
                                       | Some Sc =>
                                         match lookup (f_id f) (unforeign c g (r_order r) M Sc
                                                                  (nested_lower_model c g (r_order r) M Sc)) with
                                         | Some e => negb (functional_b (nested_lower_model c g (r_order r) M Sc))
                                                     || opt_eqb ent_eqb (Some e) (f_ent f)
                                         | None => local_or_none M (f_ent f)
                                         end
                                       end
                                end
                              end) (r_refs r)) all_cls
    && Nat.eqb (length (r_units r)) (length g)
  end.

(* the Spec's lower bound for a nested scope is only asked when it is unambiguous and not shadowed
   by a declaration local to the scope or to one of its hosts *)
Definition nested_clear (g : graph) (M : module) (Sc : nscope) : bool :=
  let l := flat_map (fun c => nested_lower_spec c g M Sc) all_cls in
  functional_b l
  && forallb (fun ne => negb (str_in (fst ne) (flat_map (fun H => map d_name (s_decls H)) (hosts M Sc)))) l.

(* the property on the implementation's output: every dictionary denotes the Spec's set, every
   reference resolves to the entity the Spec designates; in a nested scope every identifier the
   Spec makes accessible by use association (or from the module, for procedures) is there *)
Definition spec_ok (g : graph) (r : run) : bool :=
  negb (r_exc r)
  && forallb (bind_spec_ok g (r_ext r)) (r_binds r)
  && forallb (fun c =>
       forallb (fun o => match find_module g (o_name o) with
                         | None => false
                         | Some M =>
                           (negb (o_is_module o) || table_is (nth_tab (o_pub o) (cls_idx c)) (accessible c g M))
                           && (if shared_with_nested M c
                               then table_has (nth_tab (o_all o) (cls_idx c))
                                              (unleaked c g (r_order r) M (scope c g M))
                               else table_is (nth_tab (o_all o) (cls_idx c)) (scope c g M))
                         end) (r_units r)
       && forallb (fun q => match find_module g (q_unit q) with
                            | None => false
                            | Some M =>
                              match find_nested M (q_path q) with
                              | None => false
                              | Some Sc => negb (nested_clear g M Sc)
                                          || (table_has (nth_tab (q_all q) (cls_idx c))
                                                        (unforeign c g (r_order r) M Sc (nested_lower_spec c g M Sc))
                                              && foreign_within M (nth_tab (q_all q) (cls_idx c)) (nested_upper_spec c g M Sc) [])
                              end
                            end) (r_nested r)
       && forallb (fun f => negb (cls_eqb (f_cls f) c) ||
                            match find_module g (f_unit f) with
                            | None => false
                            | Some M =>
                              match f_path f with
                              | [] => match lookup (f_id f) (scope c g M) with
                                      | Some _ => (shared_with_nested M c && str_in (f_id f) (leak_names c g (r_order r) M))
                                                  || match f_ent f with
                                                     | Some e => in_b (f_id f) e (scope c g M)
                                                     | None => false
                                                     end
                                      | None => match f_ent f with
                                                | None => true
                                                | Some _ => shared_with_nested M c   (* C07's leak *)
                                                end
                                      end
                              | _ => match find_nested M (f_path f) with
                                     | None => false
                                     | Some Sc =>
                                       negb (nested_clear g M Sc) ||
                                       match lookup (f_id f) (unforeign c g (r_order r) M Sc (nested_lower_spec c g M Sc)) with
                                       | Some e => opt_eqb ent_eqb (Some e) (f_ent f)
                                       | None => local_or_none M (f_ent f)
                                                 || match f_ent f with
                                                    | Some e => in_b (f_id f) e (nested_upper_spec c g M Sc)
                                                    | None => false
                                                    end
                                       end
                                     end
                              end
                            end) (r_refs r)) all_cls.

(* ---- deviations from the Spec that the model does not explain.
   For the tables of a module the model equals the Spec on every legal program (C06_full); the
   model's view of nested scopes (leaks into shared dictionaries, host association) is coarser
   than the Spec there, and a difference the model shares with the code is a recorded one.  Wherever
   the model AGREES with the Spec (a name it resolves as Fortran does, or leaves out as Fortran
   does), the implementation must agree too: otherwise the input is a failing input whatever
   region it lies in. *)
(* exact tables: for every name of any of the three, model = Spec -> impl = Spec *)
Definition table_is_x (t m : table) (l : list (str * ent)) : bool :=
  forallb (fun n => negb (opt_eqb ent_eqb (assoc_get n m) (lookup n l))
                    || opt_eqb ent_eqb (assoc_get n t) (lookup n l))
          (map fst t ++ map fst m ++ map fst l).
(* lower bounds: an entry both the model and the Spec demand must be there *)
Definition table_has_x (t : table) (m l : list (str * ent)) : bool :=
  forallb (fun kv => negb (opt_eqb ent_eqb (lookup (fst kv) m) (Some (snd kv)))
                     || match assoc_get (fst kv) t with Some e => ent_eqb e (snd kv) | None => false end) l.

Definition spec_ok_x (g : graph) (r : run) : bool :=
  negb (r_exc r)
  && forallb (bind_spec_ok_x g (r_ext r)) (r_binds r)
  && forallb (fun c =>
       let st := correlate_all c g (r_order r) in
       forallb (fun o => match find_module g (o_name o) with
                         | None => false
                         | Some M =>
                           (negb (o_is_module o)
                            || table_is_x (nth_tab (o_pub o) (cls_idx c)) (fst (st_tabs st M)) (accessible c g M))
                           && (if shared_with_nested M c
                               then table_has_x (nth_tab (o_all o) (cls_idx c))
                                                (unleaked c g (r_order r) M (snd (st_tabs st M)))
                                                (unleaked c g (r_order r) M (scope c g M))
                               else table_is_x (nth_tab (o_all o) (cls_idx c)) (snd (st_tabs st M)) (scope c g M))
                         end) (r_units r)
       && forallb (fun q => match find_module g (q_unit q) with
                            | None => false
                            | Some M =>
                              match find_nested M (q_path q) with
                              | None => false
                              | Some Sc => negb (nested_clear g M Sc)
                                          || negb (functional_b (nested_lower_model c g (r_order r) M Sc))
                                          || (table_has_x (nth_tab (q_all q) (cls_idx c))
                                                          (unforeign c g (r_order r) M Sc (nested_lower_model c g (r_order r) M Sc))
                                                          (unforeign c g (r_order r) M Sc (nested_lower_spec c g M Sc))
                                              && foreign_within M (nth_tab (q_all q) (cls_idx c)) (nested_upper_spec c g M Sc)
                                                                (nested_lower_model c g (r_order r) M Sc))
                              end
                            end) (r_nested r)
       && forallb (fun f => negb (cls_eqb (f_cls f) c) ||
                            match find_module g (f_unit f) with
                            | None => false
                            | Some M =>
                              match f_path f with
                              | [] =>
                                let m := assoc_get (f_id f) (snd (st_tabs st M)) in
                                let sp := lookup (f_id f) (scope c g M) in
                                negb (opt_eqb ent_eqb m sp)
                                || match sp with
                                   | Some e => (shared_with_nested M c && str_in (f_id f) (leak_names c g (r_order r) M))
                                               || opt_eqb ent_eqb (Some e) (f_ent f)
                                   | None => match f_ent f with
                                             | None => true
                                             | Some _ => shared_with_nested M c
                                             end
                                   end
                              | _ => match find_nested M (f_path f) with
                                     | None => false
                                     | Some Sc =>
                                       negb (nested_clear g M Sc)
                                       || negb (functional_b (nested_lower_model c g (r_order r) M Sc))
                                       || match lookup (f_id f) (unforeign c g (r_order r) M Sc (nested_lower_spec c g M Sc)) with
                                          | Some e =>
                                            negb (opt_eqb ent_eqb (lookup (f_id f) (unforeign c g (r_order r) M Sc
                                                                            (nested_lower_model c g (r_order r) M Sc))) (Some e))
                                            || opt_eqb ent_eqb (Some e) (f_ent f)
                                          | None =>
                                            local_or_none M (f_ent f)
                                            || match f_ent f with
                                               | Some e => in_b (f_id f) e (nested_upper_spec c g M Sc)
                                               | None => false
                                               end
                                            || match lookup (f_id f) (nested_lower_model c g (r_order r) M Sc) with
                                               | Some _ => true      (* the model resolves it: a recorded deviation *)
                                               | None => false
                                               end
                                          end
                                     end
                              end
                            end) (r_refs r)) all_cls.

(* acyclic = the toposort model succeeds; the Spec is only asked about legal programs (region
   value 32 marks the programs that are not: ambiguous identifiers, cycles, self use).
   bit 1: the implementation differs from the Spec where the model agrees with the Spec;

   region value 64: the implementation differs from the Spec somewhere (explained or not). *)
Definition judge_run (g0 : graph) (r : run) : nat :=
  let g := reorder (map lower_module g0) (map lower (r_files r)) in
  let legal := wf_graph g && match toposort g with Some _ => true | None => false end in
  verdict (negb (model_ok g r)) (legal && negb (spec_ok_x g r))
          ((if legal then 0 else 32) + (if legal && negb (spec_ok g r) then 64 else 0)).
Definition judge (c : case) : nat := fold_left Nat.lor (map (judge_run (fst c)) (snd c)) 0.

(* short constructors for runs *)
Definition Ob (n : str) (is_mod : bool) (pub all : list table) : unit_obs :=
  {| o_name := n; o_is_module := is_mod; o_pub := pub; o_all := all |}.
Definition Rf (u : str) (path : list str) (c : cls) (id : str) (e : option ent) : ref_obs :=
  {| f_unit := u; f_path := path; f_cls := c; f_id := id; f_ent := e |}.
Definition Nb (u : str) (path : list str) (all : list table) : nest_obs :=
  {| q_unit := u; q_path := path; q_all := all |}.
Definition Bn (u : str) (path : list str) (t : str) (intr : bool) (k : nat) (n : str) : bind_obs :=
  {| b_unit := u; b_path := path; b_target := t; b_intr := intr; b_kind := k; b_name := n |}.
Definition Rb (files order : list str) (ext : list str) (binds : list bind_obs)
              (obs : list unit_obs * list ref_obs * list nest_obs) : run :=
  {| r_files := files; r_order := order; r_exc := false; r_units := fst (fst obs); r_refs := snd (fst obs);
     r_nested := snd obs; r_ext := ext; r_binds := binds |}.
Definition R (files order : list str) (obs : list unit_obs * list ref_obs * list nest_obs) : run :=
  Rb files order [] [] obs.
Definition RX (files : list str) : run :=
  {| r_files := files; r_order := []; r_exc := true; r_units := []; r_refs := []; r_nested := [];
     r_ext := []; r_binds := [] |}.
