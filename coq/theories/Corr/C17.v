(* Corr/C17.v — judge for the C17 correspondence: page directory trees built on disk, the node
   tree returned by ford.pagetree.get_page_tree and the files PagetreePage.writeout leaves below
   <output>/page, against Model (Out/PageTree.v: gpt, writeout) and Spec (spec_pages, ...). *)
From Ford Require Import Base.Str Out.PageTree.

Fixpoint node_eqb (a b : node) {struct a} : bool :=
  match a, b with
  | Node n1 f1 l1 o1 c1 fl1 s1, Node n2 f2 l2 o2 c2 fl2 s2 =>
    str_eqb n1 n2 && str_eqb f1 f2 && path_eqb l1 l2 && path_eqb o1 o2 && path_eqb c1 c2
    && path_eqb fl1 fl2
    && (fix go (x y : list node) {struct x} : bool :=
          match x, y with
          | [], [] => true
          | p :: x', q :: y' => node_eqb p q && go x' y'
          | _, _ => false
          end) s1 s2
  end.
Definition res_eqb (a b : res) : bool :=
  match a, b with
  | RErr, RErr => true
  | RNone, RNone => true
  | RNode x, RNode y => node_eqb x y
  | _, _ => false
  end.
Definition origin_eqb (a b : origin) : bool :=
  match a, b with
  | Page x, Page y => path_eqb x y
  | Copy x, Copy y => path_eqb x y
  | _, _ => false
  end.

Definition has_file (p : list str) (l : list (list str * origin)) : bool :=
  match file_at p l with Some _ => true | None => false end.
Definition files_agree (m i : list (list str * origin)) : bool :=
  forallb (fun pi => opt_eqb origin_eqb (file_at (fst pi) m) (Some (snd pi))) i
  && forallb (fun pm => has_file (fst pm) i) m.

Definition page_eqb (a b : list str * list str) : bool :=
  path_eqb (fst a) (fst b) && path_eqb (snd a) (snd b).
Definition pages_eqb := list_eqb page_eqb.
Definition path_in (p : list str) (l : list (list str)) : bool := existsb (path_eqb p) l.

(* one case: (project copy_subdir, entries of page_dir), (get_page_tree result, files written) *)
Definition case := ((list str * list entry) * (res * list (list str * origin)))%type.

Definition spec_ok (proj : list str) (es : list entry) (ires : res)
           (ifiles : list (list str * origin)) : bool :=
  let top := Dir [] es in
  match ires with
  | RErr => may_fail top
  | _ =>
    let ip := pages ires in
    pages_eqb ip (spec_pages only_copied proj [] top)
    && forallb (fun so => opt_eqb origin_eqb (file_at (snd so) ifiles) (Some (Page (fst so)))) ip
    && forallb (fun p => match file_at p ifiles with
                         | Some (Copy q) => path_eqb p q
                         | Some (Page _) => true
                         | None => false
                         end)
               (spec_copied proj [] top ++ spec_copydirs proj [] top)
    && forallb (fun pf => match snd pf with
                          | Copy q => path_eqb (fst pf) q && path_in q (spec_may_copy proj [] top)
                          | Page src => existsb (page_eqb (src, fst pf)) ip
                          end) ifiles
  end.

(* no known region is left: the three defects found here are repaired *)
Definition region (proj : list str) (es : list entry) : nat := 0.

Definition judge (c : case) : nat :=
  let proj := fst (fst c) in
  let es := snd (fst c) in
  let ires := fst (snd c) in
  let ifiles := snd (snd c) in
  let m := page_tree proj es in
  verdict (negb (res_eqb m ires) || negb (files_agree (f_files (writeout es m)) ifiles))
          (negb (spec_ok proj es ires ifiles))
          (region proj es).
