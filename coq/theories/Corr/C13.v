(* Corr/C13.v — judge for the C13 correspondence.
   One case = one generated project: the relation read from FORD's correlated objects ([world]),
   the registration order (registered entities followed by the call-graph roots graph_all creates
   beforehand), the entities with "graph: false", show_proc_parent, and for each GraphManager run (one
   per limit setting) every graph FORD built, in construction order, with the node / edge sets parsed
   from its DOT source.
   code = bit0 (model <> implementation) + 2 * bit1 (the implementation's graphs violate the property).
   There is no known region any more: the six recorded defects are repaired, their witnesses are
   regression inputs of the harness.
   Two relations are kept apart: the MODEL is fed with the relation read from FORD's correlated objects
   (model = implementation tie), the SPEC with the relation the generator wrote into the source
   (uses / ancestry / extension / composition / calls / bindings / interface implementations / file
   dependencies, harness/gen/graphs.py [declared]) whenever the project was generated in strict mode. *)
From Coq Require Import NArith.
From Ford Require Import Base.Str Out.Graph Out.GraphSpec.

Record igraph := mkI {
  i_nodes : list nat; i_edges : list edge; i_trunc : option nat; i_hop : list nat }.
(* compact edge constructors for the generated case files *)
Definition Es (t h : nat) : edge := mkE t h false [].
Definition Ed (t h : nat) : edge := mkE t h true [].
(* large depths are written q * kilo + r so that the case files carry no long unary numerals *)
Definition kilo : nat := 1000.

Definition run_t := list (greq * igraph).
(* world, registered entities, entities with graph: false, show_proc_parent,
   node labels as written in the DOT sources (one per node: the harness checks they agree across graphs),
   the runs *)
Definition case := (world * list nat * list nat * bool * list (nat * str) * list run_t *
                    option (world * list nat * list nat * list nat))%type.
(* last component: the Spec side supplied by the generator — a world with the same entities whose relation
   fields state what the generated source declares (not what FORD derived), the entities expected to be
   registered, those with "graph: false", and the entities the project-wide call graph has to expand
   besides the registered ones (displayed internal procedures — per-entity proc_internals metadata
   included — and generic bindings of displayed types, as the source metadata says).  None (hand-written projects, loose generator mode): the
   Spec side falls back to the relation read from FORD's objects. *)

(* ------------------------------------------------------------------ model = implementation *)
Definition edge_eqb (a b : edge) : bool :=
  Nat.eqb (e_tail a) (e_tail b) && Nat.eqb (e_head a) (e_head b) &&
  Bool.eqb (e_dashed a) (e_dashed b) && str_eqb (e_lab a) (e_lab b).
Fixpoint remove1 (e : edge) (l : list edge) : option (list edge) :=
  match l with
  | [] => None
  | x :: l' => if edge_eqb e x then Some l'
               else match remove1 e l' with Some r => Some (x :: r) | None => None end
  end.
Fixpoint perm_eqb (a b : list edge) : bool :=
  match a with
  | [] => match b with [] => true | _ => false end
  | e :: a' => match remove1 e b with Some b' => perm_eqb a' b' | None => false end
  end.

Definition same_graph (g : gstate) (i : igraph) : bool :=
  set_eqb (g_nodes g) (i_nodes i) && Nat.eqb (length (g_nodes g)) (length (i_nodes i)) &&
  perm_eqb (g_edges g) (i_edges i) && opt_eqb Nat.eqb (g_trunc g) (i_trunc i) &&
  set_eqb (g_hopn g) (i_hop i).
Definition labels_match (w : world) (show : bool) (labels : list (nat * str)) : bool :=
  forallb (fun nl => str_eqb (node_label w show (fst nl)) (snd nl)) labels.

Fixpoint all2 {A B} (f : A -> B -> bool) (a : list A) (b : list B) : bool :=
  match a, b with
  | [], [] => true
  | x :: a', y :: b' => f x y && all2 f a' b'
  | _, _ => false
  end.

Definition run_matches (w : world) (regs : list nat) (r : run_t) : bool :=
  let qs := map fst r in
  all2 same_graph (run w regs qs) (map snd r) &&
  negb (r_err (final_state w (registry w regs) qs)).

(* ------------------------------------------------------------------ the property on FORD's graphs *)
Definition dcap (w : world) (d : nat) : nat := Nat.min d (S (length w)).

(* declarations of every entity, computed once per case *)
Definition decl_table (w : world) : list (nat * list decl) := map (fun ke => (fst ke, decls w (fst ke))) w.
Fixpoint tab_get (tab : list (nat * list decl)) (x : nat) : list decl :=
  match tab with
  | [] => []
  | (k, v) :: tab' => if Nat.eqb x k then v else tab_get tab' x
  end.

(* hop by hop while the neighbourhood fits into max_nodes *)
Fixpoint fit_hops (succs : nat -> list nat) (maxn : N) (k : nat) (cur : list nat) : list nat :=
  match k with
  | 0 => cur
  | S k' =>
    let nxt := nodup Nat.eq_dec (cur ++ flat_map succs cur) in
    if (maxn <? N.of_nat (length nxt))%N then cur
    else if Nat.eqb (length nxt) (length cur) then cur
    else fit_hops succs maxn k' nxt
  end.
Definition spec_nodes (succs : nat -> list nat) (roots : list nat) (depth : nat) (maxn : N) : list nat :=
  fit_hops succs maxn depth (nd roots).

(* entities that have a node: the closure of what was registered under every declared relation
   (nodes are created on demand for everything a registered entity refers to) *)
Definition existing (w : world) (dl : nat -> list decl) (regs : list nat) : list nat :=
  fit_hops (fun x => map d_target (dl x)) (N.of_nat (S (length w) * S (length w))) (S (length w)) (nd regs).

Definition q_depth (w : world) (q : greq) : nat :=
  dcap w (shown_depth (class_nested (q_class q)) (max_depth (q_limits q))).

(* project-wide graphs leave out the entities with graph: false *)
Definition spec_succ (dl : nat -> list decl) (hidden univ : list nat) (c : gclass) (x : nat) : list nat :=
  let ys := if class_inverse c then declared_pred_f dl c univ x else declared_succ_f dl c x in
  if class_nested c then ys
  else if memn x hidden then [] else filter (fun y => negb (memn y hidden)) ys.
Definition spec_roots (hidden : list nat) (c : gclass) (roots : list nat) : list nat :=
  if class_nested c then roots else filter (fun y => negb (memn y hidden)) roots.

(* roots the Spec demands: those FORD used plus, for the project-wide call graph, the displayed
   entities the source declares as its roots *)
Definition demanded_roots (croots : list nat) (q : greq) : list nat :=
  match q_class q with GCall => nd (q_roots q ++ croots) | _ => q_roots q end.

Definition expected_nodes (w : world) (dl : nat -> list decl) (hidden univ croots : list nat) (q : greq) : list nat :=
  let c := q_class q in
  spec_nodes (spec_succ dl hidden univ c) (spec_roots hidden c (demanded_roots croots q)) (q_depth w q)
             (max_nodes (q_limits q)).

(* first hop complete: every declared arrow of every (demanded, shown) root of a forward graph is drawn,
   with its label, unless the first hop was refused by the node limit *)
Definition hop1_complete (dl : nat -> list decl) (hidden croots : list nat) (q : greq) (i : igraph) : bool :=
  let c := q_class q in
  if class_inverse c then true
  else match i_hop i with
       | _ :: _ => true
       | [] =>
         (* a project-wide graph whose roots alone exceed max_nodes refuses the hop with nothing in hop_nodes *)
         if negb (class_nested c) && opt_eqb Nat.eqb (i_trunc i) (Some 1) then true else
         forallb (fun r =>
           forallb (fun d =>
             if existsb (fun rl => rel_eqb (fst rl) (fst (fst d))) (rels_of_class c)
             then (if class_nested c then false else memn (d_target d) hidden) ||
                  existsb (fun e => Nat.eqb (e_tail e) r && Nat.eqb (e_head e) (d_target d) &&
                                    str_eqb (e_lab e) (snd d)) (i_edges i)
             else true) (dl r))
           (spec_roots hidden c (demanded_roots croots q))
       end.

(* every arrow t -> h is a declared relation "t uses / extends / contains / calls / implements / depends on h"
   with the label the source gives it *)
Definition arrow_declared (dl : nat -> list decl) (c : gclass) (t h : nat) (lab : str) : bool :=
  existsb (fun d => existsb (fun r => rel_eqb (fst r) (fst (fst d))) (rels_of_class c) &&
                    Nat.eqb (d_target d) h && str_eqb (snd d) lab) (dl t).
Definition edges_declared (dl : nat -> list decl) (c : gclass) (es : list edge) : bool :=
  forallb (fun e => arrow_declared dl c (e_tail e) (e_head e) (e_lab e)) es.

(* violation of the property by one graph *)
Definition graph_spec (w : world) (dl : nat -> list decl) (nograph univ croots : list nat) (q : greq) (i : igraph)
  : bool :=
  let c := q_class q in
  negb (no_dangling_b (i_nodes i) (i_edges i)) ||
  negb (edges_declared dl c (i_edges i)) ||
  negb (set_eqb (i_nodes i) (expected_nodes w dl nograph univ croots q)) ||
  negb (hop1_complete dl nograph croots q i) ||
  (* graph: false: no graphs of its own, no node in a project-wide graph *)
  (if class_nested c then existsb (fun x => memn x nograph) (q_roots q)
   else existsb (fun x => memn x nograph) (i_nodes i)).

(* a "calls"-type graph of a and the matching "called by"-type graph of b agree on the arrow a -> b *)
Definition has_arrow (a b : nat) (es : list edge) : bool :=
  existsb (fun e => Nat.eqb (e_tail e) a && Nat.eqb (e_head e) b) es.
(* labels of the arrows a -> b (component names on composition arrows) *)
Definition arrow_labels (a b : nat) (es : list edge) : list str :=
  map e_lab (filter (fun e => Nat.eqb (e_tail e) a && Nat.eqb (e_head e) b) es).
Definition inverse_class (c : gclass) : option gclass :=
  match c with GUses => Some GUsedBy | GInherits => Some GInheritedBy | GCalls => Some GCalledBy
             | GEff => Some GAff | _ => None end.
Definition gclass_eqb (a b : gclass) : bool :=
  match a, b with
  | GModule, GModule | GUses, GUses | GUsedBy, GUsedBy | GFile, GFile | GEff, GEff | GAff, GAff
  | GType, GType | GInherits, GInherits | GInheritedBy, GInheritedBy | GCall, GCall | GCalls, GCalls
  | GCalledBy, GCalledBy => true
  | _, _ => false
  end.
Definition hop1_present (i : igraph) : bool := match i_hop i with [] => true | _ => false end.
Definition inverse_pairs_ok (r : run_t) : bool :=
  forallb (fun qi =>
    match inverse_class (q_class (fst qi)), q_roots (fst qi) with
    | Some ci, [a] =>
      forallb (fun qj =>
        match q_roots (fst qj) with
        | [b] =>
          if gclass_eqb (q_class (fst qj)) ci then
            if hop1_present (snd qi) && hop1_present (snd qj)
            then Bool.eqb (has_arrow a b (i_edges (snd qi))) (has_arrow a b (i_edges (snd qj))) &&
                 list_eqb str_eqb (arrow_labels a b (i_edges (snd qi))) (arrow_labels a b (i_edges (snd qj)))
            else true
          else true
        | _ => true
        end) r
    | _, _ => true
    end) r.

Definition run_spec (w : world) (dl : nat -> list decl) (ex nograph croots : list nat) (r : run_t) : bool :=
  let univ := nd (ex ++ flat_map (fun qi => i_nodes (snd qi)) r) in
  negb (inverse_pairs_ok r) || existsb (fun qi => graph_spec w dl nograph univ croots (fst qi) (snd qi)) r.

Definition spec_of (ws : world) (regs snograph croots : list nat) (runs : list run_t) : bool :=
  let tab := decl_table ws in
  let dl := tab_get tab in
  let ex := existing ws dl (regs ++ croots) in
  existsb (run_spec ws dl ex snograph croots) runs.

Definition judge (c : case) : nat :=
  match c with
  | (w, regs, nograph, show, labels, runs, gen) =>
    let mm := negb (forallb (run_matches w regs) runs && labels_match w show labels) in
    let sp :=
      match gen with
      | None => spec_of w regs nograph [] runs
      | Some (ws, sregs, snograph, croots) => spec_of ws sregs snograph croots runs
      end in
    verdict mm sp 0
  end.

(* per-graph detail for replays: (run, graph index, model-mismatch, property violated) *)
Definition detail (c : case) : list (nat * nat * bool * bool) :=
  match c with
  | (w, regs, nograph, show, labels, runs, gen) =>
    let '(ws, sregs, snograph, croots) :=
      match gen with Some g => g | None => (w, regs, nograph, []) end in
    let tab := decl_table ws in
    let dl := tab_get tab in
    let ex := existing ws dl (sregs ++ croots) in
    flat_map (fun kr =>
      let r := snd kr in
      let univ := nd (ex ++ flat_map (fun qi => i_nodes (snd qi)) r) in
      let gs := run w regs (map fst r) in
      flat_map (fun x =>
        let '(j, (qi, g)) := x in
        let v := graph_spec ws dl snograph univ croots (fst qi) (snd qi) in
        let mm := negb (same_graph g (snd qi)) in
        if mm || v then [(fst kr, j, mm, v)] else [])
        (combine (seq 0 (length r)) (combine r gs)))
      (combine (seq 0 (length runs)) runs)
  end.

(* diagnostics for replays: entities whose declared relation (Spec side) differs from the one FORD derived,
   as (entity, relations only FORD has, relations only the source has) *)
Definition decl_eqb (a b : decl) : bool :=
  rel_eqb (fst (fst a)) (fst (fst b)) && Nat.eqb (d_target a) (d_target b) && str_eqb (snd a) (snd b).
Definition decl_diff (a b : list decl) : list decl := filter (fun d => negb (existsb (decl_eqb d) b)) a.
Definition relation_diff (c : case) : list (nat * list decl * list decl) :=
  match c with
  | (w, _, _, _, _, _, Some (ws, _, _, _)) =>
    flat_map (fun ke =>
      let x := fst ke in
      let a := decl_diff (decls w x) (decls ws x) in
      let b := decl_diff (decls ws x) (decls w x) in
      match a, b with [], [] => [] | _, _ => [(x, a, b)] end) ws
  | _ => []
  end.
