(* Corr/C13.v — judge for the C13 correspondence.
   One case = one generated project: the relation read from FORD's correlated objects ([world]),
   the registration order, the entities with "graph: false", show_proc_parent, and for each
   GraphManager run (one per limit setting) every graph FORD built, in construction order, with
   the node / edge sets parsed from its DOT source.
   code = bit0 (model <> implementation) + 2 * bit1 (the implementation's graphs violate the
   property outside every known region) + 4 * (mask of the known regions that were hit):
     1 graph-false-neighbour  2 lazy-inverse  4 filegraph-reversed  8 callgraph-limit-double-count
     16 module-procedure-impl-edge  32 external-procedure-call-unresolved
   Two relations are kept apart: the MODEL is fed with the relation read from FORD's correlated objects
   (model = implementation tie), the SPEC with the relation the generator wrote into the source
   (uses / ancestry / extension / composition / calls / bindings / interface implementations / file
   dependencies, harness/gen/graphs.py [declared]) whenever the project was generated in strict mode. *)
From Coq Require Import NArith.
From Ford Require Import Base.Str Out.Graph Out.GraphSpec.

Record igraph := mkI {
  i_nodes : list nat; i_edges : list edge; i_trunc : option nat; i_hop : list nat }.
(* compact edge constructors for the generated case files *)
Definition Es (t h : nat) : edge := mkE t h false [].
Definition Ed (t h : nat) : edge := mkE t h true [].
(* large depths are written q * kilo + r so that the case files carry no long unary numerals *)
Definition kilo : nat := 1000.

Definition run_t := list (greq * igraph).
(* world, registered entities, entities with graph: false, show_proc_parent,
   node labels as written in the DOT sources (one per node: the harness checks they agree across graphs),
   the runs *)
Definition case := (world * list nat * list nat * bool * list (nat * str) * list run_t *
                    option (world * option (world * nat) * list nat * list nat))%type.
(* last component: the Spec side supplied by the generator — a world with the same entities whose relation
   fields state what the generated source declares (not what FORD derived); optionally the same with the
   recorded relation-level findings applied and the mask of those findings (16 module-procedure-impl-edge,
   32 external-procedure-call-unresolved); the entities expected to be registered and those with
   "graph: false".  None (hand-written projects, loose generator mode): the Spec side falls back to the
   relation read from FORD's objects. *)

(* ------------------------------------------------------------------ model = implementation *)
Definition edge_eqb (a b : edge) : bool :=
  Nat.eqb (e_tail a) (e_tail b) && Nat.eqb (e_head a) (e_head b) &&
  Bool.eqb (e_dashed a) (e_dashed b) && str_eqb (e_lab a) (e_lab b).
Fixpoint remove1 (e : edge) (l : list edge) : option (list edge) :=
  match l with
  | [] => None
  | x :: l' => if edge_eqb e x then Some l'
               else match remove1 e l' with Some r => Some (x :: r) | None => None end
  end.
Fixpoint perm_eqb (a b : list edge) : bool :=
  match a with
  | [] => match b with [] => true | _ => false end
  | e :: a' => match remove1 e b with Some b' => perm_eqb a' b' | None => false end
  end.

Definition same_graph (g : gstate) (i : igraph) : bool :=
  set_eqb (g_nodes g) (i_nodes i) && Nat.eqb (length (g_nodes g)) (length (i_nodes i)) &&
  perm_eqb (g_edges g) (i_edges i) && opt_eqb Nat.eqb (g_trunc g) (i_trunc i) &&
  set_eqb (g_hopn g) (i_hop i).
Definition labels_match (w : world) (show : bool) (labels : list (nat * str)) : bool :=
  forallb (fun nl => str_eqb (node_label w show (fst nl)) (snd nl)) labels.

Fixpoint all2 {A B} (f : A -> B -> bool) (a : list A) (b : list B) : bool :=
  match a, b with
  | [], [] => true
  | x :: a', y :: b' => f x y && all2 f a' b'
  | _, _ => false
  end.

Definition run_matches (w : world) (regs : list nat) (r : run_t) : bool :=
  let qs := map fst r in
  all2 same_graph (run w regs qs) (map snd r) &&
  negb (r_err (final_state w (registry w regs) qs)).

(* ------------------------------------------------------------------ the property on FORD's graphs *)
Definition dcap (w : world) (d : nat) : nat := Nat.min d (S (length w)).

(* declarations of every entity, computed once per case *)
Definition decl_table (w : world) : list (nat * list decl) := map (fun ke => (fst ke, decls w (fst ke))) w.
Fixpoint tab_get (tab : list (nat * list decl)) (x : nat) : list decl :=
  match tab with
  | [] => []
  | (k, v) :: tab' => if Nat.eqb x k then v else tab_get tab' x
  end.

(* hop by hop while the neighbourhood fits into max_nodes *)
Fixpoint fit_hops (succs : nat -> list nat) (maxn : N) (k : nat) (cur : list nat) : list nat :=
  match k with
  | 0 => cur
  | S k' =>
    let nxt := nodup Nat.eq_dec (cur ++ flat_map succs cur) in
    if (maxn <? N.of_nat (length nxt))%N then cur
    else if Nat.eqb (length nxt) (length cur) then cur
    else fit_hops succs maxn k' nxt
  end.
Definition spec_nodes (succs : nat -> list nat) (roots : list nat) (depth : nat) (maxn : N) : list nat :=
  fit_hops succs maxn depth (nd roots).

(* nodes that exist once every registered entity has been registered: the closure of the
   registered entities under every declared relation *)
Definition early (w : world) (dl : nat -> list decl) (regs : list nat) : list nat :=
  fit_hops (fun x => map d_target (dl x)) (N.of_nat (S (length w) * S (length w))) (S (length w)) (nd regs).

Definition q_depth (w : world) (q : greq) : nat :=
  dcap w (shown_depth (class_nested (q_class q)) (max_depth (q_limits q))).

Definition expected_nodes (w : world) (dl : nat -> list decl) (univ : list nat) (q : greq) : list nat :=
  let c := q_class q in
  spec_nodes (if class_inverse c then declared_pred_f dl c univ else declared_succ_f dl c)
             (q_roots q) (q_depth w q) (max_nodes (q_limits q)).

(* every arrow t -> h is a declared relation "t uses / extends / contains / calls / implements / depends on h" *)
Definition arrow_declared (dl : nat -> list decl) (c : gclass) (t h : nat) (lab : str) : bool :=
  existsb (fun d => existsb (fun r => rel_eqb (fst r) (fst (fst d))) (rels_of_class c) &&
                    Nat.eqb (d_target d) h && str_eqb (snd d) lab) (dl t).
Definition edges_declared (dl : nat -> list decl) (c : gclass) (es : list edge) : bool :=
  forallb (fun e => arrow_declared dl c (e_tail e) (e_head e) (e_lab e)) es.
Definition edges_reversed (dl : nat -> list decl) (c : gclass) (es : list edge) : bool :=
  forallb (fun e => arrow_declared dl c (e_head e) (e_tail e) (e_lab e)) es.

(* CallGraph as the code counts: every callee of every root plus every root *)
Definition callgraph_quirk (dl : nat -> list decl) (q : greq) (i : igraph) : bool :=
  match q_class q with
  | GCall =>
    let nb := nd (flat_map (declared_succ_f dl GCall) (q_roots q)) in
    set_eqb (i_nodes i) (q_roots q) &&
    (max_nodes (q_limits q) <? N.of_nat (length nb + length (nd (q_roots q))))%N
  | _ => false
  end.

(* (unexplained violation, region mask) of one graph; [erl] = nodes existing after registration *)
Definition graph_spec (w : world) (dl : nat -> list decl) (erl nograph univ : list nat) (q : greq) (i : igraph)
  : bool * nat :=
  let c := q_class q in
  let dangling := negb (no_dangling_b (i_nodes i) (i_edges i)) in
  let dir :=      (* 0 fine, 1 explained (file graph drawn backwards), 2 wrong *)
    if edges_declared dl c (i_edges i) then 0
    else match c with GFile => if edges_reversed dl c (i_edges i) then 1 else 2 | _ => 2 end in
  let nodes :=    (* 0 fine, 1 lazy inverse, 2 call-graph counting, 3 wrong *)
    if set_eqb (i_nodes i) (expected_nodes w dl univ q) then 0
    else if (if class_inverse c then set_eqb (i_nodes i) (expected_nodes w dl erl q) else false) then 1
    else if callgraph_quirk dl q i then 2 else 3 in
  let hidden := filter (fun x => memn x nograph) (i_nodes i) in
  let hidden_roots := existsb (fun x => memn x nograph) (q_roots q) in
  let hid :=      (* 0 fine, 1 explained (neighbour of a root in a project-wide graph), 2 wrong *)
    match hidden with
    | [] => 0
    | _ => if class_nested c then 0
           else if forallb (fun x => existsb (fun r => memn x (declared_succ_f dl c r)) (q_roots q)) hidden
                then 1 else 2
    end in
  (dangling || Nat.eqb dir 2 || Nat.eqb nodes 3 || hidden_roots || Nat.eqb hid 2,
   (if Nat.eqb hid 1 then 1 else 0) + (if Nat.eqb nodes 1 then 2 else 0) +
   (if Nat.eqb dir 1 then 4 else 0) + (if Nat.eqb nodes 2 then 8 else 0)).

(* a "calls"-type graph of a and the matching "called by"-type graph of b agree on the arrow a -> b *)
Definition has_arrow (a b : nat) (es : list edge) : bool :=
  existsb (fun e => Nat.eqb (e_tail e) a && Nat.eqb (e_head e) b) es.
(* labels of the arrows a -> b (component names on composition arrows) *)
Definition arrow_labels (a b : nat) (es : list edge) : list str :=
  map e_lab (filter (fun e => Nat.eqb (e_tail e) a && Nat.eqb (e_head e) b) es).
Definition inverse_class (c : gclass) : option gclass :=
  match c with GUses => Some GUsedBy | GInherits => Some GInheritedBy | GCalls => Some GCalledBy
             | GEff => Some GAff | _ => None end.
Definition gclass_eqb (a b : gclass) : bool :=
  match a, b with
  | GModule, GModule | GUses, GUses | GUsedBy, GUsedBy | GFile, GFile | GEff, GEff | GAff, GAff
  | GType, GType | GInherits, GInherits | GInheritedBy, GInheritedBy | GCall, GCall | GCalls, GCalls
  | GCalledBy, GCalledBy => true
  | _, _ => false
  end.
Definition hop1_present (i : igraph) : bool := match i_hop i with [] => true | _ => false end.
Definition inverse_pairs_ok (r : run_t) : bool :=
  forallb (fun qi =>
    match inverse_class (q_class (fst qi)), q_roots (fst qi) with
    | Some ci, [a] =>
      forallb (fun qj =>
        match q_roots (fst qj) with
        | [b] =>
          if gclass_eqb (q_class (fst qj)) ci then
            if hop1_present (snd qi) && hop1_present (snd qj)
            then Bool.eqb (has_arrow a b (i_edges (snd qi))) (has_arrow a b (i_edges (snd qj))) &&
                 list_eqb str_eqb (arrow_labels a b (i_edges (snd qi))) (arrow_labels a b (i_edges (snd qj)))
            else true
          else true
        | _ => true
        end) r
    | _, _ => true
    end) r.

Definition run_spec (w : world) (dl : nat -> list decl) (erl nograph : list nat) (r : run_t) : bool * nat :=
  let univ := nd (flat_map (fun qi => i_nodes (snd qi)) r) in
  fold_left (fun acc qi =>
               let v := graph_spec w dl erl nograph univ (fst qi) (snd qi) in
               (fst acc || fst v, Nat.lor (snd acc) (snd v)))
            r (negb (inverse_pairs_ok r), 0).

Definition spec_of (ws : world) (sregs snograph : list nat) (runs : list run_t) : bool * nat :=
  let tab := decl_table ws in
  let dl := tab_get tab in
  let erl := early ws dl sregs in
  fold_left (fun acc r => let v := run_spec ws dl erl snograph r in
                          (fst acc || fst v, Nat.lor (snd acc) (snd v))) runs (false, 0).

Definition judge (c : case) : nat :=
  match c with
  | (w, regs, nograph, show, labels, runs, gen) =>
    let mm := negb (forallb (run_matches w regs) runs && labels_match w show labels) in
    let sp :=
      match gen with
      | None => spec_of w regs nograph runs
      | Some (ws, adj, sregs, snograph) =>
        let v0 := spec_of ws sregs snograph runs in
        if fst v0 then
          match adj with
          | None => v0
          | Some (wa, mask) =>
            let v1 := spec_of wa sregs snograph runs in
            if fst v1 then v1 else (false, Nat.lor (snd v1) mask)
          end
        else v0
      end in
    verdict mm (fst sp) (snd sp)
  end.

(* per-graph detail for replays: (run, graph index, model-mismatch, unexplained, regions) *)
Definition detail (c : case) : list (nat * nat * bool * bool * nat) :=
  match c with
  | (w, regs, nograph, show, labels, runs, gen) =>
    let '(ws, sregs, snograph) :=
      match gen with Some (ws, _, sregs, snograph) => (ws, sregs, snograph) | None => (w, regs, nograph) end in
    let tab := decl_table ws in
    let dl := tab_get tab in
    let erl := early ws dl sregs in
    flat_map (fun kr =>
      let r := snd kr in
      let univ := nd (flat_map (fun qi => i_nodes (snd qi)) r) in
      let gs := run w regs (map fst r) in
      flat_map (fun x =>
        let '(j, (qi, g)) := x in
        let v := graph_spec ws dl erl snograph univ (fst qi) (snd qi) in
        let mm := negb (same_graph g (snd qi)) in
        if mm || fst v || negb (Nat.eqb (snd v) 0) then [(fst kr, j, mm, fst v, snd v)] else [])
        (combine (seq 0 (length r)) (combine r gs)))
      (combine (seq 0 (length runs)) runs)
  end.

(* diagnostics for replays: entities whose declared relation (Spec side) differs from the one FORD derived,
   as (entity, relations only FORD has, relations only the source has) *)
Definition decl_eqb (a b : decl) : bool :=
  rel_eqb (fst (fst a)) (fst (fst b)) && Nat.eqb (d_target a) (d_target b) && str_eqb (snd a) (snd b).
Definition decl_diff (a b : list decl) : list decl := filter (fun d => negb (existsb (decl_eqb d) b)) a.
Definition relation_diff (c : case) : list (nat * list decl * list decl) :=
  match c with
  | (w, _, _, _, _, _, Some (ws, _, _, _)) =>
    flat_map (fun ke =>
      let x := fst ke in
      let a := decl_diff (decls w x) (decls ws x) in
      let b := decl_diff (decls ws x) (decls w x) in
      match a, b with [], [] => [] | _, _ => [(x, a, b)] end) ws
  | _ => []
  end.
