(* Corr/C01types.v -- judges for the declaration layer of C01.
   bit 0: model <> implementation; bit 1: the implementation's report differs from the Spec;
   bits >= 2: region of a recorded finding.  1000 = outside the model, 2000 = malformed case. *)
From Coq Require Import ZArith.
From Ford Require Import Base.Str Base.StrX Sem.TypeSpec Sem.DeclSpec.

Definition unmodelled_code : nat := 1000.
Definition malformed_code : nat := 2000.

Definition ostr_eqb := opt_eqb seqb.
Definition proto_eqb := opt_eqb (pair_eqb seqb seqb).

Definition var_eqb (a b : var) : bool :=
  seqb (v_name a) (v_name b) && seqb (v_vartype a) (v_vartype b) && ostr_eqb (v_kind a) (v_kind b)
  && ostr_eqb (v_strlen a) (v_strlen b) && proto_eqb (v_proto a) (v_proto b)
  && list_eqb seqb (v_attribs a) (v_attribs b) && seqb (v_intent a) (v_intent b)
  && Bool.eqb (v_optional a) (v_optional b) && seqb (v_permission a) (v_permission b)
  && Bool.eqb (v_parameter a) (v_parameter b) && Bool.eqb (v_points a) (v_points b)
  && ostr_eqb (v_initial a) (v_initial b) && seqb (v_dimension a) (v_dimension b).

(* ---- parse_type called directly on a (masked) string *)
Inductive ipt : Type :=
| IPOk (vartype rest : str) (kind strlen : option str) (proto : option (str * str))
| IPErr (ety : str).

Definition judge_ptype (c : str * ipt) : nat :=
  match parse_type (fst c), snd c with
  | Unmodelled _, _ => unmodelled_code
  | Ok p, IPOk vt rest k l pr =>
    verdict (negb (seqb (pt_vartype p) vt && seqb (pt_rest p) rest && ostr_eqb (pt_kind p) k
                   && ostr_eqb (pt_strlen p) l && proto_eqb (pt_proto p) pr)) false 0
  | Err e, IPErr e' => verdict (negb (seqb e e')) false 0
  | _, _ => verdict true false 0
  end.

(* ---- one declaration statement (raw text), observed as the variables of a module *)
Inductive ivars : Type := IVOk (l : list var) | IVErr (ety : str).

Definition vars_match (m : res (list var)) (i : ivars) : bool :=
  match m, i with
  | Ok l, IVOk l' => list_eqb var_eqb l l'
  | Err e, IVErr e' => seqb e e'
  | _, _ => false
  end.
Definition is_unmodelled {A} (r : res A) : bool := match r with Unmodelled _ => true | _ => false end.

Definition judge_decl (c : str * ivars) : nat :=
  let m := declaration (fst c) (s "public") in
  if is_unmodelled m then unmodelled_code else verdict (negb (vars_match m (snd c))) false 0.

(* ---- an abstract declaration in a chosen spelling *)
Record scase := mksc { sc_decl : adecl; sc_sp : dspell; sc_text : str; sc_out : ivars }.

(* an array spec written on the entity: "(" ... ")" closed by its last character, parentheses and
   brackets nested properly inside, no white space, no quote; an "=" may stand inside (keyword
   arguments `size(a,dim=1)`, relational operators `n<=4`): it is never at depth 0 *)
Fixpoint inside_parens (l b : nat) (x : str) : bool :=
  match x with
  | [] => false
  | c :: r =>
    if Ascii.eqb c c_lpar then inside_parens (S l) b r
    else if Ascii.eqb c c_rpar then
      match l, r with
      | 0, [] => b =? 0
      | S l', _ :: _ => inside_parens l' b r
      | _, _ => false
      end
    else if Ascii.eqb c c_lbr then inside_parens l (S b) r
    else if Ascii.eqb c c_rbr then match b with S b' => inside_parens l b' r | O => false end
    else inside_parens l b r
  end.
Definition dim_ok (d : str) : bool :=
  match d with
  | c :: r => Ascii.eqb c c_lpar && inside_parens 0 0 r && negb (existsb is_space d) && negb (existsb is_quote d)
  | [] => false
  end.
Definition entity_ok (e : aentity) : bool :=
  ident_ok (e_name e) && match e_dim e with Some d => dim_ok d | None => true end.
Definition decl_ok (sp : dspell) (d : adecl) : bool :=
  type_ok (ds_type sp) (d_type d) && forallb entity_ok (d_entities d)
  && match d_entities d with [] => false | _ => true end.

Definition judge_spec (c : scase) : nat :=
  let d := sc_decl c in let sp := sc_sp c in
  if negb (decl_ok sp d) || negb (seqb (render_decl sp d) (sc_text c)) then malformed_code
  else
    let m := declaration (sc_text c) (s "public") in
    if is_unmodelled m then unmodelled_code
    else
      let ok := match sc_out c with IVOk l => list_eqb var_eqb l (spec_vars d (s "public")) | IVErr _ => false end in
      verdict (negb (vars_match m (sc_out c))) (negb ok) (if ok then 0 else decl_region sp d).

(* ---- a small program unit: header groups, body lines, what FORD built *)
Inductive iunit : Type :=
| IUOk (attribs : list str) (args : list var) (retvar : option var) (vars : list var)
| IUErr (ety : str).

Definition unit_match (m : res unit_out) (i : iunit) : bool :=
  match m, i with
  | Ok u, IUOk a args r vars =>
    list_eqb seqb (u_attribs u) a && list_eqb var_eqb (u_args u) args
    && opt_eqb var_eqb (u_retvar u) r && list_eqb var_eqb (u_vars u) vars
  | Err e, IUErr e' => seqb e e'
  | _, _ => false
  end.

Definition judge_unit (c : header * list str * iunit) : nat :=
  let '(h, body, out) := c in
  let m := unit_model h body in
  if is_unmodelled m then unmodelled_code else verdict (negb (unit_match m out)) false 0.

(* ---- an abstract unit in a chosen spelling *)
Record ucase := mkuc {
  uc_unit : aunit; uc_sp : uspell;
  uc_header : str; uc_body : list str; uc_end : str;     (* the text the harness wrote *)
  uc_groups : header;                                      (* groups of FUNCTION_RE / SUBROUTINE_RE on the header *)
  uc_out : iunit
}.

Definition unit_ok (sp : uspell) (u : aunit) : bool :=
  ident_ok (au_name u) && forallb ident_ok (au_args u)
  && match au_result u with Some r => ident_ok r | None => true end
  && match au_rettype u with Some t => type_ok (us_rettype sp) t | None => true end
  && (fix go (ds : list adecl) (i : nat) : bool :=
        match ds with
        | [] => true
        | d :: ds' => decl_ok (nth_or_last (us_decls sp) i plain_dspell) d && go ds' (S i)
        end) (au_decls u) 0.

(* the region a disagreement between FORD's report and the Spec lies in: every variable that is
   reported differently is attributed to the declaration that declares it (the result variable of a
   typed prefix and the procedure attributes to the prefix).  [Uncovered] as soon as one of them lies
   in no region; when the reports do not have the same shape (a garbled name, a missing variable)
   no attribution is possible and the first region of the unit is taken. *)
Inductive attribution := Shape | Uncovered | Covered (r : nat).   (* Covered 0: no difference *)

Definition combine_attr (a b : attribution) : attribution :=
  match a, b with
  | Shape, _ | _, Shape => Shape
  | Uncovered, _ | _, Uncovered => Uncovered
  | Covered 0, x => x
  | x, _ => x
  end.

Definition attr_of_region (r : nat) : attribution := match r with 0 => Uncovered | _ => Covered r end.

Fixpoint vars_attr (f : str -> nat) (exp got : list var) : attribution :=
  match exp, got with
  | [], [] => Covered 0
  | e :: exp', g :: got' =>
    combine_attr (if var_eqb e g then Covered 0
                  else if negb (seqb (v_name e) (v_name g)) then Shape
                  else attr_of_region (f (v_name e)))
                 (vars_attr f exp' got')
  | _, _ => Shape
  end.

Definition unit_violation_region (sp : uspell) (u : aunit) (out : iunit) : nat :=
  match out with
  | IUErr _ => unit_region sp u
  | IUOk a args r vars =>
    let e := spec_unit u in
    let f := region_of_name sp u (au_decls u) 0 in
    let pre := 0 in
    let ra := if list_eqb seqb (u_attribs e) a then Covered 0 else attr_of_region pre in
    let rr := match u_retvar e, r with
              | None, None => Covered 0
              | Some x, Some y =>
                if var_eqb x y then Covered 0
                else match au_rettype u with
                     | Some _ => attr_of_region pre
                     | None => if seqb (v_name x) (v_name y) then attr_of_region (f (v_name x)) else Shape
                     end
              | _, _ => Shape
              end in
    match combine_attr ra (combine_attr rr (combine_attr (vars_attr f (u_args e) args) (vars_attr f (u_vars e) vars))) with
    | Shape => unit_region sp u
    | Uncovered => 0
    | Covered r => r
    end
  end.

Definition judge_uspec (c : ucase) : nat :=
  let u := uc_unit c in let sp := uc_sp c in
  let '(hd, body, en) := render_unit sp u in
  let g := uc_groups c in
  if negb (unit_ok sp u) || negb (seqb hd (uc_header c)) || negb (list_eqb seqb body (uc_body c))
     || negb (seqb en (uc_end c)) || negb (seqb (h_name g) (au_name u))
     || negb (list_eqb seqb (split_args (h_arguments g)) (au_args u))
     || negb (ostr_eqb (h_result g) (au_result u))
  then malformed_code
  else
    let m := unit_model g (uc_body c) in
    if is_unmodelled m then unmodelled_code
    else
      let ok := unit_match (Ok (spec_unit u)) (uc_out c) in
      verdict (negb (unit_match m (uc_out c))) (negb ok) (if ok then 0 else unit_violation_region sp u (uc_out c)).
