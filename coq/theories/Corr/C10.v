(* Corr/C10.v — judge for the C10 correspondence: NameSelector request sequences *)
From Ford Require Import Base.Str Out.Names.

Definition mk (id : nat) (d n : str) : req := {| r_id := id; r_dir := d; r_name := n |}.

(* the property, evaluated on the implementation's outputs: same entity -> same identifier,
   different entities in the same directory -> different identifiers *)
Fixpoint ok_against (r : req) (n : str) (rs : list req) (ns : list str) : bool :=
  match rs, ns with
  | r' :: rs', n' :: ns' =>
    (if Nat.eqb (r_id r) (r_id r') then str_eqb n n'
     else if str_eqb (r_dir r) (r_dir r') then negb (str_eqb n n') else true)
    && ok_against r n rs' ns'
  | _, _ => true
  end.
Fixpoint spec_ok (rs : list req) (ns : list str) : bool :=
  match rs, ns with
  | r :: rs', n :: ns' => ok_against r n rs' ns' && spec_ok rs' ns'
  | _, _ => true
  end.

Definition judge (c : list req * list str) : nat :=
  verdict (negb (list_eqb str_eqb (run_idents (fst c)) (snd c)))
          (negb (spec_ok (fst c) (snd c)) || negb (Nat.eqb (length (fst c)) (length (snd c))))
          0.
