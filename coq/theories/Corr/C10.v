(* Corr/C10.v — judge for the C10 correspondence: NameSelector request sequences *)
From Ford Require Import Base.Str Out.Names.

Definition mk (id : nat) (d n : str) : req := {| r_id := id; r_dir := d; r_name := n |}.

(* the property, evaluated on the implementation's outputs: same entity -> same identifier,
   different entities in the same directory -> different identifiers *)
(* a request together with the entity's kind word (item.obj): page-owning entities clash when
   they share directory and identifier (same output file); entities without a page clash when
   they share kind and identifier (same anchor "<obj>-<ident>") *)
Definition clash_key (ro : req * str) : str * str :=
  if str_eqb (r_dir (fst ro)) (s "None") then (s "#anchor", snd ro) else (s "#page", r_dir (fst ro)).
Fixpoint ok_against (r : req * str) (n : str) (rs : list (req * str)) (ns : list str) : bool :=
  match rs, ns with
  | r' :: rs', n' :: ns' =>
    (if Nat.eqb (r_id (fst r)) (r_id (fst r')) then str_eqb n n'
     else if key_eqb (clash_key r) (clash_key r') then negb (str_eqb n n') else true)
    && ok_against r n rs' ns'
  | _, _ => true
  end.
Fixpoint spec_ok (rs : list (req * str)) (ns : list str) : bool :=
  match rs, ns with
  | r :: rs', n :: ns' => ok_against r n rs' ns' && spec_ok rs' ns'
  | _, _ => true
  end.

Definition mko (id : nat) (d n o : str) : req * str := (mk id d n, o).

Definition judge (c : list (req * str) * list str) : nat :=
  verdict (negb (list_eqb str_eqb (run_idents (map fst (fst c))) (snd c)))
          (negb (spec_ok (fst c) (snd c)) || negb (Nat.eqb (length (fst c)) (length (snd c))))
          0.
