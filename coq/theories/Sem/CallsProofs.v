(* Sem/CallsProofs.v — the theorems of property C08 about single statements: strip levels of rendered
   statements, the keyword table, raw calls of every statement form, format/goto, once-only. *)
From Coq Require Import ZArith Lia.
From Ford Require Import Base.Str Base.StrFacts Gen.Intrinsics Sem.Calls Sem.CallsSpec Sem.CallsDefs Sem.CallsStrip Sem.CallsScan Sem.CallsStmt.

(* ------------------------------------------------------------------ keywords *)
Lemma keywords_in_intrinsics : forall k, In k grammar_keywords -> str_in k INTRINSICS = true.
Proof.
  assert (H : forallb (fun k => str_in k INTRINSICS) grammar_keywords = true) by (vm_compute; reflexivity).
  intros k Hk. rewrite forallb_forall in H. exact (H k Hk).
Qed.

Definition seg_kw (g : seg) : list str := match g with GKw kw _ _ => [kw] | _ => [] end.

Lemma iokw_in k : In (iokw_text k) grammar_keywords.
Proof. destruct k; cbn; tauto. Qed.
Lemma allockw_in k : In (allockw_text k) grammar_keywords.
Proof. destruct k; cbn; tauto. Qed.

(* completeness: every keyword a form, an IF...CALL or an ASSOCIATE writes in front of "(" is in the table *)
Lemma form_keywords sp f kw : In kw (flat_map seg_kw (segs_of sp f)) -> In kw grammar_keywords.
Proof.
  destruct f; cbn [segs_of flat_map seg_kw app In]; intros H;
    repeat match goal with H : _ \/ _ |- _ => destruct H as [H|H] end; try contradiction; subst;
    try apply iokw_in; try apply allockw_in; try (cbn; tauto).
  destruct w2; cbn in H; contradiction.
Qed.

Theorem keywords_filtered :
  (forall k, In k grammar_keywords -> str_in k INTRINSICS = true) /\
  (forall sp f kw, In kw (flat_map seg_kw (segs_of sp f)) -> str_in kw INTRINSICS = true) /\
  str_in (s "if") INTRINSICS = true /\ str_in (s "associate") INTRINSICS = true.
Proof.
  split; [exact keywords_in_intrinsics|]. split.
  - intros sp f kw H. apply keywords_in_intrinsics. exact (form_keywords sp f kw H).
  - split; vm_compute; reflexivity.
Qed.

(* ------------------------------------------------------------------ strip levels of statements *)
(* the parenthesised expressions d levels below those of es *)
Fixpoint nth_level (d : nat) (es : list expr) : list expr :=
  match d with 0 => es | S d' => nth_level d' (flat_map subs_e es) end.

Lemma deepG_exprs d : forall es, deepG d (map tree_e es) = map (fun e => wrap (sh_e e)) (nth_level d es).
Proof.
  induction d as [|d IH]; intros es.
  - cbn [deepG nth_level]. rewrite map_map. apply map_ext. intros e. now rewrite (proj1 tree_shallow).
  - rewrite deepG_S, groups_exprs. cbn [nth_level]. apply IH.
Qed.

(* level 0 of a statement is its text with every argument list and parenthesised operand emptied;
   level d+1 consists of exactly one slice "(...)" per parenthesised expression at that depth, each
   reference in it reduced to  name()  *)
Theorem strip_levels_segs gs : wf_segs gs = true -> gs <> [] ->
  strip_paren (render_segs gs) 0 = [sh_segs gs] /\
  forall d, strip_paren (render_segs gs) (S d) = map (fun e => wrap (sh_e e)) (nth_level d (flat_map subs_seg gs)).
Proof.
  intros Hwf Hne. pose proof (wf_segs_all gs Hwf) as Hall. pose proof (ok_tree_segs gs Hall) as Hok.
  rewrite <- (tree_segs_flat gs). split.
  - rewrite (strip_levels _ 0 Hok). cbn [level_slices]. rewrite tree_segs_shallow.
    destruct gs as [|g gs]; [contradiction|].
    assert (Hg : wf_seg g = true) by (cbn [forallb] in Hall; now apply andb_true_iff in Hall as [Hg _]).
    destruct (sh_segs (g :: gs)) eqn:E; [exfalso; exact (sh_segs_nonempty g gs Hg E)|reflexivity].
  - intros d. rewrite (strip_levels _ (S d) Hok). cbn [level_slices].
    rewrite deep_deepG, tree_segs_groups. apply deepG_exprs.
Qed.

(* ------------------------------------------------------------------ raw calls of statements *)
(* membership form of the level lists *)
Lemma in_level_heads es n ch : In ch (level_heads es n) <-> exists d, d < n /\ In ch (deep_heads d es).
Proof.
  unfold level_heads. rewrite in_flat_map. split.
  - intros (d & Hd & Hin). apply in_seq in Hd. exists d. split; [lia|exact Hin].
  - intros (d & Hd & Hin). exists d. split; [apply in_seq; lia|exact Hin].
Qed.

Lemma wf_stmt_segs st : seg_stmt st = true -> wf_stmt st = true -> wf_segs (stmt_segs st) = true /\ stmt_segs st <> [].
Proof.
  destruct st as [lab sp f|lab d|lab sp c d|sp pairs| | |]; try discriminate; intros _ H; cbn [wf_stmt] in H.
  - apply andb_true_iff in H as [_ H]. split; [exact H|].
    cbn [stmt_segs]. destruct lab; [discriminate|]. cbn [lab_segs app]. destruct f; cbn; try discriminate. destruct w2; discriminate.
  - apply andb_true_iff in H as [_ H]. split; [exact H|]. cbn [stmt_segs]. destruct lab; discriminate.
  - apply andb_true_iff in H as [_ H]. split; [exact H|]. cbn [stmt_segs]. destruct lab; discriminate.
  - apply andb_true_iff in H as [H _]. apply andb_true_iff in H as [_ H]. split; [exact H|discriminate].
Qed.

Lemma sh_segs_label l gs : gs <> [] -> sh_segs (GWord l :: gs) = l ++ space :: sh_segs gs.
Proof. destruct gs; [contradiction|]. intros _. reflexivity. Qed.

Lemma wf_d_of_segs lab gs0 d : wf_segs (lab_segs lab ++ gs0 ++ [GExpr (EDes d)]) = true -> wf_d d = true.
Proof.
  intros H. apply wf_segs_all in H. rewrite !forallb_app in H. apply andb_true_iff in H as [_ H].
  apply andb_true_iff in H as [_ H]. cbn [forallb wf_seg wf_e] in H. apply andb_true_iff in H as [H _].
  now apply andb_true_iff in H as [H _].
Qed.

(* the level-0 text of a labelled statement, as SUBCALL_RE sees it behind the label *)
Lemma sh_segs_lab_strip lab gs : wf_lab lab = true -> gs <> [] -> hd_not is_space (sh_segs gs) ->
  strip_label (sh_segs (lab_segs lab ++ gs)) = strip_label (sh_segs gs) \/ strip_label (sh_segs (lab_segs lab ++ gs)) = sh_segs gs.
Proof.
  intros Hl Hg Hs. destruct lab as [l|]; [right|now left]. cbn [lab_segs app].
  rewrite (sh_segs_label l gs Hg). now apply strip_label_lab.
Qed.

Lemma subcall_lab lab gs : wf_lab lab = true -> gs <> [] -> hd_not is_space (sh_segs gs) ->
  strip_label (sh_segs gs) = sh_segs gs ->
  subcall_match (sh_segs (lab_segs lab ++ gs)) = subcall_match (sh_segs gs).
Proof.
  intros Hl Hg Hs He. unfold subcall_match.
  destruct (sh_segs_lab_strip lab gs Hl Hg Hs) as [E|E]; rewrite E; [reflexivity|now rewrite He].
Qed.

(* C08_raw: for every statement written as segments, the chains _add_procedure_calls collects are
   exactly the identifiers in front of "(" at every nesting level — keywords included — and,
   for CALL and IF ... CALL (labelled or not), the target of the CALL first *)
Theorem raw_stmt st : seg_stmt st = true -> wf_stmt st = true -> plain_ok st = true ->
  map norm_chain (chain_texts (render_stmt st)) = stmt_chains st.
Proof.
  intros Hseg Hwf Hplain. destruct (wf_stmt_segs st Hseg Hwf) as [Hsegs Hne].
  destruct st as [lab sp f|lab d|lab sp c d|sp pairs| | |]; try discriminate.
  - change (render_stmt (SForm lab sp f)) with (render_segs (stmt_segs (SForm lab sp f))).
    unfold stmt_chains. apply raw_segs; [exact Hsegs|exact Hne|]. now apply subcall_plain.
  - change (render_stmt (SCall lab d)) with (render_segs (stmt_segs (SCall lab d))).
    unfold stmt_chains.
    assert (Hd : wf_d d = true) by (apply (wf_d_of_segs lab [GWord (s "call")] d); exact Hsegs).
    change (render_stmt (SCall lab d)) with (render_segs (stmt_segs (SCall lab d))).
    apply raw_subcall; [now apply wf_segs_all|exact Hne|exact Hd|].
    cbn [stmt_segs]. cbn [wf_stmt] in Hwf. apply andb_true_iff in Hwf as [Hl _].
    rewrite (subcall_lab lab [GWord (s "call"); GExpr (EDes d)] Hl); try discriminate; try reflexivity.
    change (sh_segs [GWord (s "call"); GExpr (EDes d)]) with (s "call" ++ space :: sh_d d).
    now apply subcall_call.
  - change (render_stmt (SIfCall lab sp c d)) with (render_segs (stmt_segs (SIfCall lab sp c d))).
    unfold stmt_chains.
    assert (Hd : wf_d d = true) by (apply (wf_d_of_segs lab [GKw (s "if") sp c; GWord (s "call")] d); exact Hsegs).
    change (render_stmt (SIfCall lab sp c d)) with (render_segs (stmt_segs (SIfCall lab sp c d))).
    apply raw_subcall; [now apply wf_segs_all|exact Hne|exact Hd|].
    cbn [stmt_segs]. cbn [wf_stmt] in Hwf. apply andb_true_iff in Hwf as [Hl _].
    rewrite (subcall_lab lab [GKw (s "if") sp c; GWord (s "call"); GExpr (EDes d)] Hl); try discriminate; try reflexivity.
    change (sh_segs [GKw (s "if") sp c; GWord (s "call"); GExpr (EDes d)])
      with ((s "if" ++ kw_sp sp ++ par2) ++ space :: s "call" ++ space :: sh_d d).
    rewrite <- !app_assoc. now apply subcall_ifcall.
  - change (render_stmt (SAssoc sp pairs)) with (render_segs (stmt_segs (SAssoc sp pairs))).
    unfold stmt_chains. apply raw_segs; [exact Hsegs|exact Hne|]. now apply subcall_plain.
Qed.

(* a computed GO TO is scanned without its label list: the chains of what is left *)
Theorem raw_goto e : wf_segs (goto_segs e) = true ->
  map norm_chain (chain_texts (render_segs (goto_segs e))) =
  flat_map seg_heads0 (goto_segs e) ++ level_heads (flat_map subs_seg (goto_segs e)) (length (render_segs (goto_segs e))).
Proof.
  intros Hwf. apply raw_segs; [exact Hwf|discriminate|]. reflexivity.
Qed.
