(* Sem/CallsProofs.v — proofs about the call-recording model (property C08) *)
From Coq Require Import ZArith Lia.
From Ford Require Import Base.Str Base.StrFacts Gen.Intrinsics Sem.Calls Sem.CallsSpec.

Lemma keywords_filtered : forall k, In k grammar_keywords -> str_in k INTRINSICS = true.
Proof.
  assert (H : forallb (fun k => str_in k INTRINSICS) grammar_keywords = true) by (vm_compute; reflexivity).
  intros k Hk. rewrite forallb_forall in H. exact (H k Hk).
Qed.
