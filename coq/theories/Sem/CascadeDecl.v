(* Sem/CascadeDecl.v -- declarations in the statement-classification layer: a declaration line
   reaches line_to_variables (VARIABLE_RE) and yields the declared names.  Uses the theorems of the
   declaration layer (Sem/TypeSpecProofs.v: every spelling of a type spec is parsed as the type). *)
From Coq Require Import ZArith NArith Lia.
From Ford Require Import Base.Str Base.StrFacts Base.StrX Base.StrXFacts Sem.Tree Sem.TypeSpec Sem.DeclSpec
     Sem.TypeSpecProofs Sem.CascadeTypes Gen.Cascade Sem.Cascade Sem.CascadeSpec Sem.CascadeFacts.
Local Open Scope nat_scope.

(* ------------------------------------------------------------------ text without parentheses *)
Lemma paren_split_plain sep x : forall cur, forallb noparen x = true ->
  paren_split_go sep x 0%Z 0%Z cur = split_on_go sep x cur.
Proof.
  induction x as [|c x IH]; intros cur H; [reflexivity|].
  cbn [forallb] in H. apply andb_true_iff in H as [Hc Hx]. unfold noparen in Hc.
  repeat (apply andb_true_iff in Hc as [Hc ?]).
  repeat match goal with H : negb _ = true |- _ => apply negb_true_iff in H end.
  cbn [paren_split_go split_on_go]. rewrite Hc, H, H0, H1. cbn [andb Z.eqb]. rewrite !andb_true_r.
  destruct (Ascii.eqb c sep); now rewrite IH.
Qed.

Lemma remove_blanks_blanks n x : remove_blanks (blanks n ++ x) = remove_blanks x.
Proof. induction n as [|n IH]; [reflexivity|]. exact IH. Qed.
Lemma remove_blanks_words x : forallb is_word x = true -> remove_blanks x = x.
Proof.
  induction x as [|c x IH]; intros W; [reflexivity|]. cbn in W. apply andb_true_iff in W as [Wc Wx].
  specialize (IH Wx). unfold remove_blanks in *. cbn [filter].
  assert (E : is_blank c = false).
  { unfold is_blank. destruct (Ascii.eqb c " ") eqn:E; [|reflexivity]. apply Ascii.eqb_eq in E. subst c. discriminate. }
  rewrite E. cbn [negb]. now rewrite IH.
Qed.

Lemma find_ch_words d x : is_word d = false -> forallb is_word x = true -> find_ch d x = None.
Proof.
  intros D. induction x as [|c x IH]; intros W; [reflexivity|]. cbn in W. apply andb_true_iff in W as [Wc Wx].
  cbn [find_ch]. replace (Ascii.eqb d c) with false; [now rewrite (IH Wx)|].
  symmetry. destruct (Ascii.eqb d c) eqn:E; [|reflexivity]. apply Ascii.eqb_eq in E. subst c. congruence.
Qed.
Lemma split_name_words x : forallb is_word x = true -> split_name x = (x, []).
Proof.
  intros W. unfold split_name. now rewrite !(find_ch_words _ x) by (reflexivity || exact W).
Qed.

(* one entity of a declaration list that is just a name *)
Lemma entity_ident pt acc k n : ident_ok n = true ->
  entity pt acc [] (blanks k ++ n)
  = Ok (mkvar n (pt_vartype pt) (pt_kind pt) (pt_strlen pt) (pt_proto pt) (a_attribs acc) (a_intent acc)
              (a_optional acc) (a_permission acc) (a_parameter acc) false None []).
Proof.
  intros I. pose proof (ident_words n I) as W. unfold entity.
  rewrite remove_blanks_blanks, (remove_blanks_words n W).
  unfold paren_split. rewrite (paren_split_plain c_eq n [] (words_noparen n W)).
  change (split_on_go c_eq n []) with (split_on c_eq n).
  rewrite (split_on_none c_eq n) by (now apply no_char_words).
  cbn [bind]. rewrite (strip_words n W), (split_name_words n W). reflexivity.
Qed.

(* ------------------------------------------------------------------ the declared names *)
Lemma denote_comma_ids b names : denote (comma_ids b names) = joined b names.
Proof.
  induction names as [|x l IH]; [reflexivity|]. destruct l as [|y l'].
  - cbn [comma_ids map sep_by denote fold_right piece_text joined]. apply app_nil_r.
  - rewrite comma_ids_cons by discriminate. rewrite !denote_cons, IH. cbn [piece_text].
    change (joined b (x :: y :: l')) with (x ++ c_comma :: blanks b ++ joined b (y :: l')). norm_app. reflexivity.
Qed.

Lemma ids_noparen b names : Forall (fun x => ident_ok x = true) names ->
  forallb noparen (denote (comma_ids b names)) = true.
Proof.
  intros H. apply forallb_forall. intros c Hc. unfold noparen.
  assert (G : forall d, is_word d = false -> Ascii.eqb d c_comma = false -> Ascii.eqb d c_sp = false ->
                        Ascii.eqb c d = false).
  { intros d D1 D2 D3. destruct (Ascii.eqb c d) eqn:E; [|reflexivity]. apply Ascii.eqb_eq in E. subst c. exfalso.
    pose proof (ids_no_char d b names D1 D2 D3 H) as N. unfold has_ch in N.
    assert (T : existsb (Ascii.eqb d) (denote (comma_ids b names)) = true)
      by (apply existsb_exists; exists d; split; [exact Hc|apply Ascii.eqb_refl]). congruence. }
  now rewrite !G by reflexivity.
Qed.

Definition var_of (pt : ptype) (perm n : str) : var :=
  mkvar n (pt_vartype pt) (pt_kind pt) (pt_strlen pt) (pt_proto pt) [] [] false perm false false None [].

Lemma mapM_entities pt perm b l : Forall (fun x => ident_ok x = true) l ->
  mapM (entity pt (mkacc [] [] false perm false) []) (map (fun y => blanks b ++ y) l) = Ok (map (var_of pt perm) l).
Proof.
  induction 1 as [|x l Hx Hl IH]; [reflexivity|]. cbn [map mapM]. rewrite (entity_ident pt _ b x Hx). cbn [bind].
  rewrite IH. reflexivity.
Qed.

Lemma ltv_names line pt perm b names (dc : bool) :
  parse_type line = Ok pt -> names <> [] -> Forall (fun x => ident_ok x = true) names ->
  pt_rest pt = (if dc then c_colon :: c_colon :: blanks b ++ denote (comma_ids b names)
                else denote (comma_ids b names)) ->
  line_to_variables line [] perm = Ok (map (var_of pt perm) names).
Proof.
  intros Hp N H Er. unfold line_to_variables. rewrite Hp. cbn [bind].
  pose proof (comma_ids_starts b names [] N H) as Sn. rewrite app_nil_r in Sn.
  assert (Ea : attribsplit (pt_rest pt) = None).
  { rewrite Er. destruct dc; [reflexivity|]. destruct Sn as (c0 & r0 & -> & W0). cbn [attribsplit].
    destruct (Ascii.eqb c0 c_comma) eqn:E; [|reflexivity]. apply Ascii.eqb_eq in E. subst c0. discriminate. }
  rewrite Ea.
  assert (E2 : attribsplit2 (pt_rest pt) = denote (comma_ids b names)).
  { rewrite Er. unfold attribsplit2. destruct dc.
    - cbn [skip_ws]. replace (is_space c_colon) with false by reflexivity. rewrite prefix_dcolon. cbn [skipn].
      now rewrite skip_ws_bl, (skip_ws_alnum _ Sn).
    - now rewrite (skip_ws_alnum _ Sn), (prefix_dcolon_alnum _ Sn). }
  rewrite E2. unfold paren_split. rewrite (paren_split_plain c_comma _ [] (ids_noparen b names H)).
  change (split_on_go c_comma (denote (comma_ids b names)) []) with (split_on c_comma (denote (comma_ids b names))).
  rewrite denote_comma_ids.
  assert (Hc : Forall (fun x => existsb (Ascii.eqb c_comma) x = false) names).
  { eapply Forall_impl; [|exact H]. intros x Ix. apply no_char_words; [reflexivity|now apply ident_words]. }
  pose proof (split_on_joined b names N Hc 0) as Es. cbn [blanks repeat app] in Es. rewrite Es.
  destruct names as [|x l]; [congruence|]. inversion H as [|? ? Hx Hl]; subst.
  cbn [mapM map]. pose proof (entity_ident pt (mkacc [] [] false perm false) 0 x Hx) as Ee. cbn [blanks repeat app] in Ee.
  rewrite Ee. cbn [bind]. rewrite (mapM_entities pt perm b l Hl). reflexivity.
Qed.

(* ------------------------------------------------------------------ ENUMERATOR *)
Lemma parse_type_enumerator m b1 y : stripped (c_colon :: c_colon :: y) = true ->
  parse_type (recase m (s "enumerator") ++ blanks b1 ++ c_colon :: c_colon :: y)
  = Ok (mkpt (s "enumerator") (c_colon :: c_colon :: y) None None None).
Proof.
  intros St. unfold parse_type, match_vartype.
  assert (E : match_alts type_words (recase m (s "enumerator") ++ blanks b1 ++ c_colon :: c_colon :: y)
              = Some (blanks b1 ++ c_colon :: c_colon :: y)).
  { unfold type_words. cbn [match_alts]. unfold match_two.
    repeat match goal with
           | |- context [match_ci ?w (recase m (s "enumerator") ++ ?z)] =>
             lazymatch w with
             | s "enumerator" => fail
             | _ => rewrite (match_ci_none w (recase m (s "enumerator") ++ z))
                 by (rewrite lower_app, (lower_kw m (s "enumerator") eq_refl); reflexivity)
             end
           end.
    now rewrite (match_ci_kw m (s "enumerator") _ eq_refl). }
  rewrite E. rewrite firstn_app_len, (lower_kw m (s "enumerator") eq_refl).
  replace (normalise_double (s "enumerator")) with (s "enumerator") by reflexivity.
  unfold after_type. rewrite strip_bl, (stripped_strip _ St).
  replace (star_space (c_colon :: c_colon :: y)) with (c_colon :: c_colon :: y) by reflexivity.
  replace (get_parens (c_colon :: c_colon :: y)) with (Some (@nil ascii)) by reflexivity.
  cbn [length skipn]. rewrite (stripped_strip _ St). reflexivity.
Qed.

(* ------------------------------------------------------------------ a type spec as pieces *)
Definition keyeq_pieces (sp : tspell) (key value : str) : list piece :=
  [PKw (t_kcase sp) key; PBl (t_b3 sp); PCh c_eq; PBl (t_b3 sp); PTx value].
Definition paren_pieces (sp : tspell) (inner : list piece) : list piece :=
  [PBl (t_b1 sp); PCh c_lpar; PBl (t_b2 sp)] ++ inner ++ [PBl (t_b2 sp); PCh c_rpar].
Definition comma_pieces_sp (sp : tspell) : list piece := [PCh c_comma; PBl (t_b3 sp)].

Definition type_tail_pieces (sp : tspell) (t : atype) : list piece :=
  match t with
  | ANum b None => []
  | ANum b (Some k) =>
    match t_form sp with
    | 0 => paren_pieces sp [PTx k]
    | 1 => paren_pieces sp (keyeq_pieces sp (s "kind") k)
    | _ => [PCh c_star; PBl (t_bstar sp); PTx k]
    end
  | ADouble => match t_dbl sp with 0 => [] | S d => [PGap d; PKw (skipn 6 (t_case sp)) (s "precision")] end
  | ADoubleComplex => match t_dbl sp with 0 => [] | S d => [PGap d; PKw (skipn 6 (t_case sp)) (s "complex")] end
  | AChar None None => []
  | AChar None (Some k) => paren_pieces sp (keyeq_pieces sp (s "kind") k)
  | AChar (Some l) None =>
    match t_form sp with
    | 0 => [PCh c_star; PBl (t_bstar sp)] ++ (if all_digits l then [PTx l] else [PCh c_lpar; PTx l; PCh c_rpar])
    | 1 => paren_pieces sp [PTx l]
    | _ => paren_pieces sp (keyeq_pieces sp (s "len") l)
    end
  | AChar (Some l) (Some k) =>
    match t_form sp with
    | 0 | 1 => paren_pieces sp ([PTx l] ++ comma_pieces_sp sp ++ [PTx k])
    | 2 => paren_pieces sp (keyeq_pieces sp (s "len") l ++ comma_pieces_sp sp ++ keyeq_pieces sp (s "kind") k)
    | 3 => paren_pieces sp (keyeq_pieces sp (s "kind") k ++ comma_pieces_sp sp ++ keyeq_pieces sp (s "len") l)
    | _ => paren_pieces sp ([PTx l] ++ comma_pieces_sp sp ++ keyeq_pieces sp (s "kind") k)
    end
  | ADerived c n => paren_pieces sp [PTx n]
  end.
(* the first word of the type spec ("double precision" without a blank is one word) *)
Definition type_word (sp : tspell) (t : atype) : str :=
  match t with
  | ANum b _ => base_word b
  | ADouble => match t_dbl sp with 0 => s "doubleprecision" | _ => s "double" end
  | ADoubleComplex => match t_dbl sp with 0 => s "doublecomplex" | _ => s "double" end
  | AChar _ _ => s "character"
  | ADerived c _ => if c then s "class" else s "type"
  end.
Definition type_pieces (sp : tspell) (t : atype) : list piece :=
  PKw (t_case sp) (type_word sp t) :: type_tail_pieces sp t.

Lemma recase_app m a b : recase m (a ++ b) = recase m a ++ recase (skipn (length a) m) b.
Proof.
  revert m. induction a as [|c a IH]; intros m; [reflexivity|]. destruct m as [|x m]; cbn [app recase length skipn].
  - f_equal. rewrite IH. destruct (length a); reflexivity.
  - f_equal. apply IH.
Qed.

Lemma render_type_pieces sp t : render_type sp t = denote (type_pieces sp t).
Proof.
  unfold type_pieces. rewrite denote_cons. cbn [piece_text].
  destruct t as [b [k|]| | |[l|] [k|]|c n]; cbn [render_type type_word type_tail_pieces].
  3:{ destruct (t_dbl sp) as [|d]; cbn [denote fold_right piece_text blanks repeat app].
      - change (s "doubleprecision") with (s "double" ++ s "precision"). rewrite recase_app. now rewrite app_nil_r.
      - norm_app. reflexivity. }
  3:{ destruct (t_dbl sp) as [|d]; cbn [denote fold_right piece_text blanks repeat app].
      - change (s "doublecomplex") with (s "double" ++ s "complex"). rewrite recase_app. now rewrite app_nil_r.
      - norm_app. reflexivity. }
  all: try (destruct (t_form sp) as [|[|[|[|f]]]]);
    try (destruct (all_digits l));
    unfold paren, keyeq, comma, paren_pieces, keyeq_pieces, comma_pieces_sp;
    cbn [denote fold_right piece_text app]; norm_app; try reflexivity.
Qed.

(* ------------------------------------------------------------------ what follows the type word *)
(* the pieces behind the type word begin with "(" ":" "," "*" (after optional blanks) or with blanks
   and an identifier *)
Definition vtail (rest : list piece) : bool :=
  match rest with
  | PGap _ :: PId _ :: _ => true
  | PBl _ :: PCh c :: _ | PCh c :: _ =>
    Ascii.eqb c c_lpar || Ascii.eqb c c_colon || Ascii.eqb c c_comma || Ascii.eqb c c_star
  | _ => false
  end.
Definition punct_start (rest : list piece) : bool :=
  match rest with PBl _ :: PCh _ :: _ | PCh _ :: _ => true | _ => false end.

Lemma starts_word_is_punct b c y w : is_word c = false -> is_space c = false -> forallb is_word w = true -> w <> [] ->
  starts_word_is (blanks b ++ c :: y) w = false.
Proof.
  intros Wc Sc Ww N. unfold starts_word_is. destruct b as [|b].
  - cbn [blanks repeat app]. now rewrite Sc.
  - change (blanks (S b) ++ c :: y) with (c_sp :: (blanks b ++ c :: y)). cbn iota.
    change (c_sp :: (blanks b ++ c :: y)) with (blanks (S b) ++ c :: y).
    replace (is_space c_sp) with true by reflexivity. rewrite (skip_ws_bl_ch (S b) c y Sc).
    destruct w as [|w0 w']; [congruence|]. cbn in Ww. apply andb_true_iff in Ww as [W0 _]. cbn [match_ci].
    destruct (Ascii.eqb w0 (lower_ch c)) eqn:E; [|reflexivity].
    apply Ascii.eqb_eq in E. subst w0. rewrite is_word_lower_ch in W0. congruence.
Qed.

Lemma vtail_ok W rest : vtail rest = true -> stop_ok rest ->
  (punct_start rest = true \/ (seqb W (s "type") = false /\ seqb W (s "class") = false)) ->
  variable_tail_ok W (denote rest) = true.
Proof.
  intros V St Hl. unfold variable_tail_ok.
  assert (Body : (match denote rest with
                  | [] => false
                  | c :: _ =>
                    match skip_ws (denote rest) with
                    | d :: _ => Ascii.eqb d c_lpar || Ascii.eqb d c_colon || Ascii.eqb d c_comma || Ascii.eqb d c_star
                                || (is_space c && is_word d)
                    | [] => false
                    end
                  end) = true).
  { destruct rest as [|[mk k|n|n|x|c|x] rest']; try discriminate V.
    - (* PBl n :: PCh c *) destruct rest' as [|[| | | |c|] rest'']; try discriminate V. cbn [vtail stop_ok] in *.
      rewrite !denote_cons. cbn [piece_text app]. rewrite (skip_ws_bl_ch n c _ St).
      destruct n as [|n]; cbn [blanks repeat app]; rewrite V; reflexivity.
    - (* PGap n :: PId x *) destruct rest' as [|[| | |x| |] rest'']; try discriminate V. cbn [stop_ok piece_text] in St.
      rewrite !denote_cons. cbn [piece_text]. rewrite (skip_ws_bl (S n)), (skip_ws_alnum _ (starts_alnum_app _ _ St)).
      change (blanks (S n) ++ x ++ denote rest'') with (c_sp :: (blanks n ++ x ++ denote rest'')). cbn iota.
      destruct St as (c0 & r0 & -> & W0). cbn [app]. replace (is_space c_sp) with true by reflexivity. rewrite W0.
      now rewrite !orb_true_r.
    - (* PCh c *) cbn [vtail stop_ok] in *. rewrite denote_cons. cbn [piece_text app skip_ws]. rewrite St, V. reflexivity. }
  rewrite Body, andb_true_r.
  destruct Hl as [Hp | [T C]]; [|now rewrite T, C].
  assert (Hs : forall w, forallb is_word w = true -> w <> [] -> starts_word_is (denote rest) w = false).
  { intros w Ww Nw. destruct rest as [|[mk k|n|n|x|c|x] rest']; try discriminate Hp.
    - destruct rest' as [|[| | | |c|] rest'']; try discriminate Hp. cbn [vtail stop_ok] in *.
      rewrite !denote_cons. cbn [piece_text app]. apply starts_word_is_punct; try assumption.
      destruct (is_word c) eqn:Wc; [|reflexivity]. exfalso. revert V.
      destruct (word_plain c Wc) as (_ & A & _ & _ & _ & B & _ & D).
      rewrite A, B, D. cbn [orb]. destruct (Ascii.eqb c c_colon) eqn:E; [|discriminate].
      apply Ascii.eqb_eq in E. subst c. discriminate.
    - cbn [vtail stop_ok] in *. rewrite denote_cons. cbn [piece_text app].
      change (c :: denote rest') with (blanks 0 ++ c :: denote rest'). apply starts_word_is_punct; try assumption.
      destruct (is_word c) eqn:Wc; [|reflexivity]. exfalso. revert V.
      destruct (word_plain c Wc) as (_ & A & _ & _ & _ & B & _ & D).
      rewrite A, B, D. cbn [orb]. destruct (Ascii.eqb c c_colon) eqn:E; [|discriminate].
      apply Ascii.eqb_eq in E. subst c. discriminate. }
  rewrite !Hs by (reflexivity || discriminate).
  destruct (seqb W (s "type")); [reflexivity|]. destruct (seqb W (s "class")); reflexivity.
Qed.

(* ------------------------------------------------------------------ facts about the pieces of a type spec *)
Ltac type_cases sp t :=
  destruct t as [nb [k|]| | |[l|] [k|]|cls n]; cbn [type_tail_pieces type_word];
  [destruct (t_form sp) as [|[|f]]|idtac|destruct (t_dbl sp) as [|d]|destruct (t_dbl sp) as [|d]
   |destruct (t_form sp) as [|[|[|[|f]]]]|destruct (t_form sp) as [|[|f]]; [destruct (all_digits l)|idtac|idtac]|idtac|idtac|idtac].

Lemma printable_sp x : forallb Sem.CascadeSpec.printable_ch x = true -> forallb Sem.CascadeSpec.printable_ch x = true.
Proof. auto. Qed.

Definition text_ok (x : str) : Prop :=
  forallb Sem.CascadeSpec.printable_ch x = true /\ existsb is_quote x = false /\
  has_sub w_function (lower x) = false /\ has_sub w_subroutine (lower x) = false.
Lemma text_ok_piece x : text_ok x -> piece_ok (PTx x) /\ piece_free w_function (PTx x) /\ piece_free w_subroutine (PTx x).
Proof. intros (A & B & C & D). repeat split; assumption. Qed.

Lemma mk_text_ok x : forallb Sem.CascadeSpec.printable_ch x = true -> no_proc_word x = true -> expr_ok x = true ->
  text_ok x.
Proof.
  intros P F E. unfold no_proc_word in F. apply andb_true_iff in F as [F1 F2]. apply negb_true_iff in F1, F2.
  repeat split; try assumption. now apply expr_quote.
Qed.

Lemma type_params_ok sp t : type_ok sp t = true -> type_text_ok t = true ->
  match t with
  | ANum _ k => match k with Some x => text_ok x | None => True end
  | AChar l k => match l with Some x => text_ok x | None => True end /\ match k with Some x => text_ok x | None => True end
  | ADerived _ n => text_ok n /\ ident_ok n = true
  | _ => True
  end.
Proof.
  intros O T. destruct t as [b [k|]| | |[l|] [k|]|cls n]; cbn [type_ok type_text_ok] in *; try exact I;
    repeat match goal with H : (_ && _) = true |- _ => apply andb_true_iff in H as [? ?] end;
    repeat match goal with H : true = true |- _ => clear H end.
  - now apply mk_text_ok.
  - split; now apply mk_text_ok.
  - split; [now apply mk_text_ok|exact I].
  - split; [exact I|now apply mk_text_ok].
  - split; exact I.
  - unfold no_proc_word in T. apply andb_true_iff in T as [F1 F2]. apply negb_true_iff in F1, F2.
    split; [|exact O]. pose proof (ident_words n O) as W. repeat split; try assumption.
    + apply forallb_forall. intros ch Hc. rewrite forallb_forall in W. now apply word_sprintable, W.
    + now apply words_noquote.
Qed.

Lemma type_tail_facts sp t : type_ok sp t = true -> type_text_ok t = true ->
  Forall piece_ok (type_tail_pieces sp t) /\
  Forall (piece_free w_function) (type_tail_pieces sp t) /\
  Forall (piece_free w_subroutine) (type_tail_pieces sp t).
Proof.
  intros O T. pose proof (type_params_ok sp t O T) as H.
  type_cases sp t; unfold paren_pieces, keyeq_pieces, comma_pieces_sp; cbn [app];
    repeat match goal with
           | H : _ /\ _ |- _ => destruct H
           | H : text_ok _ |- _ => apply text_ok_piece in H
           end;
    repeat split; repeat (apply Forall_cons || apply Forall_nil); cbn [piece_ok piece_free];
      try reflexivity; try exact I; try (split; reflexivity); try assumption.
Qed.

(* the declaration part behind the type word *)
Definition dcol_pieces (dc : option nat) (b : nat) : list piece :=
  match dc with Some b0 => [PBl b0; PCh c_colon; PCh c_colon; PBl b] | None => [PGap b] end.

Lemma type_rest_struct sp t dc b x Y :
  let W := type_word sp t in
  let rest := type_tail_pieces sp t ++ dcol_pieces dc b ++ PId x :: Y in
  fnw rest = true /\ label_safe rest = true /\
  vtail (match t with ADouble | ADoubleComplex => dcol_pieces dc b ++ PId x :: Y | _ => rest end) = true /\
  (punct_start rest = true \/ (seqb W (s "type") = false /\ seqb W (s "class") = false)) /\
  (ident_ok x = true -> stop_ok rest) /\
  sep_closed w_function (PKw (t_case sp) W :: type_tail_pieces sp t ++ dcol_pieces dc b) = true /\
  sep_closed w_subroutine (PKw (t_case sp) W :: type_tail_pieces sp t ++ dcol_pieces dc b) = true.
Proof.
  cbn zeta. type_cases sp t; destruct dc as [b0|]; unfold paren_pieces, keyeq_pieces, comma_pieces_sp, dcol_pieces;
    cbn [app]; repeat split; try reflexivity; try (now left); try (right; destruct nb; split; reflexivity);
    try (right; split; reflexivity); try (destruct cls; reflexivity);
    try (intros Ix; cbn [stop_ok piece_text]; try reflexivity; try (now apply ident_starts);
         try (apply kw_starts; [discriminate|reflexivity])).
Qed.

(* ------------------------------------------------------------------ VARIABLE_RE on a declaration *)
Lemma match_ci_conflict' w m k y : forallb is_lower k = true -> conflict w k = true ->
  match_ci w (recase m k ++ y) = None.
Proof.
  intros L C. apply match_ci_none. rewrite lower_app, (lower_kw m k L). now apply conflict_prefix.
Qed.

Lemma vra_skip pre rest m W y : forallb is_lower W = true ->
  forallb (fun a => conflict (fst a) W) pre = true ->
  variable_re_alts (pre ++ rest) (recase m W ++ y) = variable_re_alts rest (recase m W ++ y).
Proof.
  intros L. induction pre as [|[w1 w2] pre IH]; intros H; [reflexivity|].
  cbn [forallb fst] in H. apply andb_true_iff in H as [H1 H2]. cbn [app variable_re_alts].
  assert (E : match w2 with None => match_ci w1 (recase m W ++ y) | Some w => match_two w1 w (recase m W ++ y) end = None).
  { destruct w2; [unfold match_two|]; now rewrite (match_ci_conflict' w1 m W y L H1). }
  rewrite E. now apply IH.
Qed.

Lemma is_decl_at n m W y : forallb is_lower W = true ->
  nth_error variable_words n = Some (W, None) ->
  forallb (fun a => conflict (fst a) W) (firstn n variable_words) = true ->
  variable_tail_ok W y = true -> is_declaration (recase m W ++ y) = true.
Proof.
  intros L N C V. unfold is_declaration.
  assert (E : variable_words = firstn n variable_words ++ (W, None) :: skipn (S n) variable_words).
  { clear - N. revert n N. generalize variable_words. induction l as [|x l IH]; intros [|n] N; try discriminate.
    - injection N as ->. reflexivity.
    - cbn [firstn skipn app]. f_equal. now apply IH. }
  rewrite E at 1. rewrite (vra_skip _ _ m W y L C). cbn [variable_re_alts].
  now rewrite (match_ci_recase m W y L), V.
Qed.

Lemma is_decl_word m W y :
  In W [s "integer"; s "real"; s "character"; s "complex"; s "logical"; s "type"; s "class"] ->
  variable_tail_ok W y = true -> is_declaration (recase m W ++ y) = true.
Proof.
  intros H V. destruct H as [<- | [<- | [<- | [<- | [<- | [<- | [<- | []]]]]]]].
  - now apply (is_decl_at 0).
  - now apply (is_decl_at 1).
  - now apply (is_decl_at 3).
  - now apply (is_decl_at 4).
  - now apply (is_decl_at 6).
  - now apply (is_decl_at 7).
  - now apply (is_decl_at 8).
Qed.

Lemma is_decl_double m dbl m' W2 y : (W2 = s "precision" \/ W2 = s "complex") ->
  variable_tail_ok (s "double") y = true ->
  is_declaration (recase m (s "double") ++ blanks dbl ++ recase m' W2 ++ y) = true.
Proof.
  intros H V. unfold is_declaration.
  change variable_words with (firstn 2 variable_words ++ skipn 2 variable_words).
  rewrite (vra_skip (firstn 2 variable_words) (skipn 2 variable_words) m (s "double") _ eq_refl eq_refl).
  cbn [variable_words skipn variable_re_alts]. unfold match_two.
  rewrite !(match_ci_recase m (s "double")) by reflexivity. rewrite !skip_ws_bl.
  destruct H as [-> | ->].
  - rewrite (skip_ws_kw m' (s "precision") _ ltac:(discriminate) eq_refl), (match_ci_recase m' (s "precision")) by reflexivity.
    now rewrite V.
  - rewrite (skip_ws_kw m' (s "complex") _ ltac:(discriminate) eq_refl).
    rewrite (match_ci_conflict' (s "precision") m' (s "complex") y eq_refl eq_refl).
    rewrite (match_ci_conflict' (s "character") m (s "double") _ eq_refl eq_refl).
    rewrite (match_ci_conflict' (s "complex") m (s "double") _ eq_refl eq_refl).
    rewrite (match_ci_recase m' (s "complex")) by reflexivity. now rewrite V.
Qed.
