(* Sem/CallsSpec.v — specification side of property C08, written from the property text and
   the Fortran rules, not from FORD's code:
     - an expression / statement AST for executable parts (identifiers, numeric and masked literal
       constants, operators, parenthesised sub-expressions, references name(args) — function or
       array element, decided by the symbol table only —, component chains a%b(i)%c(...),
       assignment, CALL with and without argument list, one-line IF, IF/ELSE IF/WHERE/DO WHILE/
       SELECT CASE/CASE/FORALL headers, I/O statements with control lists, ALLOCATE & co,
       ASSOCIATE constructs, statement labels, FORMAT and computed GO TO),
     - a renderer to statement text,
     - [calls_of]: the user procedures a unit invokes.
   Also the parenthesis trees used to state what strip_paren computes.
   Executable definitions only. *)
From Ford Require Import Base.Str Gen.Intrinsics Sem.Calls.

(* ================================================================== parenthesis trees *)
(* every string with balanced parentheses is [flat t] for exactly one tree *)
Inductive ptree :=
  | PNil
  | PCh (c : ascii) (t : ptree)          (* a character other than a parenthesis *)
  | PGrp (g : ptree) (t : ptree).        (* ( g ) *)

Fixpoint flat (t : ptree) : str :=
  match t with
  | PNil => []
  | PCh c t' => c :: flat t'
  | PGrp g t' => lpar :: flat g ++ rpar :: flat t'
  end.

Fixpoint ptree_ok (t : ptree) : bool :=
  match t with
  | PNil => true
  | PCh c t' => negb (Ascii.eqb c lpar) && negb (Ascii.eqb c rpar) && ptree_ok t'
  | PGrp g t' => ptree_ok g && ptree_ok t'
  end.

(* the characters of one nesting level, every group emptied *)
Fixpoint shallow (t : ptree) : str :=
  match t with
  | PNil => []
  | PCh c t' => c :: shallow t'
  | PGrp _ t' => lpar :: rpar :: shallow t'
  end.

Fixpoint groups (t : ptree) : list ptree :=
  match t with
  | PNil => []
  | PCh _ t' => groups t'
  | PGrp g t' => g :: groups t'
  end.

Definition wrap (x : str) : str := lpar :: x ++ [rpar].

(* the slices [d+1] levels below t, left to right *)
Fixpoint deep (d : nat) (t : ptree) : list str :=
  match d with
  | 0 => map (fun g => wrap (shallow g)) (groups t)
  | S d' => flat_map (deep d') (groups t)
  end.

Definition level_slices (d : nat) (t : ptree) : list str :=
  match d with
  | 0 => match shallow t with [] => [] | x => [x] end
  | S d' => deep d' t
  end.

(* ================================================================== lexical classes *)
Definition bad_char (c : ascii) : bool :=
  Ascii.eqb c lpar || Ascii.eqb c rpar || Ascii.eqb c pct || Ascii.eqb c nl.

(* text that can never start or extend a reference: no parenthesis, no '%', and every run of
   word characters inside it is followed by a character that is neither a word character nor
   white space (so "1.0e-3_dp", ".true.", "*", " .and. ", ", ", " = " qualify; "x (" does not) *)
Fixpoint inert_from (inword : bool) (t : str) : bool :=
  match t with
  | [] => true
  | c :: t' =>
    if is_word c then inert_from true t'
    else if bad_char c then false
    else if inword && is_space c then false
    else inert_from false t'
  end.
Definition inert (t : str) : bool := inert_from false t.

Definition first_nonword (t : str) : bool := match t with c :: _ => negb (is_word c) | [] => false end.
Definition last_nonword (t : str) : bool := first_nonword (rev t).
Definition has_nonspace (t : str) : bool := existsb (fun c => negb (is_space c)) t.

(* an operator or separator between two operands: " + ", "*", ", ", " .and. ", "=", " => ", ":" ... *)
Definition op_ok (op : str) : bool :=
  inert op && first_nonword op && last_nonword op && has_nonspace op.
(* a prefix operator: "-", ".not. ", "+" *)
Definition unop_ok (op : str) : bool := inert op && last_nonword op && has_nonspace op && first_nonword op.
(* a literal constant or other inert operand: "42", "1.0e-3_dp", ".true.", "*", ":" and the masked
   character literal (the literal's number between double quotes); may be empty (empty argument
   list) *)
Definition lit_ok (t : str) : bool := inert t && negb (existsb is_space t).
(* an identifier *)
Definition name_ok (x : str) : bool :=
  match x with c :: _ => is_alpha c && forallb is_word x | [] => false end.

(* ================================================================== expressions *)
Inductive expr :=
  | ELit (t : str)
  | EDes (d : desig)
  | EPar (e : expr)                          (* ( e ) *)
  | EUn (op : str) (e : expr)                (* op e *)
  | EBin (a : expr) (op : str) (b : expr)    (* a op b — also argument lists "a, b", keyword
                                                arguments "k = a", ranges "a:b", "n => sel" *)
with desig :=
  | DLast0 (x : str)                         (* x *)
  | DLastA (x : str) (a : expr)              (* x(a) *)
  | DPart0 (x : str) (r : desig)             (* x%r *)
  | DPartA (x : str) (a : expr) (r : desig). (* x(a)%r *)

Fixpoint render_e (e : expr) : str :=
  match e with
  | ELit t => t
  | EDes d => render_d d
  | EPar e' => lpar :: render_e e' ++ [rpar]
  | EUn op e' => op ++ render_e e'
  | EBin a op b => render_e a ++ op ++ render_e b
  end
with render_d (d : desig) : str :=
  match d with
  | DLast0 x => x
  | DLastA x a => x ++ lpar :: render_e a ++ [rpar]
  | DPart0 x r => x ++ pct :: render_d r
  | DPartA x a r => x ++ lpar :: render_e a ++ rpar :: pct :: render_d r
  end.

Fixpoint wf_e (e : expr) : bool :=
  match e with
  | ELit t => lit_ok t
  | EDes d => wf_d d
  | EPar e' => wf_e e'
  | EUn op e' => unop_ok op && wf_e e'
  | EBin a op b => wf_e a && op_ok op && wf_e b
  end
with wf_d (d : desig) : bool :=
  match d with
  | DLast0 x => name_ok x
  | DLastA x a => name_ok x && wf_e a
  | DPart0 x r => name_ok x && wf_d r
  | DPartA x a r => name_ok x && wf_e a && wf_d r
  end.

(* all component names of a designator, lower case *)
Fixpoint names_d (d : desig) : chain :=
  match d with
  | DLast0 x => [lower x]
  | DLastA x _ => [lower x]
  | DPart0 x r => lower x :: names_d r
  | DPartA x _ r => lower x :: names_d r
  end.

Definition last_has_args (d : desig) : bool :=
  (fix go (d : desig) : bool :=
     match d with DLast0 _ => false | DLastA _ _ => true | DPart0 _ r => go r | DPartA _ _ r => go r end) d.

(* ---- the references of an expression (Spec): every  name(args)  part of every designator, as the
   chain of component names leading to it; arguments are searched recursively ---- *)
Fixpoint refs_e (e : expr) : list chain :=
  match e with
  | ELit _ => []
  | EDes d => refs_d [] d
  | EPar e' => refs_e e'
  | EUn _ e' => refs_e e'
  | EBin a _ b => refs_e a ++ refs_e b
  end
with refs_d (pre : chain) (d : desig) : list chain :=
  match d with
  | DLast0 _ => []
  | DLastA x a => (pre ++ [lower x]) :: refs_e a
  | DPart0 x r => refs_d (pre ++ [lower x]) r
  | DPartA x a r => (pre ++ [lower x]) :: refs_e a ++ refs_d (pre ++ [lower x]) r
  end.

(* references inside the argument lists of a designator only (for CALL targets) *)
Fixpoint arg_refs_d (d : desig) : list chain :=
  match d with
  | DLast0 _ => []
  | DLastA _ a => refs_e a
  | DPart0 _ r => arg_refs_d r
  | DPartA _ a r => refs_e a ++ arg_refs_d r
  end.
(* intermediate  name(args)  parts of a CALL target (array elements on the way) *)
Fixpoint inner_refs_d (pre : chain) (d : desig) : list chain :=
  match d with
  | DLast0 _ => []
  | DLastA _ _ => []
  | DPart0 x r => inner_refs_d (pre ++ [lower x]) r
  | DPartA x _ r => (pre ++ [lower x]) :: inner_refs_d (pre ++ [lower x]) r
  end.

(* ================================================================== statements *)
Inductive iokw := KWrite | KRead | KOpen | KClose | KInquire | KRewind | KBackspace | KEndfile | KFlush | KWait.
Inductive allockw := KAllocate | KDeallocate | KNullify.

Definition iokw_text (k : iokw) : str :=
  match k with
  | KWrite => s "write" | KRead => s "read" | KOpen => s "open" | KClose => s "close"
  | KInquire => s "inquire" | KRewind => s "rewind" | KBackspace => s "backspace"
  | KEndfile => s "endfile" | KFlush => s "flush" | KWait => s "wait"
  end.
Definition allockw_text (k : allockw) : str :=
  match k with KAllocate => s "allocate" | KDeallocate => s "deallocate" | KNullify => s "nullify" end.

(* the forms whose scanning does not involve the CALL keyword *)
Inductive form :=
  | FAssign (l r : expr)                     (* l = r *)
  | FPtrAssign (l r : expr)                  (* l => r *)
  | FIfThen (c : expr)                       (* if (c) then *)
  | FElseIf (c : expr)                       (* else if (c) then *)
  | FIfAssign (c l r : expr)                 (* if (c) l = r *)
  | FIfArith (c : expr) (l1 l2 l3 : str)     (* if (c) 10, 20, 30 *)
  | FWhere (m : expr)                        (* where (m) *)
  | FElseWhere (m : expr)                    (* elsewhere (m) *)
  | FWhereAssign (m l r : expr)              (* where (m) l = r *)
  | FDoWhile (c : expr)                      (* do while (c) *)
  | FDo (v : str) (lo hi : expr)             (* do v = lo, hi *)
  | FSelectCase (e : expr)                   (* select case (e) *)
  | FCase (e : expr)                         (* case (e) *)
  | FForall (h : expr)                       (* forall (h) *)
  | FForallAssign (h l r : expr)             (* forall (h) l = r *)
  | FIo (k : iokw) (ctl : expr)              (* write (ctl) *)
  | FIoItems (k : iokw) (ctl items : expr)   (* write (ctl) items *)
  | FPrint (fmt items : expr)                (* print fmt, items *)
  | FAlloc (k : allockw) (l : expr)          (* allocate (l) *)
  | FStop (e : expr)                         (* stop e *)
  | FPlain (w1 w2 : str).                    (* end if, end do, else, cycle, exit, return, continue, ... *)

(* segments: a form is a list of segments separated by single blanks *)
Inductive seg :=
  | GWord (w : str)                    (* keyword, label or other inert word *)
  | GKw (kw : str) (sp : bool) (c : expr)   (* kw(c)  or  kw (c) *)
  | GExpr (e : expr).

Definition assign (l r : expr) : expr := EBin l (s " = ") r.

Definition segs_of (sp : bool) (f : form) : list seg :=
  match f with
  | FAssign l r => [GExpr (assign l r)]
  | FPtrAssign l r => [GExpr (EBin l (s " => ") r)]
  | FIfThen c => [GKw (s "if") sp c; GWord (s "then")]
  | FElseIf c => [GWord (s "else"); GKw (s "if") sp c; GWord (s "then")]
  | FIfAssign c l r => [GKw (s "if") sp c; GExpr (assign l r)]
  | FIfArith c l1 l2 l3 => [GKw (s "if") sp c; GExpr (EBin (ELit l1) (s ", ") (EBin (ELit l2) (s ", ") (ELit l3)))]
  | FWhere m => [GKw (s "where") sp m]
  | FElseWhere m => [GKw (s "elsewhere") sp m]
  | FWhereAssign m l r => [GKw (s "where") sp m; GExpr (assign l r)]
  | FDoWhile c => [GWord (s "do"); GKw (s "while") sp c]
  | FDo v lo hi => [GWord (s "do"); GExpr (assign (EDes (DLast0 v)) (EBin lo (s ", ") hi))]
  | FSelectCase e => [GWord (s "select"); GKw (s "case") sp e]
  | FCase e => [GKw (s "case") sp e]
  | FForall h => [GKw (s "forall") sp h]
  | FForallAssign h l r => [GKw (s "forall") sp h; GExpr (assign l r)]
  | FIo k ctl => [GKw (iokw_text k) sp ctl]
  | FIoItems k ctl items => [GKw (iokw_text k) sp ctl; GExpr items]
  | FPrint fmt items => [GWord (s "print"); GExpr (EBin fmt (s ", ") items)]
  | FAlloc k l => [GKw (allockw_text k) sp l]
  | FStop e => [GWord (s "stop"); GExpr e]
  | FPlain w1 w2 => match w2 with [] => [GWord w1] | _ => [GWord w1; GWord w2] end
  end.

(* every keyword the grammar writes in front of a parenthesis *)
Definition grammar_keywords : list str :=
  [s "if"; s "where"; s "elsewhere"; s "while"; s "case"; s "forall"; s "associate"]
  ++ map iokw_text [KWrite; KRead; KOpen; KClose; KInquire; KRewind; KBackspace; KEndfile; KFlush; KWait]
  ++ map allockw_text [KAllocate; KDeallocate; KNullify].

Definition render_seg (g : seg) : str :=
  match g with
  | GWord w => w
  | GKw kw sp c => kw ++ (if sp then [space] else []) ++ lpar :: render_e c ++ [rpar]
  | GExpr e => render_e e
  end.
Definition render_segs (gs : list seg) : str := join [space] (map render_seg gs).

Definition word_ok (w : str) : bool :=
  lit_ok w && negb (is_nil w) && match w with c :: _ => is_word c | [] => false end.

(* the first character of e that is not white space is a parenthesis (or there is none) *)
Definition starts_paren (e : expr) : bool := match lstrip (render_e e) with c :: _ => Ascii.eqb c lpar | [] => true end.

Fixpoint wf_segs (gs : list seg) : bool :=
  match gs with
  | [] => true
  | GWord w :: rest =>
    word_ok w && wf_segs rest
    && match rest with GExpr e :: _ => negb (starts_paren e) | _ => true end
  | GKw kw _ c :: rest => name_ok kw && wf_e c && wf_segs rest
  | GExpr e :: rest =>
    wf_e e && negb (is_nil (render_e e)) && wf_segs rest
    && match rest with GExpr e' :: _ => negb (starts_paren e') | _ => true end
  end.

Definition label_ok (l : str) : bool := negb (is_nil l) && forallb is_digit l.

Inductive stmt :=
  | SForm (lab : option str) (sp : bool) (f : form)     (* [label] form *)
  | SCall (lab : option str) (d : desig)                 (* [label] call d *)
  | SIfCall (lab : option str) (sp : bool) (c : expr) (d : desig)   (* [label] if (c) call d *)
  | SAssoc (sp : bool) (pairs : list (str * expr))       (* associate (n1 => e1, n2 => e2) *)
  | SEndAssoc                                            (* end associate *)
  | SFormat (lab : str) (sp : bool) (body : ptree)       (* 100 format (body)  /  100 format(body) *)
  | SGoto (labels : list str) (e : expr).                (* go to (10, 20, 30), e *)

Definition lab_segs (lab : option str) : list seg := match lab with Some l => [GWord l] | None => [] end.

Fixpoint assoc_list (pairs : list (str * expr)) : expr :=
  match pairs with
  | [] => ELit []
  | [(n, e)] => EBin (EDes (DLast0 n)) (s " => ") e
  | (n, e) :: rest => EBin (EBin (EDes (DLast0 n)) (s " => ") e) (s ", ") (assoc_list rest)
  end.

(* the segments of the statements that are written as segments *)
Definition stmt_segs (st : stmt) : list seg :=
  match st with
  | SForm lab sp f => lab_segs lab ++ segs_of sp f
  | SCall lab d => lab_segs lab ++ [GWord (s "call"); GExpr (EDes d)]
  | SIfCall lab sp c d => lab_segs lab ++ [GKw (s "if") sp c; GWord (s "call"); GExpr (EDes d)]
  | SAssoc sp pairs => [GKw (s "associate") sp (assoc_list pairs)]
  | _ => []
  end.

Definition render_stmt (st : stmt) : str :=
  match st with
  | SEndAssoc => s "end associate"
  | SFormat lab sp body => lab ++ s " format" ++ (if sp then [space] else []) ++ lpar :: flat body ++ [rpar]
  | SGoto labels e => s "go to (" ++ join (s ", ") labels ++ s "), " ++ render_e e
  | _ => render_segs (stmt_segs st)
  end.

(* what is left of a computed GO TO once its label list is set aside: the selector expression *)
Definition goto_segs (e : expr) : list seg := [GWord (s "goto,"); GExpr e].

Definition wf_lab (lab : option str) : bool := match lab with Some l => label_ok l | None => true end.

Definition wf_stmt (st : stmt) : bool :=
  match st with
  | SForm lab _ _ => wf_lab lab && wf_segs (stmt_segs st)
  | SCall lab _ => wf_lab lab && wf_segs (stmt_segs st)
  | SIfCall lab _ _ _ => wf_lab lab && wf_segs (stmt_segs st)
  | SAssoc _ pairs => negb (is_nil pairs) && wf_segs (stmt_segs st)
                      && forallb (fun p => negb (is_nil (render_e (snd p)))) pairs
  | SEndAssoc => true
  | SFormat lab _ body => label_ok lab && ptree_ok body && negb (existsb (Ascii.eqb nl) (flat body))
  | SGoto labels e => negb (is_nil labels) && forallb label_ok labels && wf_segs (goto_segs e)
  end.

(* ---- references of a statement (Spec).  The target of a CALL is a reference whether or not an
   argument list follows. ---- *)
Definition seg_refs (g : seg) : list chain :=
  match g with GWord _ => [] | GKw _ _ c => refs_e c | GExpr e => refs_e e end.

Definition stmt_refs (st : stmt) : list chain :=
  match st with
  | SForm _ sp f => flat_map seg_refs (segs_of sp f)
  | SCall _ d => names_d d :: inner_refs_d [] d ++ arg_refs_d d
  | SIfCall _ _ c d => refs_e c ++ names_d d :: inner_refs_d [] d ++ arg_refs_d d
  | SAssoc _ pairs => flat_map (fun p => refs_e (snd p)) pairs
  | SEndAssoc => []
  | SFormat _ _ _ => []
  | SGoto _ e => refs_e e
  end.

(* ================================================================== meaning of a chain *)
Inductive den := DProc (id : str) | DVar | DType | DUnknown.

Definition ent_den (e : entity) : den :=
  match e with
  | EFunc id _ => DProc id
  | EProc id => DProc id
  | EVar _ _ _ => DVar
  | EType _ => DType
  end.

(* Fortran: the first name is looked up in the scope, every further name among the components and
   bindings of the type of what came before (a type name in front of '%' — not Fortran — is read as
   a reference into that type's scope) *)
Fixpoint denote (tb : symtab) (ctx : labels) (ch : chain) : den :=
  match ch with
  | [] => DUnknown
  | [x] => match assoc_get x ctx with Some e => ent_den e | None => DUnknown end
  | x :: rest =>
    match assoc_get x ctx with
    | Some (EVar t _ _) => match assoc_get t (st_types tb) with Some c => denote tb c rest | None => DUnknown end
    | Some (EFunc _ t) => match assoc_get t (st_types tb) with Some c => denote tb c rest | None => DUnknown end
    | Some (EType t) => match assoc_get t (st_types tb) with Some c => denote tb c rest | None => DUnknown end
    | _ => DUnknown
    end
  end.

(* ASSOCIATE names in scope: the chain the name stands for, or None for the value of an
   expression (a local variable of its own) *)
Definition aenv := list (list (str * option chain)).

Fixpoint aenv_get (k : str) (rb : list (list (str * option chain))) : option (option chain) :=
  match rb with
  | [] => None
  | b :: rb' => match assoc_get k (rev b) with Some v => Some v | None => aenv_get k rb' end
  end.

(* the chain after replacing a leading ASSOCIATE name; None: the head is a local value *)
Definition expand (env : aenv) (ch : chain) : option chain :=
  match ch with
  | h :: t =>
    match aenv_get h (rev env) with
    | Some (Some sel) => Some (sel ++ t)
    | Some None => None
    | None => Some ch
    end
  | [] => Some ch
  end.

(* the user procedure a reference invokes, if any: a declared procedure (whatever its name), or a
   name declared nowhere that is not an intrinsic (an external procedure: the project's own top-level
   procedure of that name if there is one) *)
Definition classify (tb : symtab) (env : aenv) (ch : chain) : list str :=
  match expand env ch with
  | None => []
  | Some ch' =>
    match denote tb (st_scope tb) ch' with
    | DProc id => [id]
    | DUnknown => if str_in (last_of ch') INTRINSICS then [] else [unresolved_name tb ch']
    | DVar => []
    | DType => []
    end
  end.

Definition selector_chain (env : aenv) (e : expr) : option chain :=
  match e with
  | EDes d => expand env (names_d d)
  | _ => None
  end.

Fixpoint calls_of_stmts (tb : symtab) (env : aenv) (ss : list stmt) : list str :=
  match ss with
  | [] => []
  | st :: rest =>
    flat_map (classify tb env) (stmt_refs st) ++
    match st with
    | SAssoc _ pairs => calls_of_stmts tb (env ++ [map (fun p => (lower (fst p), selector_chain env (snd p))) pairs]) rest
    | SEndAssoc => calls_of_stmts tb (removelast env) rest
    | _ => calls_of_stmts tb env rest
    end
  end.

(* the user procedures the executable part [ss] of a unit invokes (as a set) *)
Definition calls_of (tb : symtab) (ss : list stmt) : list str := calls_of_stmts tb [] ss.

(* ================================================================== regions *)
(* Decidable classes of inputs in which the implementation is known to deviate from [calls_of]. *)

(* every reference of the unit, ASSOCIATE names expanded (None: the head is a local value) *)
Fixpoint unit_refs (env : aenv) (ss : list stmt) : list (option chain) :=
  match ss with
  | [] => []
  | st :: rest =>
    map (expand env) (stmt_refs st) ++
    match st with
    | SAssoc _ pairs => unit_refs (env ++ [map (fun p => (lower (fst p), selector_chain env (snd p))) pairs]) rest
    | SEndAssoc => unit_refs (removelast env) rest
    | _ => unit_refs env rest
    end
  end.

Definition some_refs (ss : list stmt) : list chain :=
  flat_map (fun o => match o with Some c => [c] | None => [] end) (unit_refs [] ss).

Definition is_proc_den (d : den) : bool := match d with DProc _ => true | _ => false end.

(* what the unit records for one expanded reference, as a list (Spec) *)
Definition classify0 (tb : symtab) (ch : chain) : list str :=
  match denote tb (st_scope tb) ch with
  | DProc id => [id]
  | DUnknown => if str_in (last_of ch) INTRINSICS then [] else [unresolved_name tb ch]
  | DVar => []
  | DType => []
  end.

(* 3: the unit sees a procedure spelled like a statement keyword of the grammar: "wait (...)" or "write (...)"
   then looks like a reference to it *)
Definition region_keyword_named (tb : symtab) : bool :=
  existsb (fun kw => is_proc_den (denote tb (st_scope tb) [kw])) grammar_keywords.
(* ... and the unit has a statement with that keyword *)
Definition stmt_keywords (st : stmt) : list str :=
  flat_map (fun g => match g with GKw kw _ _ => [lower kw] | _ => [] end) (stmt_segs st).
Definition region_keyword_used (tb : symtab) (ss : list stmt) : bool :=
  existsb (fun kw => is_proc_den (denote tb (st_scope tb) [kw])) (flat_map stmt_keywords ss).

(* FORD's tables against the tables Fortran's scoping gives, on the references of this unit:
   1: a reference that is a variable or type in truth is unknown to FORD (unresolved array)
   7: any other difference in what a reference denotes (name resolution, property C07) *)
Definition ford_class (tb : symtab) (ch : chain) : list str :=
  if str_in (last_of ch) INTRINSICS then
    match find_chain tb (st_scope tb) ch with
    | Some (EFunc id _) | Some (EProc id) => [id]
    | _ => []
    end
  else
    match find_call tb ch with
    | None => [unresolved_name tb ch]
    | Some (EVar _ _ _) => []
    | Some (EType _) => []
    | Some (EFunc id _) => [id]
    | Some (EProc id) => [id]
    end.

Definition region_unresolved (tb_ford tb_true : symtab) (ss : list stmt) : bool :=
  existsb (fun ch => match find_call tb_ford ch, denote tb_true (st_scope tb_true) ch with
                     | None, DVar => true
                     | None, DType => true
                     | _, _ => false
                     end) (some_refs ss).
Definition region_tables (tb_ford tb_true : symtab) (ss : list stmt) : bool :=
  existsb (fun ch => negb (list_eqb str_eqb (ford_class tb_ford ch) (classify0 tb_true ch))) (some_refs ss).

(* the open regions (2, 4, 5, 6, 8, 9 and the former 3, procedures spelled like INTRINSICS entries, were repaired in FORD) *)
Definition region_of (tb_ford tb_true : symtab) (ss : list stmt) : nat :=
  if region_unresolved tb_ford tb_true ss then 1
  else if region_tables tb_ford tb_true ss then 7
  else if region_keyword_used tb_true ss then 3
  else 0.
